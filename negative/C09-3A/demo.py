import mingus, os; assert os.path.realpath(mingus.__file__).startswith(os.path.realpath(os.path.dirname(__file__)))
import math
import signal
import sys
from fractions import Fraction

from mingus.core import meter, value

FAIL = []
CASES = [0]


def check(cond, msg):
    CASES[0] += 1
    if not cond:
        FAIL.append(msg)


def same(got, want):
    """Tuples equal element by element (4 == 4.0 counts as equal)."""
    return isinstance(got, tuple) and len(got) == len(want) and all(g == w for g, w in zip(got, want))


BASES = [0.25, 0.5, 1, 2, 4, 8, 16, 32, 64, 128]
RATIOS = {"plain": (1, 1), "triplet": (3, 2), "quintuplet": (5, 4), "septuplet": (7, 4)}
HELPERS = {"triplet": value.triplet, "quintuplet": value.quintuplet, "septuplet": value.septuplet}
PERTURB = [0.0, 0.0009, -0.0009, 0.004, -0.004, 0.0075, -0.0075, 0.0099, -0.0099]

# ---- 1. analysis inverts construction -------------------------------------
for b in BASES:
    for n in range(5):
        v = value.dots(b, n)
        check(same(value.determine(v), (b, n, 1, 1)), "determine(dots(%r, %r)=%r) -> %r" % (b, n, v, value.determine(v)))
        v = value.dots(value=b, nr=n)
        check(same(value.determine(value=v), (b, n, 1, 1)), "keyword form: dots(%r, %r)" % (b, n))
        # the exact rational the dotted value stands for, as a float
        exact = float(Fraction(b) * 2 ** n / (2 ** (n + 1) - 1))
        check(same(value.determine(exact), (b, n, 1, 1)), "determine(exact dotted %r/%r = %r) -> %r" % (b, n, exact, value.determine(exact)))
    check(same(value.determine(value.dots(b)), (b, 1, 1, 1)), "default nr for %r" % b)
    for name, fn in HELPERS.items():
        r = RATIOS[name]
        v = fn(b)
        check(same(value.determine(v), (b, 0) + r), "determine(%s(%r)=%r) -> %r" % (name, b, v, value.determine(v)))
        v = value.tuplet(b, r[0], r[1])
        check(same(value.determine(v), (b, 0) + r), "determine(tuplet(%r,%r,%r))" % (b, r[0], r[1]))
    check(same(value.determine(value.septuplet(b, True)), (b, 0, 7, 4)), "septuplet in fourths %r" % b)
    check(same(value.determine(value.septuplet(b, in_fourths=True)), (b, 0, 7, 4)), "septuplet kw %r" % b)
    check(same(value.determine(float(b)), (b, 0, 1, 1)), "float base %r" % b)

# ---- 2. within 1% of an undotted / single-dotted recognised value ---------
for b in BASES:
    centres = [(b, (b, 0, 1, 1)), (value.dots(b, 1), (b, 1, 1, 1))]
    for name, fn in HELPERS.items():
        centres.append((fn(b), (b, 0) + RATIOS[name]))
    for centre, want in centres:
        for e in PERTURB:
            v = centre * (1 + e)
            got = value.determine(v)
            check(same(got, want), "determine(%r) [= %r off by %r] -> %r, want %r" % (v, centre, e, got, want))

# repeated analysis of the same value (interleaved with others) is stable
for rep in range(3):
    for b in BASES:
        check(same(value.determine(b), (b, 0, 1, 1)), "repeat base %r" % b)
        check(same(value.determine(value.dots(b, 3)), (b, 3, 1, 1)), "repeat 3 dots %r" % b)
    for k in range(700):
        value.determine(0.3 + k * 0.317)
check(same(value.determine(8), (8, 0, 1, 1)) and same(value.determine(8.0), (8, 0, 1, 1)), "8 / 8.0")

# ---- 3. add / subtract ------------------------------------------------------
POOL = []
for b in BASES:
    POOL += [b, value.dots(b, 1), value.dots(b, 2), value.triplet(b), value.quintuplet(b), value.septuplet(b)]


def close(a, b):
    return math.isclose(a, b, rel_tol=1e-9, abs_tol=0.0)


for i, a in enumerate(POOL):
    for c in POOL[i % 7 :: 7]:
        s = value.add(a, c)
        check(close(s, 1.0 / (1.0 / a + 1.0 / c)), "add(%r,%r)=%r" % (a, c, s))
        check(close(1.0 / s, 1.0 / a + 1.0 / c), "duration of add(%r,%r)" % (a, c))
        check(close(value.subtract(s, c), a), "subtract(add(%r,%r),%r)=%r" % (a, c, c, value.subtract(s, c)))
        check(close(value.add(value1=a, value2=c), s), "add keywords")
        if a != c:
            d = value.subtract(a, c)
            check(close(d, 1.0 / (1.0 / a - 1.0 / c)), "subtract(%r,%r)=%r" % (a, c, d))
            check(close(value.add(d, c), a), "add(subtract(%r,%r),%r)=%r" % (a, c, c, value.add(d, c)))
            check(close(value.subtract(value1=a, value2=c), d), "subtract keywords")

# ---- 4. tuplet helpers equal the general formula ---------------------------
for v in POOL + [3, 5, 7, 9, 11, 100, 0.1, 12.5]:
    check(close(value.triplet(v), value.tuplet(v, 3, 2)) and close(value.triplet(v), v * 3 / 2.0), "triplet(%r)" % v)
    check(close(value.quintuplet(v), value.tuplet(v, 5, 4)) and close(value.quintuplet(v), v * 5 / 4.0), "quintuplet(%r)" % v)
    check(close(value.septuplet(v), value.tuplet(v, 7, 4)) and close(value.septuplet(v), v * 7 / 4.0), "septuplet(%r)" % v)
    check(close(value.septuplet(v, False), value.tuplet(v, 7, 8)) and close(value.septuplet(v, False), v * 7 / 8.0), "septuplet(%r, False)" % v)
    check(close(value.tuplet(value=v, rat1=9, rat2=8), v * 9 / 8.0), "tuplet 9:8 of %r" % v)


# ---- 5. meter predicates ----------------------------------------------------
def unit_ok(u):
    if isinstance(u, float):
        if u != u or u in (float("inf"), float("-inf")) or u != math.floor(u):
            return False
        u = int(u)
    return u >= 1 and (u & (u - 1)) == 0


def on_alarm(signum, frame):
    raise RuntimeError("meter predicate did not terminate")


signal.signal(signal.SIGALRM, on_alarm)

UNITS = list(range(-40, 300)) + [2 ** k for k in range(9, 80)] + [2 ** k + 1 for k in range(2, 80)]
UNITS += [2 ** k - 1 for k in range(3, 80)] + [3 * 2 ** k for k in range(0, 70, 7)] + [-(2 ** k) for k in range(0, 70, 9)]
UNITS += [2 ** 400, 2 ** 400 + 2, 10 ** 30, True, False]
UNITS += [0.0, -0.0, 1.0, 2.0, 4.0, 8.0, 16.0, 1024.0, 2.0 ** 60, 2.0 ** 900, 0.5, 0.25, 0.125, 1.5, 2.5, 3.0, 4.5, 6.0, 12.0]
UNITS += [4.000000001, 3.9999999, -1.0, -2.0, -4.0, -0.5, 1e300, 1e-300, 5e-324, float("inf"), float("-inf"), float("nan"), 1e16, 2.0 ** 53 + 2]
COUNTS = list(range(-13, 41)) + [99, 100, 101, 102, 2 ** 40, 2 ** 40 + 1, 3 * 2 ** 40 + 3, -(2 ** 40), 10 ** 25 + 1, 3 * 10 ** 25]

for ui, u in enumerate(UNITS):
    ok_u = unit_ok(u)
    signal.alarm(10)
    try:
        got_u = meter.valid_beat_duration(u)
    finally:
        signal.alarm(0)
    check(bool(got_u) == ok_u, "valid_beat_duration(%r) -> %r" % (u, got_u))
    for c in COUNTS[ui % 3 :: 3] + [0, 1, 3, 6, 9]:
        for m in ((c, u), [c, u]) if (ui + c) % 5 == 0 else ((c, u),):
            valid = c > 0 and ok_u
            signal.alarm(10)
            try:
                got = (meter.is_valid(m), meter.is_compound(m), meter.is_asymmetrical(m), meter.is_simple(m))
            finally:
                signal.alarm(0)
            want = (valid, valid and c % 3 == 0 and c >= 6, valid and c % 2 == 1, valid)
            check(tuple(bool(g) for g in got) == want, "meter %r: (valid, compound, asymmetrical, simple) = %r, want %r" % (m, got, want))
check(meter.is_valid(meter=(4, 4)) and meter.is_compound(meter=(6, 8)) and meter.is_asymmetrical(meter=(5, 8)), "keyword form")
check(meter.is_valid(meter.common_time) and meter.is_valid(meter.cut_time), "named meters")

if FAIL:
    print("FAIL: %d of %d checks" % (len(FAIL), CASES[0]))
    for f in FAIL[:25]:
        print("  " + f)
    sys.exit(1)
print("ok: %d checks" % CASES[0])
sys.exit(0)
