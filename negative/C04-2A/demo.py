import mingus, os; assert os.path.realpath(mingus.__file__).startswith(os.path.realpath(os.path.dirname(__file__)))
import sys
import itertools

from mingus.core import keys, intervals, notes
from mingus.core.mt_exceptions import NoteFormatError, RangeError

checked = 0


def fail(msg):
    print("PROPERTY VIOLATED: %s" % msg)
    sys.exit(1)


def check(cond, msg):
    global checked
    checked += 1
    if not cond:
        fail(msg)


MAJORS = ["Cb", "Gb", "Db", "Ab", "Eb", "Bb", "F", "C", "G", "D", "A", "E", "B", "F#", "C#"]
MINORS = ["ab", "eb", "bb", "f", "c", "g", "d", "a", "e", "b", "f#", "c#", "g#", "d#", "a#"]
LETTERS = "CDEFGAB"
SHARP_ORDER = ["F#", "C#", "G#", "D#", "A#", "E#", "B#"]
FLAT_ORDER = ["Bb", "Eb", "Ab", "Db", "Gb", "Cb", "Fb"]
SEMI = {"C": 0, "D": 2, "E": 4, "F": 5, "G": 7, "A": 9, "B": 11}


def semis(n):
    return (SEMI[n[0]] + n.count("#") - n.count("b")) % 12


def expect_raises(exc, f, *a, **kw):
    global checked
    checked += 1
    try:
        r = f(*a, **kw)
    except exc:
        return
    except Exception as e:
        fail("%s%r%r raised %s instead of %s" % (getattr(f, "__name__", f), a, kw, type(e).__name__, exc.__name__))
    fail("%s%r%r returned %r instead of raising %s" % (getattr(f, "__name__", f), a, kw, r, exc.__name__))


# ---- the 30 keys
for two_rounds in range(2):  # everything twice: objects / caches used several times
    for idx in range(15):
        sig = idx - 7
        for mode, key in (("major", MAJORS[idx]), ("minor", MINORS[idx])):
            ns = keys.get_notes(key)
            check(isinstance(ns, list) and len(ns) == 7, "get_notes(%r) -> %r" % (key, ns))
            check(ns == keys.get_notes(key=key), "keyword form differs for %r" % key)
            # tonic first
            tonic = key[0].upper() + key[1:]
            check(ns[0] == tonic, "tonic of %r: %r" % (key, ns))
            # letters, each once, in order
            start = LETTERS.index(tonic[0])
            check([n[0] for n in ns] == [LETTERS[(start + i) % 7] for i in range(7)], "letters of %r: %r" % (key, ns))
            # step pattern
            pattern = [2, 2, 1, 2, 2, 2, 1] if mode == "major" else [2, 1, 2, 2, 1, 2, 2]
            steps = [(semis(ns[(i + 1) % 7]) - semis(ns[i])) % 12 for i in range(7)]
            check(steps == pattern, "steps of %r: %r" % (key, steps))
            # signature
            check(keys.get_key_signature(key) == sig, "signature of %r" % key)
            check(keys.get_key_signature(key=key) == sig, "signature of %r (kw)" % key)
            acc = keys.get_key_signature_accidentals(key)
            expected_acc = SHARP_ORDER[:sig] if sig > 0 else FLAT_ORDER[:-sig] if sig < 0 else []
            check(acc == expected_acc, "accidentals of %r: %r" % (key, acc))
            check(keys.get_key_signature_accidentals(key=key) == expected_acc, "accidentals kw %r" % key)
            check(sorted(n for n in ns if len(n) > 1) == sorted(expected_acc), "altered notes of %r: %r" % (key, ns))
            check(all(len(n) == 1 or n in expected_acc for n in ns), "stray accidentals in %r" % key)
            # returned lists are independent of later calls
            ns.append("X")
            ns[0] = "Q"
            acc.append("X")
            check(keys.get_notes(key)[0] == tonic and len(keys.get_notes(key)) == 7, "get_notes(%r) aliasing" % key)
            check(keys.get_key_signature_accidentals(key) == expected_acc, "accidentals aliasing %r" % key)
            # lookups are inverse
            pair = keys.get_key(sig)
            check(tuple(pair) == (MAJORS[idx], MINORS[idx]), "get_key(%d) -> %r" % (sig, pair))
            check(tuple(keys.get_key(accidentals=sig)) == (MAJORS[idx], MINORS[idx]), "get_key kw %d" % sig)
            check(key in pair, "%r not in get_key(signature)" % key)
            check(keys.is_valid_key(key) is True, "is_valid_key(%r)" % key)
            # key object
            k = keys.Key(key)
            check(k.key == key, "Key(%r).key" % key)
            check(k.mode == mode, "Key(%r).mode = %r" % (key, k.mode))
            check(k.signature == sig, "Key(%r).signature" % key)
            acc_word = {"": "", "#": "sharp ", "b": "flat "}[key[1:]]
            check(k.name == "%s %s%s" % (key[0].upper(), acc_word, mode), "Key(%r).name = %r" % (key, k.name))
            check(k == keys.Key(key=key) and not (k != keys.Key(key)), "Key equality for %r" % key)
        # relatives
        M, m = MAJORS[idx], MINORS[idx]
        check(keys.relative_minor(M) == m, "relative_minor(%r)" % M)
        check(keys.relative_major(m) == M, "relative_major(%r)" % m)
        check(keys.relative_major(keys.relative_minor(M)) == M, "relative roundtrip %r" % M)
        check(keys.relative_minor(keys.relative_major(m)) == m, "relative roundtrip %r" % m)
        check(keys.relative_minor(key=M) == m and keys.relative_major(key=m) == M, "relatives kw")
        check(sorted(keys.get_notes(M)) == sorted(keys.get_notes(m)), "note sets of %r/%r" % (M, m))
        check((semis(keys.get_notes(m)[0]) - semis(keys.get_notes(M)[0])) % 12 == 9, "tonic distance %r/%r" % (M, m))
        check(keys.get_notes(m)[0] == keys.get_notes(M)[5], "minor tonic is sixth degree of %r" % M)

check(keys.get_key() == ("C", "a"), "get_key() default")
check(keys.get_key_signature() == 0 and keys.get_notes() == list(LETTERS), "defaults")
check(keys.get_key_signature_accidentals() == [], "default accidentals")
check(keys.Key().key == "C" and keys.Key().name == "C major", "Key() default")
check(keys.Key("C") != keys.Key("a"), "Key inequality")

# ---- out-of-range signature numbers
for n in [-8, 8, 9, -9, 15, -15, 22, -22, 100, -100, 2 ** 31, -2 ** 31, 2 ** 63, -2 ** 64, 10 ** 40, -10 ** 40, 10 ** 5000]:
    expect_raises(RangeError, keys.get_key, n)
    expect_raises(RangeError, keys.get_key, accidentals=n)

# ---- unknown keys
valid = set(MAJORS) | set(MINORS)
candidates = set()
for l in "ABCDEFGHabcdefgh":
    for suf in ["", "#", "b", "##", "bb", "#b", "b#", " ", "\n", "m", "%", "{", "}", "%s", "{0}", "\x00", "B", "-"]:
        candidates.add(l + suf)
candidates.update([
    "", " ", "C ", " C", "C\n", "\nC", "c\n", "F#\n", "Cmaj", "C major", "c minor", "cb", "Fb", "fb", "G#", "D#", "A#",
    "E#", "B#", "e#", "b#", "db", "gb", "H", "h", "X", "1", "0", "-3", "%", "%s", "%d", "%(key)s", "{", "}", "{}",
    "{0}", "{key}", "C{", "C%", "C%s", "'", "\"", "\\", "C" * 1000, "c#" * 5000, "x" * 100000, "♯", "C♯",
    "B♭", "é", "C#b", "Do", "do", "None", "Cb ", "ab\t", "AB", "Ab\x00", "À",
])
candidates -= valid
for s in sorted(candidates):
    check(keys.is_valid_key(s) is False, "is_valid_key(%r) should be False" % s[:30])
    expect_raises(NoteFormatError, keys.get_key_signature, s)
    expect_raises(NoteFormatError, keys.get_key_signature_accidentals, s)
    expect_raises(NoteFormatError, keys.get_notes, s)
    expect_raises(NoteFormatError, keys.relative_major, s)
    expect_raises(NoteFormatError, keys.relative_minor, s)
    if s:
        expect_raises(NoteFormatError, keys.Key, s)
        expect_raises(NoteFormatError, intervals.second, "C", s)
# relative of the wrong mode is an unknown key for that lookup
for M in MAJORS:
    expect_raises(NoteFormatError, keys.relative_major, M)
for m in MINORS:
    expect_raises(NoteFormatError, keys.relative_minor, m)
# valid keys keep working after all those failures
check(keys.get_notes("F") == ["F", "G", "A", "Bb", "C", "D", "E"], "F after failures")
check(keys.get_notes("c") == ["C", "D", "Eb", "F", "G", "Ab", "Bb"], "c after failures")

# ---- diatonic steps
FUNCS = [intervals.second, intervals.third, intervals.fourth, intervals.fifth, intervals.sixth, intervals.seventh]
SPELLINGS = ["", "#", "b", "##", "bb", "#b", "b#", "###", "bbbb", "#" * 50, "b#" * 200]
for key in MAJORS + MINORS:
    ns = keys.get_notes(key)
    by_letter = dict((n[0], i) for i, n in enumerate(ns))
    for letter in LETTERS:
        for sp in SPELLINGS:
            note = letter + sp
            for step, f in enumerate(FUNCS, 1):
                want = ns[(by_letter[letter] + step) % 7]
                got = f(note, key)
                check(got == want, "%s(%r, %r) = %r, expected %r" % (f.__name__, note[:8], key, got, want))
                if sp in ("", "#", "bb"):
                    check(f(note=note, key=key) == want, "%s kw" % f.__name__)
                    check(f(key=key, note=note) == want, "%s kw swapped" % f.__name__)
                    check(intervals.interval(key, note, step) == want, "interval(%r,%r,%d)" % (key, note, step))
                    check(intervals.interval(key=key, start_note=note, interval=step) == want, "interval kw")
    # key note list is unharmed by the interval functions
    check(keys.get_notes(key) == ns, "get_notes(%r) changed after interval calls" % key)

print("OK - %d checks" % checked)
sys.exit(0)
