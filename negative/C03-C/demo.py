import mingus, os; assert os.path.realpath(mingus.__file__).startswith(os.path.realpath(os.path.dirname(__file__)))
import sys

from mingus.core import intervals

LETTERS = "CDEFGAB"
NAT = {"C": 0, "D": 2, "E": 4, "F": 5, "G": 7, "A": 9, "B": 11}
MAJOR = [0, 2, 4, 5, 7, 9, 11]
NUMBER = ["unison", "second", "third", "fourth", "fifth", "sixth", "seventh"]
ACCS = ["", "#", "##", "b", "bb"]
NAMES = [l + a for l in LETTERS for a in ACCS]
SHORTHANDS = [a + str(d) for d in range(1, 8) for a in ACCS]

failures = []


def fail(msg):
    failures.append(msg)
    if len(failures) >= 20:
        finish()


def finish():
    if failures:
        print("C03 property VIOLATED (%d shown):" % len(failures))
        for f in failures:
            print("  " + f)
        sys.exit(1)
    print("C03 property holds on %d checks" % checks)
    sys.exit(0)


def acc(name):
    return name[1:].count("#") - name[1:].count("b")


def well_formed(name):
    return (
        isinstance(name, str)
        and len(name) >= 1
        and name[0] in NAT
        and all(c in "#b" for c in name[1:])
    )


checks = 0

# 1. determine() on all ordered pairs whose ascending distance along the
#    letters is 0..11 semitones, long and short form.
for n1 in NAMES:
    for n2 in NAMES:
        steps = (LETTERS.index(n2[0]) - LETTERS.index(n1[0])) % 7
        natural = (NAT[n2[0]] - NAT[n1[0]]) % 12
        dist = natural + acc(n2) - acc(n1)
        if not 0 <= dist <= 11:
            continue
        offset = dist - MAJOR[steps]
        if offset == 0:
            qualities = ("major", "perfect")
        elif offset == -1:
            qualities = ("minor",)
        elif offset < -1:
            qualities = ("diminished",)
        else:
            qualities = ("augmented",)
        checks += 1
        long_name = intervals.determine(n1, n2)
        if long_name not in [q + " " + NUMBER[steps] for q in qualities]:
            fail(
                "determine(%r, %r) = %r, expected %s %s"
                % (n1, n2, long_name, "/".join(qualities), NUMBER[steps])
            )
        if intervals.determine(n1, n2, False) != long_name:
            fail("determine(%r, %r, False) differs from default" % (n1, n2))
        short = intervals.determine(n1, n2, True)
        checks += 1
        if not (
            isinstance(short, str)
            and len(short) >= 1
            and short[-1] == str(steps + 1)
            and all(c in "#b" for c in short[:-1])
        ):
            fail("determine(%r, %r, True) = %r is not a shorthand for degree %d"
                 % (n1, n2, short, steps + 1))
            continue
        if short[:-1].count("#") - short[:-1].count("b") != offset:
            fail("determine(%r, %r, True) = %r, accidentals do not give offset %d"
                 % (n1, n2, short, offset))
        back = intervals.from_shorthand(n1, short)
        if back != n2:
            fail("from_shorthand(%r, %r) = %r, expected %r" % (n1, short, back, n2))

# 2. from_shorthand() for all names x 35 shorthands x up/down.
for n in NAMES:
    i = LETTERS.index(n[0])
    for sh in SHORTHANDS:
        deg = int(sh[-1])
        semis = MAJOR[deg - 1] + sh.count("#") - sh.count("b")

        checks += 1
        up = intervals.from_shorthand(n, sh)
        up2 = intervals.from_shorthand(n, sh, True)
        if up != up2:
            fail("from_shorthand(%r, %r) default != up=True" % (n, sh))
        if not well_formed(up):
            fail("from_shorthand(%r, %r) = %r is not a note name" % (n, sh, up))
            continue
        letter = LETTERS[(i + deg - 1) % 7]
        natural = (NAT[letter] - NAT[n[0]]) % 12
        if up[0] != letter or natural + acc(up) - acc(n) != semis:
            fail("from_shorthand(%r, %r) = %r, expected %s %d semitones above"
                 % (n, sh, up, letter, semis))

        checks += 1
        down = intervals.from_shorthand(n, sh, False)
        if not well_formed(down):
            fail("from_shorthand(%r, %r, False) = %r is not a note name" % (n, sh, down))
            continue
        letter = LETTERS[(i - (deg - 1)) % 7]
        natural = (NAT[n[0]] - NAT[letter]) % 12
        if down[0] != letter or natural + acc(n) - acc(down) != semis:
            fail("from_shorthand(%r, %r, False) = %r, expected %s %d semitones below"
                 % (n, sh, down, letter, semis))

        checks += 1
        back = intervals.from_shorthand(up, sh, False)
        if back != n:
            fail("up then down with %r from %r gives %r" % (sh, n, back))

# 3. invert() returns the reversed list and leaves its argument alone.
samples = [
    [],
    ["C"],
    ["C", "E"],
    ["E", "C"],
    ["C", "E", "G"],
    ["Bb", "D##", "Fbb", "A", "A"],
    list(NAMES),
    ["C", "C", "D", "C"],
]
for s in samples:
    before = list(s)
    checks += 1
    res = intervals.invert(s)
    if s != before:
        fail("invert(%r) modified its argument to %r" % (before, s))
    if not isinstance(res, list) or res != before[::-1]:
        fail("invert(%r) = %r" % (before, res))
    again = intervals.invert(res)
    if again != before:
        fail("invert(invert(%r)) = %r" % (before, again))

finish()
