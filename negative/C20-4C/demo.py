import mingus, os; assert os.path.realpath(mingus.__file__).startswith(os.path.realpath(os.path.dirname(__file__)))
"""Direct check of property C20 (tunings / tablature) through the public API.

Exit 0 when everything holds, 1 with a message otherwise.
"""
import itertools
import random
import re
import sys

import mingus.extra.tunings as T
import mingus.extra.tablature as tab
import mingus.core.chords as chords
from mingus.containers import Note, NoteContainer, Bar, Track, Composition
from mingus.core.mt_exceptions import RangeError, FingerError

CASES = [0]


class Violation(Exception):
    pass


def check(cond, msg):
    CASES[0] += 1
    if not cond:
        raise Violation(msg)


def open_pitch(tuning, s):
    x = tuning.tuning[s]
    if isinstance(x, list):
        x = x[0]
    return int(x)


def single(tuning):
    return all(not isinstance(x, list) for x in tuning.tuning)


ALL = T.get_tunings()


# ---------------------------------------------------------------- frets
def check_frets():
    check(len(ALL) >= 70, "expected about 76 registered tunings, got %d" % len(ALL))
    for tun in ALL:
        nstr = tun.count_strings()
        opens = [open_pitch(tun, s) for s in range(nstr)]
        for maxfret in (0, 5, 12, 24, 30):
            for n in range(0, 128):
                note = Note(n)
                if n % 3 == 0:
                    got = tun.find_frets(note, maxfret)
                elif n % 3 == 1:
                    got = tun.find_frets(note=note, maxfret=maxfret)
                else:
                    # strings are accepted as well
                    got = tun.find_frets("%s-%d" % (note.name, note.octave), maxfret)
                want = [
                    (n - o) if 0 <= n - o <= maxfret else None for o in opens
                ]
                check(
                    list(got) == want,
                    "find_frets(%r, %d) on %s/%s: %r != %r"
                    % (note, maxfret, tun.instrument, tun.description, got, want),
                )
        # default maxfret is 24
        for n in (0, 40, 52, 64, 76, 100, 127):
            got = tun.find_frets(Note(n))
            want = [(n - o) if 0 <= n - o <= 24 else None for o in opens]
            check(list(got) == want, "find_frets default maxfret")
        # get_Note
        for s in range(nstr):
            for maxfret in (0, 7, 24, 36):
                for fret in range(0, maxfret + 1):
                    if (fret + s + maxfret) % 2:
                        nn = tun.get_Note(s, fret, maxfret)
                    else:
                        nn = tun.get_Note(string=s, fret=fret, maxfret=maxfret)
                    check(
                        int(nn) == opens[s] + fret,
                        "get_Note(%d, %d) on %s/%s gives %r"
                        % (s, fret, tun.instrument, tun.description, nn),
                    )
                for fret in (-3, -1, maxfret + 1, maxfret + 40):
                    try:
                        tun.get_Note(s, fret, maxfret)
                    except RangeError:
                        check(True, "")
                    else:
                        check(False, "get_Note fret %d accepted (maxfret %d)" % (fret, maxfret))
            check(int(tun.get_Note(s)) == opens[s], "get_Note default fret")
            check(int(tun.get_Note(s, 24)) == opens[s] + 24, "get_Note default maxfret 24")
            try:
                tun.get_Note(s, 25)
            except RangeError:
                check(True, "")
            else:
                check(False, "get_Note(s, 25) accepted with default maxfret")
        for s in (-1, -2, nstr, nstr + 5):
            for _ in range(2):  # refused calls repeated
                try:
                    tun.get_Note(s, 0)
                except RangeError:
                    check(True, "")
                else:
                    check(False, "get_Note string %d accepted" % s)


# --------------------------------------------------------------- lookup
def check_lookup():
    instruments = T.get_instruments()
    prefixes = set([None, "", "b", "B", "gui", "GUITAR", "guitar", "Bass", "ma", "mando",
                    "Mandolin", "violin", "fid", "zzz", "Guitarr", u"guitarr\xf3n", "irish b"])
    for name in instruments:
        prefixes.add(name)
        prefixes.add(name[:3].lower())
    for p in sorted(prefixes, key=lambda x: (x is not None, x)):
        for ns in (None, 3, 4, 5, 6, 7):
            for nc in (None, 1, 2, 3, 1.0, 2.0, 1.6):
                if ns is None and nc is None:
                    res = T.get_tunings(p)
                elif nc is None:
                    res = T.get_tunings(p, ns)
                else:
                    res = T.get_tunings(instrument=p, nr_of_strings=ns, nr_of_courses=nc)
                for t in res:
                    ok = True
                    if p is not None:
                        ok = ok and t.instrument.upper().startswith(p.upper())
                    if ns is not None:
                        ok = ok and t.count_strings() == ns
                    if nc is not None:
                        ok = ok and t.count_courses() == nc
                    check(ok, "get_tunings(%r, %r, %r) returned %s/%s"
                          % (p, ns, nc, t.instrument, t.description))
    for name in instruments:
        res = T.get_tunings(name)
        check(len(res) >= 1, "get_tunings(%r) empty" % name)
    check(len(T.get_tunings(nr_of_strings=6)) >= 10, "six string tunings")
    # get_tuning
    descs = ["", "s", "standard", "Standard tuning", "open", "OPEN G", "irish", '"', "drop", "zz", "f6", "G6 t"]
    for p in sorted(x for x in prefixes if x is not None):
        for d in descs:
            for ns in (None, 4, 6):
                for nc in (None, 1, 2):
                    t = T.get_tuning(p, d, ns, nc)
                    if t is None:
                        check(True, "")
                        continue
                    ok = t.instrument.upper().startswith(p.upper())
                    ok = ok and t.description.upper().startswith(d.upper())
                    if ns is not None:
                        ok = ok and t.count_strings() == ns
                    if nc is not None:
                        ok = ok and t.count_courses() == nc
                    check(ok, "get_tuning(%r, %r, %r, %r) returned %s/%s"
                          % (p, d, ns, nc, t.instrument, t.description))
    t = T.get_tuning("Guitar", "Standard", 6, 1)
    check(t is not None and t.count_strings() == 6 and t.count_courses() == 1, "guitar 6/1")
    t = T.get_tuning(instrument="guitar", description="standard", nr_of_strings=6, nr_of_courses=2)
    check(t is not None and t.count_courses() == 2, "guitar 6/2")
    for t in ALL:
        got = T.get_tuning(t.instrument, t.description, t.count_strings(), t.count_courses())
        check(got is not None and got.instrument == t.instrument
              and got.count_strings() == t.count_strings()
              and got.count_courses() == t.count_courses(), "round trip lookup")


# ------------------------------------------------------------ fingering
def brute_fingerings(tun, ints, max_distance):
    nstr = tun.count_strings()
    opens = [open_pitch(tun, s) for s in range(nstr)]
    out = set()
    for strings in itertools.permutations(range(nstr), len(ints)):
        f = []
        for s, n in zip(strings, ints):
            d = n - opens[s]
            if not 0 <= d <= 24:
                break
            f.append((s, d))
        else:
            nz = [fr for (_, fr) in f if fr != 0]
            if not nz or max(nz) - min(nz) < max_distance:
                out.add(tuple(f))
    return out


def check_fingering(rng):
    for ti, tun in enumerate(ALL):
        nstr = tun.count_strings()
        opens = [open_pitch(tun, s) for s in range(nstr)]
        lo, hi = min(opens), max(opens)
        for k in range(5):
            size = rng.randint(1, min(4, nstr + 1))
            ints = [rng.randint(lo - 2, hi + 14) for _ in range(size)]
            if k == 4 and size > 1:
                ints[1] = ints[0]  # the same note twice
            md = rng.choice([4, 4, 1, 2, 3, 5, 7])
            objs = [Note(i) for i in ints]
            form = (k + ti) % 4
            if form == 0:
                arg = objs
            elif form == 1:
                arg = ["%s-%d" % (o.name, o.octave) for o in objs]
            elif form == 2:
                arg = tuple(objs)
            else:
                arg = objs
            if md == 4 and form != 3:
                got = tun.find_fingering(arg)
            elif form == 3:
                got = tun.find_fingering(notes=arg, max_distance=md)
            else:
                got = tun.find_fingering(arg, md)
            want = brute_fingerings(tun, ints, md)
            gotset = set(tuple((s, f) for (s, f) in x) for x in got)
            where = "find_fingering(%r, %d) on %s/%s" % (ints, md, tun.instrument, tun.description)
            check(len(gotset) == len(got), where + ": duplicates")
            check(gotset == want, where + ": got %r want %r" % (sorted(gotset), sorted(want)))
            totals = [sum(f for (_, f) in x) for x in got]
            check(totals == sorted(totals), where + ": not ordered by total fret number")
            for x in got:
                check(len(x) == len(ints) and len(set(s for (s, _) in x)) == len(x), where + ": strings")
                for (s, f), n in zip(x, ints):
                    check(int(tun.get_Note(s, f)) == n, where + ": wrong pitch")
    g = T.get_tuning("Guitar", "Standard", 6, 1)
    check(g.find_fingering([]) == [], "empty note list")
    nc = NoteContainer(["E-4", "B-4"])
    got = g.find_fingering(nc)
    check(set(map(tuple, got)) == brute_fingerings(g, [int(n) for n in nc], 4), "NoteContainer input")


def check_chords():
    fam = [t for t in ALL if single(t) and t.count_strings() == 6 and "uitar" in t.instrument]
    fam += [T.get_tuning("Ukulele", ""), T.get_tuning("Banjo (5", ""), T.get_tuning("Bass guitar", "Standard 4")]
    shorthands = ["", "m", "7", "m7", "M7", "dim", "aug", "sus4", "sus2", "6", "m6", "9", "5", "7b5", "dim7", "11"]
    roots = ["C", "C#", "D", "Eb", "E", "F", "F#", "G", "Ab", "A", "Bb", "B"]
    count = 0
    for ti, tun in enumerate(fam):
        nstr = tun.count_strings()
        opens = [open_pitch(tun, s) for s in range(nstr)]
        for si, sh in enumerate(shorthands):
            for ri, root in enumerate(roots):
                if (ti + si + ri) % 4:
                    continue
                names = chords.from_shorthand(root + sh)
                nc = NoteContainer(names)
                pcs = set(int(n) % 12 for n in nc)
                variant = (ti + si + ri) // 4 % 3
                if variant == 0:
                    md, mf, mfin = 4, 18, 4
                    res = tun.find_chord_fingering(nc)
                elif variant == 1:
                    md, mf, mfin = 3, 12, 3
                    res = tun.find_chord_fingering(nc, max_distance=md, maxfret=mf, max_fingers=mfin)
                else:
                    md, mf, mfin = 5, 15, 4
                    res = tun.find_chord_fingering(list(names), md, mf, mfin)
                count += 1
                where = "find_chord_fingering(%s%s) on %s/%s" % (root, sh, tun.instrument, tun.description)
                for f in res:
                    check(len(f) == nstr, where + ": %r not one entry per string" % (f,))
                    played = [(s, fr) for s, fr in enumerate(f) if fr is not None]
                    check(all(0 <= fr <= mf for _, fr in played), where + ": fret beyond maxfret %r" % (f,))
                    sounding = set((opens[s] + fr) % 12 for s, fr in played)
                    check(sounding <= pcs, where + ": %r sounds foreign pitch classes" % (f,))
                    check(sounding == pcs, where + ": %r does not cover the chord" % (f,))
                    nz = [fr for _, fr in played if fr != 0]
                    check(not nz or max(nz) - min(nz) < md, where + ": %r span" % (f,))
                    if nz:
                        check(T.fingers_needed(f) <= mfin, where + ": %r fingers" % (f,))
    check(count > 100, "chord cases")


# ------------------------------------------------------------ tablature
LINE = re.compile(r"^\s*(\S+)\s*\|\|([^*]*)\|$")


def string_line_groups(text, counts):
    """Split rendered text into groups of consecutive string lines."""
    groups = []
    cur = []
    for line in text.split(os.linesep):
        m = LINE.match(line)
        if m and set(m.group(2)) <= set("-|0123456789 "):
            cur.append(line)
        else:
            if cur:
                groups.append(cur)
            cur = []
    if cur:
        groups.append(cur)
    return groups


def decode_group(lines, tun, where):
    """Decode one system: return list of sorted pitch lists, one per column."""
    nstr = tun.count_strings()
    check(len(lines) == nstr, where + ": %d string lines for %d strings" % (len(lines), nstr))
    check(len(set(len(l) for l in lines)) == 1, where + ": lines differ in length")
    runs = []
    for k, line in enumerate(lines):
        start = line.index("||") + 2
        for m in re.finditer(r"\d+", line[start:]):
            runs.append((start + m.start(), start + m.end(), nstr - 1 - k, int(m.group())))
    runs.sort()
    entries = []
    cur, cur_end = [], -1
    for (a, b, s, f) in runs:
        if cur and a < cur_end:
            cur.append((s, f))
            cur_end = max(cur_end, b)
        else:
            if cur:
                entries.append(cur)
            cur, cur_end = [(s, f)], b
    if cur:
        entries.append(cur)
    out = []
    for e in entries:
        check(len(set(s for s, _ in e)) == len(e), where + ": two numbers on one string in a column")
        out.append(sorted(open_pitch(tun, s) + f for s, f in e))
    return out


def playable_sets(tun, rng, n, maxsize=3):
    nstr = tun.count_strings()
    opens = [open_pitch(tun, s) for s in range(nstr)]
    out = []
    tries = 0
    while len(out) < n and tries < 2000:
        tries += 1
        size = rng.randint(1, min(maxsize, nstr))
        ints = sorted(set(rng.randint(min(opens), max(opens) + 12) for _ in range(size)))
        objs = [Note(i) for i in ints]
        if tun.find_fingering(objs) != []:
            out.append(ints)
    return out


def expect_error(fn, where):
    for _ in range(2):
        try:
            fn()
        except (RangeError, FingerError):
            check(True, "")
        else:
            check(False, where + ": no fingering/range error")


def random_bar(tun, rng, sets):
    """Return (bar, expected list of pitch lists)."""
    b = Bar()
    want = []
    pattern = rng.choice([[4, 4, 4, 4], [2, 4, 4], [1], [2, 2], [4, 8, 8, 4, 4], [4, 4, 2], [8, 8, 8, 8, 2]])
    for d in pattern:
        if rng.random() < 0.15:
            b.place_rest(d)
            continue
        ints = rng.choice(sets)
        b.place_notes(NoteContainer([Note(i) for i in ints]), d)
        want.append(sorted(ints))
    return b, want


def check_tabs(rng):
    tabbable = [t for t in ALL if single(t)]
    for ti, tun in enumerate(tabbable):
        nstr = tun.count_strings()
        opens = [open_pitch(tun, s) for s in range(nstr)]
        name = "%s/%s" % (tun.instrument, tun.description)
        sets = playable_sets(tun, rng, 12)
        check(len(sets) == 12, "could not build playable sets for " + name)
        # single notes
        for n in rng.sample(range(min(opens), max(opens) + 25), 4):
            for width in (rng.choice([12, 20, 33]), 80):
                if width == 80:
                    text = tab.from_Note(Note(n), tuning=tun)
                else:
                    text = tab.from_Note(Note(n), width, tun)
                groups = string_line_groups(text, nstr)
                where = "from_Note(%d, %d) %s" % (n, width, name)
                check(len(groups) == 1, where + ": one block expected")
                check(len(text.split(os.linesep)) == nstr, where + ": one line per string")
                check(decode_group(groups[0], tun, where) == [[n]], where + ": decodes to %r" % decode_group(groups[0], tun, where))
        for n in (min(opens) - 1, max(opens) + 25, 0, 127):
            if all(not 0 <= n - o <= 24 for o in opens):
                expect_error(lambda: tab.from_Note(Note(n), 40, tun), "from_Note(%d) %s" % (n, name))
        # note containers
        for ints in sets[:4]:
            width = rng.choice([16, 30, 41, 80, 100])
            arg = NoteContainer([Note(i) for i in ints])
            if width % 2:
                arg = ["%s-%d" % (x.name, x.octave) for x in arg]
            text = tab.from_NoteContainer(arg, width=width, tuning=tun)
            where = "from_NoteContainer(%r, %d) %s" % (ints, width, name)
            groups = string_line_groups(text, nstr)
            check(len(groups) == 1, where + ": one block expected")
            check(len(text.split(os.linesep)) == nstr, where + ": one line per string")
            check(decode_group(groups[0], tun, where) == [sorted(ints)], where + ": wrong pitches")
        bad = [Note(min(opens) - 1), Note(max(opens))]
        expect_error(lambda: tab.from_NoteContainer(bad, 40, tun), "from_NoteContainer(unplayable) " + name)
        # bars
        for k in range(3):
            b, want = random_bar(tun, rng, sets)
            width = rng.choice([40, 50, 60, 77, 90])
            where = "from_Bar width %d %s %r" % (width, name, want)
            text = tab.from_Bar(b, width, tun)
            lines = text.split(os.linesep)
            check(len(lines) == nstr + 1, where + ": line count")
            check(len(set(len(l) for l in lines)) == 1, where + ": lines differ in length")
            groups = string_line_groups(text, nstr)
            check(len(groups) == 1, where + ": one block expected")
            check(decode_group(groups[0], tun, where) == want, where + ": decoded %r" % decode_group(groups[0], tun, where))
            aslist = tab.from_Bar(b, width, tun, collapse=False)
            check(list(aslist) == lines, where + ": collapse=False differs")
        b = Bar()
        b.place_notes(NoteContainer([Note(i) for i in sets[0]]), 2)
        b.place_notes(NoteContainer([Note(min(opens) - 1)]), 2)
        expect_error(lambda: tab.from_Bar(b, 40, tun), "from_Bar(unplayable) " + name)
        # tracks
        if ti % 2 == 0:
            tr = Track()
            want = []
            for k in range(rng.randint(1, 5)):
                b, w = random_bar(tun, rng, sets)
                tr.add_bar(b)
                want += w
            tr.set_tuning(tun)
            maxwidth = rng.choice([50, 60, 80, 100, 121, 150])
            where = "from_Track maxwidth %d %s" % (maxwidth, name)
            text = tab.from_Track(tr, maxwidth) if ti % 4 else tab.from_Track(tr, maxwidth=maxwidth, tuning=tun)
            got = []
            for g in string_line_groups(text, nstr):
                got += decode_group(g, tun, where)
            check(got == want, where + ": decoded %r want %r" % (got, want))
    # compositions: several tracks on (possibly) different tunings
    for k in range(12):
        tuns = [rng.choice(tabbable) for _ in range(rng.randint(1, 3))]
        nbars = rng.randint(1, 5)
        comp = Composition()
        comp.set_title("Piece", "sub")
        comp.set_author("Somebody", "a@b")
        wants = []
        for tun in tuns:
            sets = playable_sets(tun, rng, 8)
            tr = Track()
            want = []
            for _ in range(nbars):
                b, w = random_bar(tun, rng, sets)
                tr.add_bar(b)
                want += w
            tr.set_tuning(tun)
            comp.add_track(tr)
            wants.append(want)
        width = rng.choice([60, 80, 100, 120, 140])
        where = "from_Composition width %d (%d tracks)" % (width, len(tuns))
        text = tab.from_Composition(comp, width)
        groups = string_line_groups(text, None)
        check(len(groups) % len(tuns) == 0, where + ": %d systems for %d tracks" % (len(groups), len(tuns)))
        gots = [[] for _ in tuns]
        for gi, g in enumerate(groups):
            t = gi % len(tuns)
            gots[t] += decode_group(g, tuns[t], where)
        check(gots == wants, where + ": decoded %r want %r" % (gots, wants))


def main():
    rng = random.Random(2020)
    try:
        check_frets()
        check_lookup()
        check_fingering(rng)
        check_chords()
        check_tabs(rng)
        # a second pass in the same process (many inputs, objects reused)
        check_fingering(rng)
        check_tabs(rng)
    except Violation as e:
        print("PROPERTY VIOLATED: %s" % e)
        return 1
    print("ok: %d checks" % CASES[0])
    return 0


if __name__ == "__main__":
    sys.exit(main())
