import mingus, os; assert os.path.realpath(mingus.__file__).startswith(os.path.realpath(os.path.dirname(__file__)))
import sys

from mingus.core import keys, intervals, notes
from mingus.core.mt_exceptions import NoteFormatError, RangeError

MAJOR = ["Cb", "Gb", "Db", "Ab", "Eb", "Bb", "F", "C", "G", "D", "A", "E", "B", "F#", "C#"]
MINOR = ["ab", "eb", "bb", "f", "c", "g", "d", "a", "e", "b", "f#", "c#", "g#", "d#", "a#"]
LETTERS = "CDEFGAB"
SHARP_ORDER = ["F#", "C#", "G#", "D#", "A#", "E#", "B#"]
FLAT_ORDER = ["Bb", "Eb", "Ab", "Db", "Gb", "Cb", "Fb"]
MAJOR_STEPS = [2, 2, 1, 2, 2, 2, 1]
MINOR_STEPS = [2, 1, 2, 2, 1, 2, 2]

checked = [0]
failures = []


def check(cond, msg):
    checked[0] += 1
    if not cond:
        failures.append(msg)


def raises(exc, fn, *args, **kwargs):
    try:
        fn(*args, **kwargs)
    except exc:
        return True
    except Exception as e:  # wrong class
        failures.append("%s%r raised %r instead of %s" % (fn.__name__, args, e, exc.__name__))
        return True
    return False


def run_once():
    # --- per key ---------------------------------------------------------
    for idx in range(15):
        sig = idx - 7
        for mode, k in (("major", MAJOR[idx]), ("minor", MINOR[idx])):
            check(keys.is_valid_key(k) is True, "is_valid_key(%r)" % k)
            check(keys.get_key_signature(k) == sig, "signature of %r" % k)
            check(keys.get_key_signature(key=k) == sig, "signature (kw) of %r" % k)
            check(keys.get_key(sig)[0 if mode == "major" else 1] == k, "get_key(%d) vs %r" % (sig, k))

            ns = keys.get_notes(k)
            check(isinstance(ns, list) and len(ns) == 7, "get_notes(%r) length" % k)
            tonic = k[0].upper() + k[1:]
            check(ns[0] == tonic, "tonic of %r: %r" % (k, ns[0]))
            start = LETTERS.index(tonic[0])
            check(
                [n[0] for n in ns] == [LETTERS[(start + i) % 7] for i in range(7)],
                "letters of %r: %r" % (k, ns),
            )
            steps = [
                (notes.note_to_int(ns[(i + 1) % 7]) - notes.note_to_int(ns[i])) % 12 for i in range(7)
            ]
            check(
                steps == (MAJOR_STEPS if mode == "major" else MINOR_STEPS),
                "step pattern of %r: %r" % (k, steps),
            )
            acc = keys.get_key_signature_accidentals(k)
            check(isinstance(acc, list), "accidentals type for %r" % k)
            check(len(acc) == abs(sig), "accidental count for %r: %r" % (k, acc))
            if sig > 0:
                check(acc == SHARP_ORDER[:sig], "sharp order for %r: %r" % (k, acc))
            elif sig < 0:
                check(acc == FLAT_ORDER[:-sig], "flat order for %r: %r" % (k, acc))
            else:
                check(acc == [], "no accidentals for %r: %r" % (k, acc))
            check(
                sorted(n for n in ns if len(n) > 1) == sorted(acc),
                "altered notes of %r: %r vs %r" % (k, ns, acc),
            )
            check(all(len(n) <= 2 for n in ns), "single accidentals in %r" % k)

            # a caller altering the returned lists does not affect later answers
            ns.append("X")
            ns[0] = "?"
            acc.append("X")
            check(keys.get_notes(k)[0] == tonic and len(keys.get_notes(k)) == 7, "get_notes(%r) after mutation" % k)
            check(len(keys.get_key_signature_accidentals(k)) == abs(sig), "accidentals(%r) after mutation" % k)

            # key object
            ko = keys.Key(k)
            check(ko.key == k, "Key(%r).key" % k)
            check(ko.mode == mode, "Key(%r).mode == %r" % (k, ko.mode))
            check(ko.signature == sig, "Key(%r).signature" % k)
            expected_name = "%s %s%s" % (
                k[0].upper(),
                {"": "", "#": "sharp ", "b": "flat "}[k[1:]],
                mode,
            )
            check(ko.name == expected_name, "Key(%r).name == %r" % (k, ko.name))
            check(keys.Key(key=k) == ko and not (keys.Key(k) != ko), "Key equality %r" % k)

        # relatives
        M, m = MAJOR[idx], MINOR[idx]
        check(keys.relative_minor(M) == m, "relative_minor(%r)" % M)
        check(keys.relative_major(m) == M, "relative_major(%r)" % m)
        check(keys.relative_major(keys.relative_minor(M)) == M, "relative round trip %r" % M)
        check(keys.relative_minor(keys.relative_major(m)) == m, "relative round trip %r" % m)
        check(sorted(keys.get_notes(M)) == sorted(keys.get_notes(m)), "note set %r/%r" % (M, m))
        check(
            (notes.note_to_int(keys.get_notes(m)[0]) - notes.note_to_int(keys.get_notes(M)[0])) % 12 == 9,
            "minor tonic 9 above major for %r/%r" % (M, m),
        )
        check(keys.get_key(sig) == (M, m), "get_key(%d)" % sig)
        check(keys.get_key(accidentals=sig) == (M, m), "get_key(accidentals=%d)" % sig)
    check(keys.get_key() == ("C", "a"), "get_key() default")
    check(keys.get_key_signature() == 0, "get_key_signature() default")
    check(keys.get_notes() == list("CDEFGAB"), "get_notes() default")
    check(keys.get_key_signature_accidentals() == [], "accidentals default")
    check(keys.Key().key == "C", "Key() default")

    # --- refusals ----------------------------------------------------------
    for n in (-8, 8, -9, 9, 15, -15, 100, -100, 10 ** 30, -(10 ** 30), 22, -22):
        for _ in range(2):
            check(raises(RangeError, keys.get_key, n), "get_key(%r) accepted" % n)
    bad = [
        "", "H", "c b", "Cb ", " C", "CB", "C##", "Fb", "G#", "D#", "A#", "E#", "B#", "db", "gb", "cb",
        "e#", "b#", "fb", "cc", "C\n", "\nC", "%s", "{0}", "{", "%", "C%", "c{", "é", "♯",
        "C♯", "major", "C major", "Am", "am", "c" * 5000, "Cb" * 3000, "0", "-3", "None", "a ", "h",
    ]
    for b in bad:
        for _ in range(2):
            check(keys.is_valid_key(b) is False, "is_valid_key(%r)" % b)
            check(raises(NoteFormatError, keys.get_key_signature, b), "get_key_signature(%r) accepted" % b)
            check(raises(NoteFormatError, keys.get_key_signature_accidentals, b), "accidentals(%r) accepted" % b)
            check(raises(NoteFormatError, keys.get_notes, b), "get_notes(%r) accepted" % b)
            check(raises(NoteFormatError, keys.Key, b), "Key(%r) accepted" % b)
            check(raises(NoteFormatError, keys.relative_major, b), "relative_major(%r) accepted" % b)
            check(raises(NoteFormatError, keys.relative_minor, b), "relative_minor(%r) accepted" % b)
            check(raises(NoteFormatError, intervals.second, "C", b), "second('C', %r) accepted" % b)
    for M in MAJOR:
        if M not in MINOR:
            check(raises(NoteFormatError, keys.relative_major, M), "relative_major(%r) accepted" % M)
    for m in MINOR:
        if m not in MAJOR:
            check(raises(NoteFormatError, keys.relative_minor, m), "relative_minor(%r) accepted" % m)
    # refusals leave the good answers intact
    check(keys.get_notes("F") == ["F", "G", "A", "Bb", "C", "D", "E"], "get_notes('F') after refusals")
    check(keys.get_notes("c") == ["C", "D", "Eb", "F", "G", "Ab", "Bb"], "get_notes('c') after refusals")

    # --- diatonic steps ------------------------------------------------------
    fns = [
        intervals.second, intervals.third, intervals.fourth,
        intervals.fifth, intervals.sixth, intervals.seventh,
    ]
    spellings = ["", "#", "b", "##", "bb", "#b", "b#b", "#" * 40]
    for k in MAJOR + MINOR:
        ns = keys.get_notes(k)
        by_letter = dict((n[0], i) for i, n in enumerate(ns))
        for letter in LETTERS:
            for sp in spellings:
                note = letter + sp
                for step, fn in enumerate(fns, 1):
                    want = ns[(by_letter[letter] + step) % 7]
                    got = fn(note, k)
                    check(got == want, "%s(%r, %r) == %r, want %r" % (fn.__name__, note, k, got, want))
                    got = intervals.interval(k, note, step)
                    check(got == want, "interval(%r, %r, %d) == %r" % (k, note, step, got))
        check(fns[0](note="E", key=k) == ns[(by_letter["E"] + 1) % 7], "second by keyword in %r" % k)
        check(keys.get_notes(k) == ns, "get_notes(%r) stable after interval calls" % k)


try:
    run_once()
    run_once()  # a second pass in the same process (any remembered state must not matter)
except Exception as e:
    import traceback

    traceback.print_exc()
    print("FAIL: unexpected exception %r" % (e,))
    sys.exit(1)

if failures:
    print("FAIL: %d of %d checks" % (len(failures), checked[0]))
    for f in failures[:20]:
        print("  " + f)
    sys.exit(1)
print("OK: %d checks" % checked[0])
sys.exit(0)
