import mingus, os; assert os.path.realpath(mingus.__file__).startswith(os.path.realpath(os.path.dirname(__file__)))
"""Direct check of property C08 (diatonic harmony: functions, numerals, substitutions)
through the public API.  Exit 0 if it holds, 1 with a message otherwise."""
import sys

from mingus.core import chords, keys, notes
from mingus.core import progressions as P

FAILS = []
COUNT = [0]


def check(cond, msg):
    COUNT[0] += 1
    if not cond:
        FAILS.append(msg)
        if len(FAILS) > 25:
            finish()


def finish():
    if FAILS:
        print("C08 VIOLATED (%d checks run, %d failures):" % (COUNT[0], len(FAILS)))
        for f in FAILS[:25]:
            print("  -", f)
        sys.exit(1)
    print("C08 holds on %d checks" % COUNT[0])
    sys.exit(0)


LETTERS = "CDEFGAB"
NAMES = ["tonic", "supertonic", "mediant", "subdominant", "dominant", "submediant", "subtonic"]
UPPER = ["I", "II", "III", "IV", "V", "VI", "VII"]
LOWER = {1: "ii", 2: "iii", 5: "vi", 6: "vii"}
DET_NUM = ["I", "ii", "iii", "IV", "V", "vi", "vii"]
MAJOR_STEPS = [0, 2, 4, 5, 7, 9, 11]
MINOR_STEPS = [0, 2, 3, 5, 7, 8, 10]
MAJOR_KEYS = list(keys.major_keys)
MINOR_KEYS = list(keys.minor_keys)
ALL_KEYS = MAJOR_KEYS + MINOR_KEYS
SUFFIXES = sorted(chords.chord_shorthand.keys())


def accval(note):
    return note.count("#") - note.count("b")


def prefix(acc):
    return "b" * -acc if acc < 0 else "#" * acc


def semis(a, b):
    return (notes.note_to_int(b) - notes.note_to_int(a)) % 12


def letters_up(a, b):
    return (LETTERS.index(b[0]) - LETTERS.index(a[0])) % 7


# ---------------------------------------------------------------- 1. keys and stacks of thirds
check(len(ALL_KEYS) == 30 and len(set(ALL_KEYS)) == 30, "expected 30 distinct keys")
for key in ALL_KEYS:
    ns = keys.get_notes(key)
    steps = MAJOR_STEPS if key[0].isupper() else MINOR_STEPS
    tonic = key[0].upper() + key[1:]
    check(len(ns) == 7 and ns[0] == tonic, "get_notes(%r) does not start on the tonic: %r" % (key, ns))
    check(
        [letters_up(ns[0], n) for n in ns] == list(range(7)) and [semis(ns[0], n) for n in ns] == steps,
        "get_notes(%r) is not the key's scale: %r" % (key, ns),
    )
    tri = chords.triads(key)
    sev = chords.sevenths(key)
    check(len(tri) == 7 and len(sev) == 7, "triads/sevenths of %r: wrong count" % key)
    for d in range(7):
        et = [ns[d], ns[(d + 2) % 7], ns[(d + 4) % 7]]
        es = et + [ns[(d + 6) % 7]]
        check(tri[d] == et, "triads(%r)[%d] = %r, expected %r" % (key, d, tri[d], et))
        check(sev[d] == es, "sevenths(%r)[%d] = %r, expected %r" % (key, d, sev[d], es))
        check(all(n in ns for n in sev[d]), "seventh outside the key %r: %r" % (key, sev[d]))
        # function names
        check(getattr(chords, NAMES[d])(key) == et, "%s(%r) != %r" % (NAMES[d], key, et))
        check(getattr(chords, NAMES[d] + "7")(key) == es, "%s7(%r) != %r" % (NAMES[d], key, es))
        # numeral aliases, progression strings (both cases where a lower-case alias exists)
        spellings = [UPPER[d]] + ([LOWER[d]] if d in LOWER else [])
        for sp in spellings:
            check(getattr(chords, sp)(key) == et, "chords.%s(%r) != %r" % (sp, key, et))
            check(getattr(chords, sp + "7")(key) == es, "chords.%s7(%r) != %r" % (sp, key, es))
        for sp in [UPPER[d], UPPER[d].lower()]:
            check(P.to_chords(sp, key) == [et], "to_chords(%r, %r) != [%r]" % (sp, key, et))
            check(P.to_chords([sp + "7"], key) == [es], "to_chords([%r], %r) != [%r]" % (sp + "7", key, es))
        # accidental prefixes
        for acc in range(-3, 4):
            for sp, base in ((UPPER[d], et), (UPPER[d].lower() + "7", es)):
                s = prefix(acc) + sp
                got = P.to_chords(s, key)
                ok = (
                    len(got) == 1
                    and len(got[0]) == len(base)
                    and all(g[0] == b[0] and accval(g) == accval(b) + acc for g, b in zip(got[0], base))
                )
                check(ok, "to_chords(%r, %r) = %r: not %r shifted by %d" % (s, key, got, base, acc))
    # results are independent objects
    a = chords.tonic(key)
    a.append("X")
    a[0] = "Y"
    check(chords.tonic(key) == [ns[0], ns[2], ns[4]], "tonic(%r) was corrupted by mutating a result" % key)

# ---------------------------------------------------------------- 2. chord suffixes
SHAPES = {
    "M": [0, 4, 7], "m": [0, 3, 7], "dim": [0, 3, 6], "aug": [0, 4, 8], "m7": [0, 3, 7, 10],
    "M7": [0, 4, 7, 11], "dom7": [0, 4, 7, 10], "dim7": [0, 3, 6, 9], "m7b5": [0, 3, 6, 10],
    "sus4": [0, 5, 7], "6": [0, 4, 7, 9], "9": [0, 4, 7, 10, 2],
}
for key in ALL_KEYS:
    ns = keys.get_notes(key)
    for d in range(7):
        root = ns[d]
        for suf in SUFFIXES:
            if suf in ("", "7"):
                continue
            want = chords.chord_shorthand[suf](root)
            for sp in (UPPER[d], UPPER[d].lower()):
                got = P.to_chords(sp + suf, key)
                check(got == [want], "to_chords(%r, %r) = %r, expected [%r]" % (sp + suf, key, got, want))
            if suf in SHAPES:
                check(
                    want[0] == root and [semis(root, n) for n in want] == SHAPES[suf],
                    "%r chord on %r has wrong shape: %r" % (suf, root, want),
                )
            check(chords.from_shorthand(root + suf) == want, "from_shorthand(%r) != %r" % (root + suf, want))
        # suffix plus prefix
        for acc in (-3, -1, 2, 3):
            for suf in ("m7", "dim7", "dom7", "M", "sus4", "7b9"):
                base = chords.chord_shorthand[suf](root)
                s = prefix(acc) + UPPER[d] + suf
                got = P.to_chords([s], key)
                ok = len(got) == 1 and len(got[0]) == len(base) and all(
                    g[0] == b[0] and accval(g) == accval(b) + acc for g, b in zip(got[0], base)
                )
                check(ok, "to_chords([%r], %r) = %r: not %r shifted by %d" % (s, key, got, base, acc))

# ---------------------------------------------------------------- 3. unrecognised numerals, argument forms
for bad in ("X", "VIII", "IIII", "IVI", "", "m7", "H7"):
    check(P.to_chords(bad, "C") == [], "to_chords(%r) should be []" % bad)
    check(P.to_chords(["I", bad, "V"], "G") == [], "to_chords(['I', %r, 'V']) should be []" % bad)
check(P.to_chords(["I", "V7"]) == [["C", "E", "G"], ["G", "B", "D", "F"]], "default key C")
check(P.to_chords(("ii", "V7", "I"), "G") == [["A", "C", "E"], ["D", "F#", "A", "C"], ["G", "B", "D"]], "tuple progression")
check(P.to_chords(iter(["ii", "V7", "I"]), key="G") == [["A", "C", "E"], ["D", "F#", "A", "C"], ["G", "B", "D"]], "iterator")
check(P.to_chords(progression=["bVIIdim7"], key="G") == [["F", "Ab", "Cb", "Ebb"]], "keyword arguments")
long_prog = ["I", "vi", "ii7", "V7"] * 250
check(P.to_chords(long_prog, "Eb") == [["Eb", "G", "Bb"], ["C", "Eb", "G"], ["F", "Ab", "C", "Eb"], ["Bb", "D", "F", "Ab"]] * 250, "long progression")
check(long_prog == ["I", "vi", "ii7", "V7"] * 250, "to_chords changed its argument")
check(chords.dominant7(key="F#") == ["C#", "E#", "G#", "B"], "dominant7(key=...)")

# ---------------------------------------------------------------- 4. chord -> function, inverse
for key in MAJOR_KEYS:
    tri = chords.triads(key)
    sev = chords.sevenths(key)
    for d in range(7):
        for chord, name, num in ((tri[d], NAMES[d], DET_NUM[d]), (sev[d], NAMES[d] + " seventh", DET_NUM[d] + "7")):
            arg = list(chord)
            long_ = P.determine(arg, key)
            short = P.determine(arg, key, True)
            check(arg == chord, "determine changed its argument")
            check(name in long_, "determine(%r, %r) = %r lacks %r" % (chord, key, long_, name))
            check(num in short, "determine(%r, %r, True) = %r lacks %r" % (chord, key, short, num))
            check(P.to_chords(num, key) == [chord], "to_chords(%r, %r) != [%r]" % (num, key, chord))
            if num in short:
                check(P.determine(P.to_chords(num, key)[0], key, shorthand=True) == short, "round trip %r in %r" % (num, key))
    got = P.determine([list(c) for c in tri], key, True)
    check(
        len(got) == 7 and all(DET_NUM[d] in got[d] for d in range(7)),
        "determine(list of triads, %r, True) = %r" % (key, got),
    )

# ---------------------------------------------------------------- 5. parse / format
for r in UPPER:
    for acc in range(-3, 4):
        for suf in SUFFIXES + ["7"]:
            s = prefix(acc) + r + suf
            t = P.parse_string(s)
            check(t == (r, acc, suf), "parse_string(%r) = %r" % (s, t))
            check(P.tuple_to_string(t) == s, "tuple_to_string(parse_string(%r)) = %r" % (s, P.tuple_to_string(t)))
            tl = P.parse_string(prefix(acc) + r.lower() + suf)
            check(tl == (r, acc, suf), "parse_string(%r) = %r" % (prefix(acc) + r.lower() + suf, tl))
check(P.parse_string("#b#Im/M7") == ("I", 1, "m/M7"), "mixed prefix")


# ---------------------------------------------------------------- 6. substitutions
def well_formed(item):
    if not isinstance(item, str):
        return False
    r, a, s = P.parse_string(item)
    # prefix of accidentals, a numeral, a known chord suffix; the canonical spelling parses to the same thing
    return (
        r in UPPER
        and (s in chords.chord_shorthand or s == "7")
        and item.endswith(r + s)
        and set(item[: len(item) - len(r + s)]) <= set("b#")
        and P.parse_string(P.tuple_to_string((r, a, s))) == (r, a, s)
    )


def root_of(numeral, key):
    r, a, _ = P.parse_string(numeral)
    got = P.to_chords(prefix(a) + r, key)
    return got[0]


RULES = [
    P.substitute_harmonic,
    P.substitute_minor_for_major,
    P.substitute_major_for_minor,
    P.substitute_diminished_for_diminished,
    P.substitute_diminished_for_dominant,
]
SUB_SUFFIXES = SUFFIXES + ["7"]
for r in UPPER:
    for suf in SUB_SUFFIXES:
        for acc in range(-3, 4):
            s = prefix(acc) + r + suf
            prog = ["IV", s, "V7"]
            keep = list(prog)
            results = {}
            for f in RULES:
                for ign in (False, True):
                    res = f(prog, 1, ign)
                    check(prog == keep, "%s changed the caller's progression" % f.__name__)
                    check(isinstance(res, list) and all(well_formed(x) for x in res), "%s(%r, ign=%r) = %r not well formed" % (f.__name__, s, ign, res))
                    results[(f.__name__, ign)] = res
            check(P.substitute_harmonic(tuple(prog), -2, ignore_suffix=True) == results[("substitute_harmonic", True)], "tuple / negative index / keyword")
            # the keys in which the promises are checked: a rotating handful, all 15 over the run
            ks = MAJOR_KEYS if (suf in ("", "7", "m", "M", "m7", "M7", "dim", "dim7") and acc in (0, -1, 1)) else [MAJOR_KEYS[(UPPER.index(r) * 7 + acc + len(suf)) % 15]]
            for key in ks:
                orig = root_of(s, key)
                for ign in (False, True):
                    for x in results[("substitute_harmonic", ign)]:
                        sub = root_of(x, key)
                        check(len(set(orig) & set(sub)) == 2, "harmonic substitute %r of %r in %r shares %r" % (x, s, key, set(orig) & set(sub)))
                    for x in results[("substitute_minor_for_major", ign)]:
                        sub = root_of(x, key)
                        check(semis(orig[0], sub[0]) == 3 and letters_up(orig[0], sub[0]) == 2, "minor-for-major %r of %r in %r: roots %r %r" % (x, s, key, orig[0], sub[0]))
                    for x in results[("substitute_major_for_minor", ign)]:
                        sub = root_of(x, key)
                        check(semis(orig[0], sub[0]) == 9 and letters_up(orig[0], sub[0]) == 5, "major-for-minor %r of %r in %r: roots %r %r" % (x, s, key, orig[0], sub[0]))
                    last = orig
                    for x in results[("substitute_diminished_for_diminished", ign)]:
                        sub = root_of(x, key)
                        check(semis(last[0], sub[0]) == 3 and letters_up(last[0], sub[0]) == 2, "diminished cycle %r of %r in %r" % (x, s, key))
                        if not ign:
                            check(P.parse_string(x)[2] in ("dim", "dim7"), "diminished substitute %r is not diminished" % x)
                        last = sub
                    for f in RULES:
                        for x in results[(f.__name__, ign)]:
                            c = P.to_chords(x, key)
                            check(len(c) == 1 and len(c[0]) >= 2, "substitute %r denotes no chord in %r" % (x, key))
            # which inputs get an answer at all
            check(bool(results[("substitute_minor_for_major", False)]) == (suf in ("m", "m7") or (suf == "" and r in ("II", "III", "VI"))), "minor_for_major applicability for %r" % s)
            check(bool(results[("substitute_major_for_minor", False)]) == (suf in ("M", "M7") or (suf == "" and r in ("I", "IV", "V"))), "major_for_minor applicability for %r" % s)
            check(bool(results[("substitute_diminished_for_diminished", False)]) == (suf in ("dim", "dim7") or (suf == "" and r == "VII")), "dim_for_dim applicability for %r" % s)
            # the general rule, depth 0..2
            prev = None
            for depth in (0, 1, 2):
                if depth == 2 and not (acc in (0, 1, -2) and suf in ("", "7", "m", "M7", "dim7", "dim", "sus4")):
                    continue
                res = P.substitute(prog, 1, depth)
                check(prog == keep, "substitute(depth=%d) changed the caller's progression" % depth)
                check(isinstance(res, list) and all(well_formed(x) for x in res), "substitute(%r, depth=%d) not well formed: %r" % (s, depth, res[:8]))
                if prev is not None:
                    pool = list(res)
                    missing = [x for x in prev if x not in pool or pool.remove(x)]
                    check(not missing, "substitute(%r, depth=%d) lost shallower results %r" % (s, depth, missing))
                prev = res
            check(P.substitute(prog, 1) == P.substitute(prog, 1, 0) == P.substitute(progression=prog, substitute_index=1, depth=0), "default depth")

check(P.substitute(["I", "IV", "V", "I"], 0) == ["III", "III7", "VI", "VI7", "I7"], "documented substitute example")
check(P.substitute_minor_for_major(["VI"], 0) == ["I"], "doc example VI")
check(P.substitute_minor_for_major(["Vm"], 0) == ["bVIIM"], "doc example Vm")
check(P.substitute_minor_for_major(["VIm7"], 0) == ["IM7"], "doc example VIm7")
check(P.substitute_major_for_minor(["I"], 0) == ["VI"], "doc example I")
check(P.substitute_major_for_minor(["VM7"], 0) == ["IIIm7"], "doc example VM7")
d4d = P.substitute_diminished_for_diminished(["VII"], 0)
check(sorted(d4d) == sorted(["IIdim", "IVdim", "bVIdim"]), "VII cycles through IIdim, IVdim, bVIdim: %r" % d4d)
same = ["V7"]
shared = [same[0]] * 3
P.substitute(shared, 0, 2)
P.substitute(shared, 2, 1)
check(shared == ["V7", "V7", "V7"], "progression reused several times")

finish()
