import mingus, os; assert os.path.realpath(mingus.__file__).startswith(os.path.realpath(os.path.dirname(__file__)))
import sys
import itertools

from mingus.core import intervals, notes

LETTERS = "CDEFGAB"
BASE = {"C": 0, "D": 2, "E": 4, "F": 5, "G": 7, "A": 9, "B": 11}

# (constructor name, interval number, semitones)
CONSTRUCTORS = [
    ("minor_unison", 1, 11),
    ("major_unison", 1, 0),
    ("augmented_unison", 1, 1),
    ("minor_second", 2, 1),
    ("major_second", 2, 2),
    ("minor_third", 3, 3),
    ("major_third", 3, 4),
    ("minor_fourth", 4, 4),
    ("major_fourth", 4, 5),
    ("perfect_fourth", 4, 5),
    ("minor_fifth", 5, 6),
    ("major_fifth", 5, 7),
    ("perfect_fifth", 5, 7),
    ("minor_sixth", 6, 8),
    ("major_sixth", 6, 9),
    ("minor_seventh", 7, 10),
    ("major_seventh", 7, 11),
]

failures = []


def fail(msg):
    failures.append(msg)
    if len(failures) <= 20:
        print("FAIL: " + msg)


def pc(name):
    """Independent pitch class of a valid name."""
    return (BASE[name[0]] + name.count("#") - name.count("b")) % 12


def accidental_strings():
    out = [""]
    for n in (1, 2, 3):
        for combo in itertools.product("#b", repeat=n):
            out.append("".join(combo))
    # longer ones: pure, and mixed
    out += ["#" * k for k in (4, 5, 6, 7, 8, 11, 12, 13, 19)]
    out += ["b" * k for k in (4, 5, 6, 7, 8, 11, 12, 13, 19)]
    out += ["#b#b#b#", "bbbb###", "####bb", "b######", "#bbbbbbb", "b###b#"]
    return out


NAMES = [l + a for l in LETTERS for a in accidental_strings()]

# ---- part 1: constructors --------------------------------------------------
n_cases = 0
for cname, number, semis in CONSTRUCTORS:
    fn = getattr(intervals, cname)
    for name in NAMES:
        n_cases += 1
        try:
            res = fn(name)
        except Exception as e:  # noqa
            fail("%s(%r) raised %r" % (cname, name, e))
            continue
        if not isinstance(res, str) or not res:
            fail("%s(%r) returned %r" % (cname, name, res))
            continue
        want_letter = LETTERS[(LETTERS.index(name[0]) + number - 1) % 7]
        if res[0] != want_letter:
            fail("%s(%r) = %r: letter should be %s" % (cname, name, res, want_letter))
        acc = res[1:]
        if acc.strip("#") and acc.strip("b"):
            fail("%s(%r) = %r: invalid or mixed accidentals" % (cname, name, res))
            continue
        if len(acc) > 6:
            fail("%s(%r) = %r: more than six accidentals" % (cname, name, res))
        if not notes.is_valid_note(res):
            fail("%s(%r) = %r: not a valid note" % (cname, name, res))
        if (pc(res) - pc(name)) % 12 != semis:
            fail("%s(%r) = %r: expected %d semitones, got %d"
                 % (cname, name, res, semis, (pc(res) - pc(name)) % 12))
        # the library's own measure must agree too
        if intervals.measure(name, res) != semis:
            fail("measure(%r, %r) = %r, expected %d"
                 % (name, res, intervals.measure(name, res), semis))

# ---- part 2: measure and consonance on ordered pairs -----------------------
PAIR_NAMES = [l + a for l in LETTERS
              for a in ("", "#", "b", "##", "bb", "#b", "b#", "###", "bbbbbbb", "######", "b#b#b")]
n_pairs = 0
for n1 in PAIR_NAMES:
    for n2 in PAIR_NAMES:
        n_pairs += 1
        want = (pc(n2) - pc(n1)) % 12
        m = intervals.measure(n1, n2)
        if m != want:
            fail("measure(%r, %r) = %r, expected %d" % (n1, n2, m, want))
            continue
        if (notes.note_to_int(n2) - notes.note_to_int(n1)) % 12 != want:
            fail("note_to_int difference wrong for %r, %r" % (n1, n2))
        perfect_with4 = want in (0, 5, 7)
        perfect_no4 = want in (0, 7)
        imperfect = want in (3, 4, 8, 9)
        checks = [
            ("is_perfect_consonant default", intervals.is_perfect_consonant(n1, n2), perfect_with4),
            ("is_perfect_consonant True", intervals.is_perfect_consonant(n1, n2, True), perfect_with4),
            ("is_perfect_consonant False", intervals.is_perfect_consonant(n1, n2, False), perfect_no4),
            ("is_imperfect_consonant", intervals.is_imperfect_consonant(n1, n2), imperfect),
            ("is_consonant default", intervals.is_consonant(n1, n2), perfect_with4 or imperfect),
            ("is_consonant True", intervals.is_consonant(n1, n2, True), perfect_with4 or imperfect),
            ("is_consonant False", intervals.is_consonant(n1, n2, False), perfect_no4 or imperfect),
            ("is_dissonant default", intervals.is_dissonant(n1, n2),
             not intervals.is_consonant(n1, n2, True)),
            ("is_dissonant False", intervals.is_dissonant(n1, n2, False),
             not (perfect_with4 or imperfect)),
            ("is_dissonant True", intervals.is_dissonant(n1, n2, True),
             not (perfect_no4 or imperfect)),
        ]
        for label, got, exp in checks:
            if bool(got) != exp:
                fail("%s(%r, %r) = %r, expected %r (measure %d)" % (label, n1, n2, got, exp, want))

if failures:
    print("%d failure(s) in %d constructor cases and %d pairs" % (len(failures), n_cases, n_pairs))
    sys.exit(1)
print("OK: %d constructor cases, %d ordered pairs" % (n_cases, n_pairs))
sys.exit(0)
