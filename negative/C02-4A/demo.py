import mingus, os; assert os.path.realpath(mingus.__file__).startswith(os.path.realpath(os.path.dirname(__file__)))
import itertools
import sys

from mingus.core import intervals, notes

PC = {"C": 0, "D": 2, "E": 4, "F": 5, "G": 7, "A": 9, "B": 11}
LETTERS = "CDEFGAB"

# constructor name -> (letters up, semitones up)
CONSTRUCTORS = {
    "minor_unison": (0, 11),
    "major_unison": (0, 0),
    "augmented_unison": (0, 1),
    "minor_second": (1, 1),
    "major_second": (1, 2),
    "minor_third": (2, 3),
    "major_third": (2, 4),
    "minor_fourth": (3, 4),
    "major_fourth": (3, 5),
    "perfect_fourth": (3, 5),
    "minor_fifth": (4, 6),
    "major_fifth": (4, 7),
    "perfect_fifth": (4, 7),
    "minor_sixth": (5, 8),
    "major_sixth": (5, 9),
    "minor_seventh": (6, 10),
    "major_seventh": (6, 11),
}

failures = []


def fail(msg):
    failures.append(msg)
    if len(failures) > 20:
        report()


def report():
    for f in failures:
        print("PROPERTY VIOLATED: " + f)
    sys.exit(1)


def pc(name):
    return (PC[name[0]] + name.count("#") - name.count("b")) % 12


def names():
    out = []
    for letter in LETTERS:
        for n in range(0, 4):
            for acc in itertools.product("#b", repeat=n):
                out.append(letter + "".join(acc))
    # longer and unusual but valid spellings
    for letter in LETTERS:
        for k in (4, 5, 6, 7, 11, 12, 13, 25):
            out.append(letter + "#" * k)
            out.append(letter + "b" * k)
        out.append(letter + "#b" * 9)
        out.append(letter + "b#b" * 5)
        out.append(letter + "#" * 5 + "b" * 11)
    out.append("C" + "#" * 3000)
    out.append("B" + "b" * 3001)
    out.append("F" + "#b" * 2000 + "b")
    return out


ALL = names()
assert len(set(ALL)) == len(ALL)


def check_constructors(rounds=2):
    count = 0
    for _ in range(rounds):  # second round: same inputs again in the same process
        for cname, (steps, semis) in CONSTRUCTORS.items():
            fn = getattr(intervals, cname)
            for name in ALL:
                before = str(name)
                try:
                    res = fn(name)
                except Exception as e:  # noqa
                    fail("%s(%r) raised %r" % (cname, name[:40], e))
                    continue
                count += 1
                short = name[:30]
                if name != before:
                    fail("%s changed its input" % cname)
                if not isinstance(res, str) or not res:
                    fail("%s(%r) returned %r" % (cname, short, res))
                    continue
                if not notes.is_valid_note(res) or res[0] not in PC or set(res[1:]) - set("#b"):
                    fail("%s(%r) = %r is not a valid name" % (cname, short, res))
                    continue
                want_letter = LETTERS[(LETTERS.index(name[0]) + steps) % 7]
                if res[0] != want_letter:
                    fail("%s(%r) = %r, expected letter %s" % (cname, short, res, want_letter))
                if (pc(res) - pc(name)) % 12 != semis:
                    fail("%s(%r) = %r is not %d semitones up" % (cname, short, res, semis))
                if "#" in res and "b" in res:
                    fail("%s(%r) = %r mixes sharps and flats" % (cname, short, res))
                if len(res) - 1 > 6:
                    fail("%s(%r) = %r has more than six accidentals" % (cname, short, res))
    return count


def check_measure():
    count = 0
    sample = [n for n in ALL if len(n) <= 3] + [n for n in ALL if len(n) > 3][::5]
    for a in sample:
        for b in sample:
            want = (pc(b) - pc(a)) % 12
            m = intervals.measure(a, b)
            count += 1
            if m != want or isinstance(m, bool):
                fail("measure(%r, %r) = %r, expected %d" % (a[:30], b[:30], m, want))
                continue
            perfect_with = want in (0, 5, 7)
            perfect_without = want in (0, 7)
            imperfect = want in (3, 4, 8, 9)
            checks = [
                ("is_perfect_consonant", intervals.is_perfect_consonant(a, b), perfect_with),
                ("is_perfect_consonant/T", intervals.is_perfect_consonant(a, b, True), perfect_with),
                ("is_perfect_consonant/F", intervals.is_perfect_consonant(a, b, False), perfect_without),
                (
                    "is_perfect_consonant/kwF",
                    intervals.is_perfect_consonant(note1=a, note2=b, include_fourths=False),
                    perfect_without,
                ),
                ("is_imperfect_consonant", intervals.is_imperfect_consonant(a, b), imperfect),
                ("is_consonant", intervals.is_consonant(a, b), perfect_with or imperfect),
                ("is_consonant/F", intervals.is_consonant(a, b, False), perfect_without or imperfect),
                (
                    "is_consonant/kwT",
                    intervals.is_consonant(note1=a, note2=b, include_fourths=True),
                    perfect_with or imperfect,
                ),
                ("is_dissonant", intervals.is_dissonant(a, b), not (perfect_with or imperfect)),
                (
                    "is_dissonant/T",
                    intervals.is_dissonant(a, b, True),
                    not (perfect_without or imperfect),
                ),
                (
                    "is_dissonant/kwF",
                    intervals.is_dissonant(note1=a, note2=b, include_fourths=False),
                    not (perfect_with or imperfect),
                ),
            ]
            for label, got, expected in checks:
                if bool(got) != expected:
                    fail("%s(%r, %r) = %r, expected %r" % (label, a[:30], b[:30], got, expected))
    return count


def check_note_to_int():
    # the pitch class the measure is defined on
    for name in ALL:
        v = notes.note_to_int(name)
        if v != pc(name) or isinstance(v, bool):
            fail("note_to_int(%r) = %r, expected %d" % (name[:30], v, pc(name)))


def main():
    c1 = check_constructors()
    check_note_to_int()
    c2 = check_measure()
    # keyword form of the constructors
    for cname, (steps, semis) in CONSTRUCTORS.items():
        r = getattr(intervals, cname)(note="Gb")
        if r[0] != LETTERS[(4 + steps) % 7] or (pc(r) - 6) % 12 != semis:
            fail("%s(note='Gb') = %r" % (cname, r))
    # refused inputs in between must not disturb later valid calls
    for bad in ("H", "c", "C%", "C{", "C\n", "Ç#", "Cx"):
        for cname in ("major_third", "minor_unison", "perfect_fifth"):
            try:
                getattr(intervals, cname)(bad)
            except Exception:
                pass
        try:
            intervals.measure(bad, "C")
        except Exception:
            pass
        try:
            intervals.measure("C", bad)
        except Exception:
            pass
    c3 = check_constructors(rounds=1)
    if failures:
        report()
    print("ok: %d constructor cases, %d ordered pairs" % (c1 + c3, c2))
    sys.exit(0)


main()
