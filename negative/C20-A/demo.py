import mingus, os; assert os.path.realpath(mingus.__file__).startswith(os.path.realpath(os.path.dirname(__file__)))
"""Direct check of property C20 (tunings and tablature) through the public API.

Exits 0 when the statement holds on all sampled inputs, 1 with a message
otherwise.
"""
import itertools
import random
import re
import sys

import mingus.extra.tunings as tunings
import mingus.extra.tablature as tablature
import mingus.core.notes as core_notes
from mingus.containers import Note, NoteContainer, Bar, Track, Composition
from mingus.core.mt_exceptions import RangeError, FingerError

rnd = random.Random(2020)
CASES = [0]


def fail(msg):
    print("C20 VIOLATED: %s" % msg)
    sys.exit(1)


def check(cond, msg):
    CASES[0] += 1
    if not cond:
        fail(msg)


def open_pitches(t):
    return [int(s[0]) if isinstance(s, list) else int(s) for s in t.tuning]


ALL = tunings.get_tunings()
check(len(ALL) >= 70, "expected about 76 registered tunings, got %d" % len(ALL))
check(len(set(id(t) for t in ALL)) == len(ALL), "get_tunings() returned duplicates")
PLAIN = [t for t in ALL if not any(isinstance(s, list) for s in t.tuning)]


# --------------------------------------------------------------------------
# 1. fret arithmetic
# --------------------------------------------------------------------------
def check_frets():
    for t in ALL:
        opens = open_pitches(t)
        for maxfret in (0, 1, 7, 12, 24, 36):
            for p in range(0, 128, 1 if maxfret == 24 else 5):
                for form in (Note().from_int(p), None):
                    if form is None:
                        if p % 7:
                            continue
                        n = Note().from_int(p)
                        form = "%s-%d" % (n.name, n.octave)
                    got = t.find_frets(form, maxfret)
                    exp = [p - o if 0 <= p - o <= maxfret else None for o in opens]
                    check(
                        isinstance(got, list) and got == exp,
                        "find_frets(%r,%d) on %s/%s = %r, expected %r"
                        % (form, maxfret, t.instrument, t.description, got, exp),
                    )
        # default maxfret is 24
        p = rnd.randrange(128)
        check(
            t.find_frets(Note().from_int(p))
            == [p - o if 0 <= p - o <= 24 else None for o in opens],
            "find_frets default maxfret on %s" % t.instrument,
        )
        # get_Note
        for s, o in enumerate(opens):
            for fret in (0, 1, 2, 5, 11, 12, 13, 23, 24):
                n = t.get_Note(s, fret)
                check(
                    isinstance(n, Note) and int(n) == o + fret,
                    "get_Note(%d,%d) on %s = %r, expected pitch %d"
                    % (s, fret, t.instrument, n, o + fret),
                )
            n = t.get_Note(s, 30, 36)
            check(int(n) == o + 30, "get_Note with maxfret=36 on %s" % t.instrument)
            for fret, mf in ((-1, 24), (25, 24), (13, 12), (100, 24), (1, 0)):
                try:
                    t.get_Note(s, fret, mf)
                except RangeError:
                    check(True, "")
                else:
                    fail("get_Note(%d,%d,%d) on %s did not raise RangeError" % (s, fret, mf, t.instrument))
        for s in (-1, -2, len(opens), len(opens) + 3):
            try:
                t.get_Note(s, 0)
            except RangeError:
                check(True, "")
            else:
                fail("get_Note(string=%d) on %s did not raise RangeError" % (s, t.instrument))


# --------------------------------------------------------------------------
# 2. lookup
# --------------------------------------------------------------------------
def courses(t):
    c = sum(len(s) if isinstance(s, list) else 1 for s in t.tuning)
    return float(c) / len(t.tuning)


def check_lookup():
    instruments = tunings.get_instruments()
    prefixes = set()
    for name in instruments:
        for k in (1, 2, 3, 5, len(name)):
            prefixes.add(name[:k])
    prefixes = sorted(prefixes)
    for pre in prefixes:
        for variant in (pre, pre.lower(), pre.upper()):
            for ns in (None, 3, 4, 5, 6):
                for nc in (None, 1, 2, 3):
                    got = tunings.get_tunings(variant, ns, nc)
                    for t in got:
                        ok = t.instrument.upper().startswith(variant.upper())
                        ok = ok and (ns is None or t.count_strings() == ns == len(t.tuning))
                        ok = ok and (nc is None or t.count_courses() == nc == courses(t))
                        ok = ok and any(t is u for u in ALL)
                        check(ok, "get_tunings(%r,%r,%r) returned %s/%s" % (variant, ns, nc, t.instrument, t.description))
    for ns in (None, 3, 4, 5, 6, 7):
        for nc in (None, 1, 2, 3, 1.5):
            for t in tunings.get_tunings(None, ns, nc):
                check(
                    (ns is None or len(t.tuning) == ns) and (nc is None or courses(t) == nc),
                    "get_tunings(None,%r,%r) returned %s" % (ns, nc, t.instrument),
                )
    for t in ALL:
        check(t.count_strings() == len(t.tuning), "count_strings")
        check(t.count_courses() == courses(t), "count_courses")
        for ipre in (t.instrument, t.instrument[:3].lower(), t.instrument[:1]):
            for dpre in ("", t.description[:4].upper(), t.description.lower(), "s"):
                for ns in (None, len(t.tuning), 4):
                    for nc in (None, courses(t), 1):
                        got = tunings.get_tuning(ipre, dpre, ns, nc)
                        if got is None:
                            continue
                        ok = got.instrument.upper().startswith(ipre.upper())
                        ok = ok and got.description.upper().startswith(dpre.upper())
                        ok = ok and (ns is None or len(got.tuning) == ns)
                        ok = ok and (nc is None or courses(got) == nc)
                        check(ok, "get_tuning(%r,%r,%r,%r) returned %s/%s" % (ipre, dpre, ns, nc, got.instrument, got.description))
    g = tunings.get_tuning("Guitar", "Standard", 6, 1)
    check(g is not None and open_pitches(g) == [28, 33, 38, 43, 47, 52], "standard guitar lookup")


# --------------------------------------------------------------------------
# 3. find_fingering against brute force
# --------------------------------------------------------------------------
def brute(t, pitches, max_distance, maxfret=24):
    opens = open_pitches(t)
    out = set()
    for strings in itertools.permutations(range(len(opens)), len(pitches)):
        frets = [p - opens[s] for p, s in zip(pitches, strings)]
        if any(f < 0 or f > maxfret for f in frets):
            continue
        fretted = [f for f in frets if f != 0]
        if fretted and not (max(fretted) - min(fretted) < max_distance):
            continue
        out.add(tuple(zip(strings, frets)))
    return out


def check_fingerings():
    for t in ALL:
        opens = open_pitches(t)
        lo, hi = min(opens), max(opens)
        for trial in range(4):
            k = rnd.randint(1, min(4, len(opens)))
            if trial == 3:
                k = min(len(opens) + 1, 5)  # more notes than strings is possible here
            pitches = [rnd.randint(max(0, lo - 2), min(127, hi + 14)) for _ in range(k)]
            if trial == 1:
                pitches = [rnd.choice(opens) + rnd.choice((0, 0, 2, 3)) for _ in range(k)]
            md = rnd.choice((4, 4, 4, 1, 2, 3, 6))
            notes = [Note().from_int(p) for p in pitches]
            if trial == 2:
                notes = ["%s-%d" % (n.name, n.octave) for n in notes]
            got = t.find_fingering(notes) if md == 4 else t.find_fingering(notes, md)
            exp = brute(t, pitches, md)
            what = "find_fingering(%r, %d) on %s/%s" % (pitches, md, t.instrument, t.description)
            check(isinstance(got, list), what + " is not a list")
            as_set = set(tuple((s, f) for (s, f) in fing) for fing in got)
            check(len(as_set) == len(got), what + " has duplicates")
            check(as_set == exp, what + " = %r, expected the set %r" % (got, sorted(exp)))
            totals = [sum(f for (_, f) in fing) for fing in got]
            check(totals == sorted(totals), what + " not ordered by total fret: %r" % totals)
            for fing in got:
                check(
                    [opens[s] + f for (s, f) in fing] == pitches,
                    what + ": %r does not sound the notes" % (fing,),
                )
        # NoteContainer input
        nc = NoteContainer([Note().from_int(rnd.choice(opens) + d) for d in (0, 4)])
        pitches = [int(n) for n in nc]
        got = t.find_fingering(nc)
        check(set(tuple(f) for f in got) == brute(t, pitches, 4), "find_fingering(NoteContainer) on %s" % t.instrument)
        check(t.find_fingering([]) == [], "find_fingering([])")


# --------------------------------------------------------------------------
# 4. chord fingerings
# --------------------------------------------------------------------------
def check_chords():
    guitars = [t for t in PLAIN if len(t.tuning) == 6 and "guitar" in t.instrument.lower()]
    check(len(guitars) >= 8, "guitar family tunings")
    shorthands = ["M", "m", "7", "m7", "M7", "sus4", "dim", "aug", "6", "m6", "9", "sus2", "7b5"]
    roots = ["C", "C#", "D", "Eb", "E", "F", "F#", "G", "Ab", "A", "Bb", "B"]
    combos = [(r, s) for r in roots for s in shorthands]
    rnd.shuffle(combos)
    for i, (root, sh) in enumerate(combos[:70]):
        t = guitars[i % len(guitars)]
        opens = open_pitches(t)
        chord = NoteContainer().from_chord(root + sh)
        pcs = set(core_notes.note_to_int(n.name) for n in chord)
        params = [(4, 18, 4), (3, 12, 4), (5, 15, 3)][i % 3]
        if params == (4, 18, 4):
            res = t.find_chord_fingering(chord)
        else:
            res = t.find_chord_fingering(chord, params[0], params[1], params[2])
        what = "find_chord_fingering(%s%s, %r) on %s/%s" % (root, sh, params, t.instrument, t.description)
        check(isinstance(res, list), what + " is not a list")
        for fing in res:
            ok = len(fing) == len(opens)
            ok = ok and all(f is None or (isinstance(f, int) and 0 <= f <= params[1]) for f in fing)
            check(ok, what + ": bad shape %r" % (fing,))
            sounded = set((opens[s] + f) % 12 for s, f in enumerate(fing) if f is not None)
            check(sounded <= pcs, what + ": %r sounds a foreign pitch class" % (fing,))
            check(sounded == pcs, what + ": %r does not cover the chord" % (fing,))
            fretted = [f for f in fing if f]
            check(not fretted or max(fretted) - min(fretted) < params[0], what + ": %r span" % (fing,))
            check(tunings.fingers_needed(fing) <= params[2], what + ": %r needs too many fingers" % (fing,))


# --------------------------------------------------------------------------
# 5. tablature
# --------------------------------------------------------------------------
def string_lines(text, nstrings):
    """Return the blocks of string lines found in an ASCII tab."""
    lines = text.split("\n")
    lines = [l[:-1] if l.endswith("\r") else l for l in lines]
    blocks = []
    cur = []
    for l in lines:
        is_string = re.match(r"^ \S+ *\|\|.*\|$", l) is not None and "*" not in l
        if is_string:
            cur.append(l)
        else:
            if cur:
                blocks.append(cur)
            cur = []
    if cur:
        blocks.append(cur)
    out = []
    for b in blocks:
        if len(b) % nstrings:
            fail("block of %d string lines for %d strings:\n%s" % (len(b), nstrings, text))
        for i in range(0, len(b), nstrings):
            out.append(b[i : i + nstrings])
    return out


def decode_block(block, opens):
    """Read a block of string lines (highest string first) column by column.

    Returns a list of bars, each a list of sorted pitch lists.
    """
    if len(set(len(l) for l in block)) != 1:
        fail("lines of unequal length:\n%s" % "\n".join(block))
    starts = set(l.find("||") for l in block)
    if len(starts) != 1:
        fail("string lines do not start together:\n%s" % "\n".join(block))
    start = starts.pop() + 2
    bodies = [l[start:] for l in reversed(block)]  # index = string number
    width = len(bodies[0])
    bars = []
    entries = []
    cur = None
    for col in range(width):
        chars = [b[col] for b in bodies]
        if all(c == "|" for c in chars):
            if cur is not None:
                entries.append(cur)
                cur = None
            bars.append(entries)
            entries = []
            continue
        if any(c == "|" for c in chars):
            fail("ragged bar line:\n%s" % "\n".join(block))
        if any(c.isdigit() for c in chars):
            if cur is None:
                cur = ["" for _ in bodies]
            for s, c in enumerate(chars):
                if c.isdigit():
                    cur[s] += c
        else:
            if cur is not None:
                entries.append(cur)
                cur = None
    decoded = []
    for entries in bars:
        decoded.append(
            [sorted(opens[s] + int(d) for s, d in enumerate(e) if d != "") for e in entries]
        )
    return decoded


def all_lines_equal(text):
    ls = [l for l in text.replace("\r", "").split("\n")]
    return len(set(len(l) for l in ls)) == 1


def random_entry(opens, k):
    """A playable set of k pitches: k distinct strings, frets within a small window."""
    base = rnd.choice((0, 0, 1, 3, 5, 7, 9, 10))
    strings = rnd.sample(range(len(opens)), k)
    ps = set()
    for s in strings:
        ps.add(opens[s] + rnd.choice((0, base, base + 1, base + 2)))
    return sorted(ps)


def random_bar(opens):
    b = Bar()
    expected = []
    while not b.is_full():
        dur = rnd.choice((2, 4, 4, 8, 8))
        roll = rnd.random()
        if roll < 0.15:
            if not b.place_rest(dur):
                break
            continue
        k = rnd.randint(1, min(3, len(opens)))
        ps = random_entry(opens, k)
        nc = NoteContainer([Note().from_int(p) for p in ps])
        if not b.place_notes(nc, dur):
            if not b.place_notes(nc, 8):
                break
        expected.append(sorted(int(n) for n in nc))
    return b, expected


def check_tabs():
    tab_tunings = [t for t in PLAIN]
    rnd.shuffle(tab_tunings)
    # single notes and containers
    for t in tab_tunings[:24]:
        opens = open_pitches(t)
        n = len(opens)
        for width in (rnd.randint(12, 30), 40, 80, rnd.randint(31, 120)):
            p = rnd.choice(opens) + rnd.randint(0, 24)
            text = tablature.from_Note(Note().from_int(p), width, t)
            blocks = string_lines(text, n)
            check(len(text.replace("\r", "").split("\n")) == n and len(blocks) == 1, "from_Note: one line per string\n" + text)
            check(all_lines_equal(text), "from_Note: unequal lines\n" + text)
            dec = decode_block(blocks[0], opens)
            check(dec == [[[p]]], "from_Note(%d,%d) on %s decodes to %r\n%s" % (p, width, t.instrument, dec, text))

            ps = random_entry(opens, rnd.randint(1, min(4, n)))
            nc = NoteContainer([Note().from_int(q) for q in ps])
            exp = sorted(int(q) for q in nc)
            arg = nc if rnd.random() < 0.5 else list(nc)
            text = tablature.from_NoteContainer(arg, width, t)
            blocks = string_lines(text, n)
            check(len(text.replace("\r", "").split("\n")) == n and len(blocks) == 1, "from_NoteContainer: one line per string\n" + text)
            check(all_lines_equal(text), "from_NoteContainer: unequal lines\n" + text)
            dec = decode_block(blocks[0], opens)
            check(dec == [[exp]], "from_NoteContainer(%r,%d) on %s decodes to %r\n%s" % (exp, width, t.instrument, dec, text))
        # impossible entries
        lowest = min(opens)
        if lowest > 0:
            try:
                tablature.from_Note(Note().from_int(lowest - 1), 40, t)
            except RangeError:
                check(True, "")
            else:
                fail("from_Note below the range did not raise RangeError")
            try:
                tablature.from_NoteContainer([Note().from_int(lowest - 1)], 40, t)
            except (FingerError, RangeError):
                check(True, "")
            else:
                fail("from_NoteContainer below the range did not raise")
        try:
            tablature.from_NoteContainer([Note().from_int(max(opens) + 25)], 40, t)
        except (FingerError, RangeError):
            check(True, "")
        else:
            fail("from_NoteContainer above the range did not raise")
        too_many = [Note().from_int(max(opens) + i) for i in range(n + 1)]
        try:
            tablature.from_NoteContainer(too_many, 40, t)
        except (FingerError, RangeError):
            check(True, "")
        else:
            fail("from_NoteContainer with more notes than strings did not raise")
        bad = Bar()
        bad.place_notes(NoteContainer(too_many), 4)
        try:
            tablature.from_Bar(bad, 40, t)
        except (FingerError, RangeError):
            check(True, "")
        else:
            fail("from_Bar with an unplayable entry did not raise")

    # bars
    for i in range(60):
        t = tab_tunings[i % len(tab_tunings)]
        opens = open_pitches(t)
        n = len(opens)
        bar, exp = random_bar(opens)
        width = rnd.choice((40, 45, 50, 60, 72, 80))
        text = tablature.from_Bar(bar, width, t)
        aslist = tablature.from_Bar(bar, width, t, collapse=False)
        check(isinstance(aslist, list) and "\n".join(aslist) == text.replace("\r", ""), "from_Bar collapse")
        check(all_lines_equal(text), "from_Bar: unequal lines\n" + text)
        blocks = string_lines(text, n)
        check(len(blocks) == 1 and len(aslist) == n + 1, "from_Bar: one line per string\n" + text)
        dec = decode_block(blocks[0], opens)
        check(dec == [exp], "from_Bar(width=%d) on %s decodes to %r, expected %r\n%s" % (width, t.instrument, dec, exp, text))

    # tracks
    for i in range(25):
        t = tab_tunings[(3 * i) % len(tab_tunings)] if i % 3 else None
        tun = t if t is not None else tablature.default_tuning
        opens = open_pitches(tun)
        n = len(opens)
        track = Track()
        exp = []
        for _ in range(rnd.randint(1, 5)):
            bar, e = random_bar(opens)
            track.add_bar(bar)
            exp.append(e)
        maxwidth = rnd.choice((60, 80, 90, 100, 120, 130, 160))
        if t is None:
            text = tablature.from_Track(track, maxwidth)
        elif i % 3 == 1:
            text = tablature.from_Track(track, maxwidth, t)
        else:
            track.tuning = t
            text = tablature.from_Track(track, maxwidth)
        dec = []
        for block in string_lines(text, n):
            dec += decode_block(block, opens)
        check(dec == exp, "from_Track(maxwidth=%d) on %s decodes to %r, expected %r\n%s" % (maxwidth, tun.instrument, dec, exp, text))

    # compositions
    for i in range(12):
        comp = Composition()
        comp.set_title("demo %d" % i)
        comp.set_author("nobody", "nobody@example.org")
        ntracks = rnd.randint(1, 3)
        nbars = rnd.randint(1, 4)
        per_track = []
        t = tab_tunings[i % len(tab_tunings)] if i % 2 else tablature.default_tuning
        opens = open_pitches(t)
        n = len(opens)
        for _ in range(ntracks):
            track = Track()
            if t is not tablature.default_tuning:
                track.tuning = t
            exp = []
            for _ in range(nbars):
                bar, e = random_bar(opens)
                track.add_bar(bar)
                exp.append(e)
            comp.add_track(track)
            per_track.append(exp)
        width = rnd.choice((60, 80, 100, 120, 150))
        text = tablature.from_Composition(comp, width)
        blocks = string_lines(text, n)
        # systems come track after track for each group of bars
        dec = [[] for _ in range(ntracks)]
        check(len(blocks) % ntracks == 0, "from_Composition: %d blocks for %d tracks\n%s" % (len(blocks), ntracks, text))
        for j, block in enumerate(blocks):
            dec[j % ntracks] += decode_block(block, opens)
        check(dec == per_track, "from_Composition(width=%d) decodes to %r, expected %r\n%s" % (width, dec, per_track, text))


check_frets()
check_lookup()
check_fingerings()
check_chords()
check_tabs()
print("C20 holds on %d checks" % CASES[0])
sys.exit(0)
