import mingus, os; assert os.path.realpath(mingus.__file__).startswith(os.path.realpath(os.path.dirname(__file__)))
"""Direct check of property C16: MIDI output is well-formed SMF that denotes
exactly the music written.  Exits 0 when it holds, 1 with a message otherwise.
"""
import random
import sys
import tempfile

from mingus.containers import Bar, Composition, Note, NoteContainer, Track
from mingus.containers.instrument import MidiInstrument
from mingus.core import keys as core_keys
from mingus.midi import midi_file_out
from mingus.midi.midi_track import MidiTrack

TMP = tempfile.mkdtemp(prefix="c16demo")
OUT = os.path.join(TMP, "out.mid")
CASES = [0]


class Bad(Exception):
    pass


def need(cond, msg):
    if not cond:
        raise Bad(msg)


# ---------------------------------------------------------------- SMF reader
def read_vlq(data, pos, end):
    value = 0
    for i in range(4):
        need(pos < end, "delta time runs past the chunk")
        b = data[pos]
        pos += 1
        value = (value << 7) | (b & 0x7F)
        if not b & 0x80:
            return value, pos
    raise Bad("variable length quantity longer than four bytes")


def parse_smf(data):
    """Independent reader. Return (format, division, [track events]) where an
    event is (tick, kind, payload)."""
    need(data[:4] == b"MThd", "no MThd")
    need(int.from_bytes(data[4:8], "big") == 6, "header length is not 6")
    fmt = int.from_bytes(data[8:10], "big")
    ntrks = int.from_bytes(data[10:12], "big")
    division = int.from_bytes(data[12:14], "big")
    pos = 14
    tracks = []
    while pos < len(data):
        need(data[pos : pos + 4] == b"MTrk", "chunk is not MTrk at %d" % pos)
        need(pos + 8 <= len(data), "truncated chunk header")
        length = int.from_bytes(data[pos + 4 : pos + 8], "big")
        pos += 8
        end = pos + length
        need(end <= len(data), "chunk length runs past the file")
        events = []
        tick = 0
        status = None
        ended = False
        while pos < end:
            need(not ended, "events after end of track")
            delta, pos = read_vlq(data, pos, end)
            tick += delta
            need(pos < end, "event missing")
            b = data[pos]
            if b == 0xFF:
                need(pos + 2 <= end, "truncated meta")
                mtype = data[pos + 1]
                need(mtype < 0x80, "meta type out of range")
                ln, p2 = read_vlq(data, pos + 2, end)
                need(p2 + ln <= end, "meta data runs past the chunk")
                payload = data[p2 : p2 + ln]
                pos = p2 + ln
                status = None
                events.append((tick, "meta", (mtype, bytes(payload))))
                if mtype == 0x2F:
                    need(ln == 0, "end of track with data")
                    ended = True
            elif b in (0xF0, 0xF7):
                ln, p2 = read_vlq(data, pos + 1, end)
                need(p2 + ln <= end, "sysex runs past the chunk")
                pos = p2 + ln
                status = None
                events.append((tick, "sysex", None))
            else:
                if b & 0x80:
                    need(b < 0xF0, "illegal status byte %02x" % b)
                    status = b
                    pos += 1
                else:
                    need(status is not None, "data byte without running status")
                kind = status >> 4
                n = 1 if kind in (0xC, 0xD) else 2
                need(pos + n <= end, "truncated channel event")
                params = tuple(data[pos : pos + n])
                need(all(p < 0x80 for p in params), "data byte with high bit set")
                pos += n
                events.append((tick, "chan", (kind, status & 0x0F) + params))
        need(pos == end, "chunk length does not match its content")
        need(ended, "chunk does not end in end of track")
        tracks.append(events)
    need(ntrks == len(tracks), "header declares %d tracks, %d follow" % (ntrks, len(tracks)))
    return fmt, division, tracks


# ---------------------------------------------------------- expected content
def ticks_of(value):
    return int(round(288 / value))


def sig_of(key):
    name = key.key if hasattr(key, "key") else key
    for i, (maj, mi) in enumerate(core_keys.keys):
        if name == maj:
            return (i - 7, 0)
        if name == mi:
            return (i - 7, 1)
    raise AssertionError(name)


class Expect(object):
    def __init__(self, bpm):
        self.bpm = bpm
        self.notes = []  # (on_tick, off_tick, channel, pitch, velocity)
        self.meters = []  # (tick, numer, denom)
        self.keys = []  # (tick, sf, mi)
        self.name = None
        self.program = None  # (channel, nr)
        self.tick = 0

    def add_bar(self, bar):
        self.meters.append((self.tick, bar.meter[0], bar.meter[1]))
        self.keys.append((self.tick,) + sig_of(bar.key))
        for _, value, cont in bar:
            t = ticks_of(value)
            if cont is not None:
                for n in cont:
                    self.notes.append((self.tick, self.tick + t, n.channel, int(n) + 12, n.velocity))
            self.tick += t

    def add_track(self, track):
        self.name = track.name
        if self.program is None and hasattr(track.instrument, "instrument_nr"):
            for bar in track:
                firsts = [c for _, _, c in bar if c is not None and len(c)]
                if firsts:
                    self.program = (firsts[0][0].channel, track.instrument.instrument_nr)
                    break
        for bar in track:
            self.add_bar(bar)

    def add_single(self, notes):
        for n in notes:
            self.notes.append((self.tick, self.tick + 72, n.channel, int(n) + 12, n.velocity))
        self.tick += 72


def check_track(events, exp):
    ons, offs, meters, keysigs, tempos, names, banks, programs = [], [], [], [], [], [], [], []
    sounding = set()
    for idx, (tick, kind, p) in enumerate(events):
        if kind == "chan":
            if p[0] == 0x9:
                ons.append((tick, p[1], p[2], p[3]))
                need((p[1], p[2]) not in sounding, "note %r overlaps itself" % (p,))
                sounding.add((p[1], p[2]))
            elif p[0] == 0x8:
                offs.append((tick, p[1], p[2], p[3]))
                need((p[1], p[2]) in sounding, "note off without note on %r" % (p,))
                sounding.discard((p[1], p[2]))
            elif p[0] == 0xB and p[2] == 0:
                banks.append((idx, tick, p[1]))
            elif p[0] == 0xC:
                programs.append((idx, tick, p[1], p[2]))
            else:
                raise Bad("unexpected channel event %r" % (p,))
        elif kind == "meta":
            mtype, payload = p
            if mtype == 0x51:
                need(len(payload) == 3, "tempo length")
                tempos.append((tick, int.from_bytes(payload, "big")))
            elif mtype == 0x03:
                names.append(payload)
            elif mtype == 0x58:
                need(len(payload) == 4, "time signature length")
                meters.append((tick, payload[0], 2 ** payload[1]))
            elif mtype == 0x59:
                need(len(payload) == 2, "key signature length")
                sf = payload[0] - 256 if payload[0] > 127 else payload[0]
                need(-7 <= sf <= 7 and payload[1] in (0, 1), "key signature values")
                keysigs.append((tick, sf, payload[1]))
            elif mtype == 0x2F:
                pass
            else:
                raise Bad("unexpected meta event %02x" % mtype)
        else:
            raise Bad("unexpected sysex")
    need(not sounding, "hanging notes %r" % sorted(sounding))
    want_on = sorted((a, c, p, v) for a, b, c, p, v in exp.notes)
    want_off = sorted((b, c, p, v) for a, b, c, p, v in exp.notes)
    need(sorted(ons) == want_on, "note ons differ:\n got %r\nwant %r" % (sorted(ons), want_on))
    need(sorted(offs) == want_off, "note offs differ:\n got %r\nwant %r" % (sorted(offs), want_off))
    need(tempos and tempos[0] == (0, 60000000 // exp.bpm), "tempo %r" % (tempos,))
    need(all(t[1] == 60000000 // exp.bpm for t in tempos), "tempo values %r" % (tempos,))
    need(meters == exp.meters, "time signatures %r want %r" % (meters, exp.meters))
    need(keysigs == exp.keys, "key signatures %r want %r" % (keysigs, exp.keys))
    if exp.name is not None:
        need(names and all(n == exp.name.encode("ascii") for n in names), "track name %r" % (names,))
    else:
        need(not names, "unexpected track name")
    if exp.program is not None:
        ch, nr = exp.program
        need(banks and programs, "bank select / program change missing")
        need(all(b[2] == ch for b in banks), "bank select channel %r want %d" % (banks, ch))
        need(all(p[2] == ch and p[3] == nr for p in programs), "program change %r" % (programs,))
        need(banks[0][0] < programs[0][0], "program change before bank select")
        first_on = min(a for a, b, c, p, v in exp.notes)
        need(programs[0][1] <= first_on, "program change after the first note")
    else:
        need(not banks and not programs, "unexpected instrument events")


def check_file(expects):
    with open(OUT, "rb") as f:
        data = f.read()
    fmt, division, tracks = parse_smf(data)
    need(fmt == 1, "format %d" % fmt)
    need(division == 72, "division %d" % division)
    need(len(tracks) == len(expects), "%d chunks for %d tracks" % (len(tracks), len(expects)))
    for ev, exp in zip(tracks, expects):
        check_track(ev, exp)
    CASES[0] += 1


# ------------------------------------------------------------------ builders
rnd = random.Random(1606)
ALL_KEYS = [k for pair in core_keys.keys for k in pair]
METERS = [(4, 4), (3, 4), (6, 8), (2, 2), (5, 4), (7, 8), (12, 8), (2, 4), (9, 8), (1, 1), (3, 2), (15, 16)]
VALUES = [1, 2, 4, 8, 16, 32, 64, 128, 3, 6, 12, 24, 5, 7, 9, 4 / 1.5, 8 / 1.5, 16 / 1.5, 2 / 1.5, 4 / 1.75, 96, 144, 288, 10, 20, 48]


def rnd_note(channel=None, velocity=None):
    n = Note()
    n.from_int(rnd.randrange(0, 116))
    n.channel = rnd.randrange(16) if channel is None else channel
    n.velocity = rnd.randrange(128) if velocity is None else velocity
    return n


def rnd_container(size=None, channel=None):
    size = size or rnd.choice([1, 1, 1, 2, 3, 4, 6])
    pitches = rnd.sample(range(0, 116), size)
    nc = NoteContainer()
    for p in pitches:
        n = Note()
        n.from_int(p)
        n.channel = rnd.randrange(16) if channel is None else channel
        n.velocity = rnd.randrange(128)
        nc.add_note(n)
    need(len(nc) == size, "builder: container size")
    return nc


def rnd_bar(key=None, meter=None, pattern=None, channel=None):
    bar = Bar(key or rnd.choice(ALL_KEYS), meter or rnd.choice(METERS))
    i = 0
    tries = 0
    while not bar.is_full() and tries < 40:
        tries += 1
        v = rnd.choice(VALUES)
        if pattern is None:
            rest = rnd.random() < 0.3
        else:
            rest = pattern(i)
        if rest:
            ok = bar.place_rest(v) if rnd.random() < 0.5 else bar.place_notes([], v)
        else:
            ok = bar.place_notes(rnd_container(channel=channel), v)
        if ok:
            i += 1
    return bar


def rnd_track(nbars=None, instrument=None, name=None):
    t = Track()
    if instrument is None and rnd.random() < 0.5:
        instrument = MidiInstrument()
        instrument.instrument_nr = rnd.randrange(128)
    t.instrument = instrument
    if name is not None or rnd.random() < 0.6:
        t.name = name or rnd.choice(["Piano", "Lead {0}", "100% bass", "a", "x" * 130, "Track Name Test", ""])
    shape = rnd.random()
    for b in range(nbars or rnd.randrange(1, 5)):
        if shape < 0.15:
            pat = lambda i: i == 0  # leading rest
        elif shape < 0.3:
            pat = lambda i: i % 2 == 1
        elif shape < 0.4:
            pat = lambda i: i >= 2  # trailing rests
        else:
            pat = None
        t.add_bar(rnd_bar(pattern=pat))
    if shape > 0.9:
        whole = Bar(rnd.choice(ALL_KEYS), (4, 4))
        whole.place_rest(1)
        t.bars.insert(rnd.randrange(len(t.bars) + 1), whole)
    return t


def expect_track(track, bpm, repeat):
    e = Expect(bpm)
    for _ in range(repeat + 1):
        e.add_track(track)
    return e


# --------------------------------------------------------------------- cases
def run():
    # single notes: every channel, a sweep of velocities and pitches, repeats
    for i in range(64):
        n = Note()
        n.from_int([0, 115, 48, 60][i % 4] if i < 8 else rnd.randrange(116))
        n.channel = i % 16
        n.velocity = [0, 127, 1, 64][i % 4] if i < 32 else rnd.randrange(128)
        bpm = rnd.choice([120, 60, 200, 7, 33, 240, 999])
        repeat = [0, 0, 1, 3][i % 4]
        e = Expect(bpm)
        for _ in range(repeat + 1):
            e.add_single([n])
        if i % 3 == 0:
            need(midi_file_out.write_Note(OUT, n, bpm, repeat) is True, "write_Note result")
        elif i % 3 == 1:
            need(midi_file_out.write_Note(file=OUT, note=n, bpm=bpm, repeat=repeat, verbose=False) is True, "result")
        else:
            need(midi_file_out.write_Note(OUT, n, bpm=bpm, repeat=repeat) is True, "write_Note result")
        check_file([e])

    # note containers
    for i in range(48):
        nc = rnd_container(size=[1, 2, 3, 5, 8, 12][i % 6])
        bpm = rnd.choice([120, 90, 180])
        repeat = [0, 2, 1][i % 3]
        e = Expect(bpm)
        for _ in range(repeat + 1):
            e.add_single(nc)
        if i % 2:
            midi_file_out.write_NoteContainer(OUT, nc, bpm, repeat)
        else:
            midi_file_out.write_NoteContainer(file=OUT, notecontainer=nc, bpm=bpm, repeat=repeat)
        check_file([e])

    # bars: all 30 keys, every meter, repeats, rests in every position
    patterns = [None, lambda i: i == 0, lambda i: i % 2 == 0, lambda i: i >= 1, lambda i: True, lambda i: False]
    for i, key in enumerate(ALL_KEYS * 2):
        bar = rnd_bar(key=key, meter=METERS[i % len(METERS)], pattern=patterns[i % len(patterns)])
        bpm = rnd.choice([120, 100, 150])
        repeat = [0, 1, 2, 0][i % 4]
        e = Expect(bpm)
        for _ in range(repeat + 1):
            e.add_bar(bar)
        if i % 2:
            midi_file_out.write_Bar(OUT, bar, bpm, repeat)
        else:
            midi_file_out.write_Bar(file=OUT, bar=bar, bpm=bpm, repeat=repeat)
        check_file([e])

    # each value on its own, with a rest before and after
    for v in VALUES:
        bar = Bar("C", (64, 4))
        bar.place_rest(v)
        bar.place_notes(rnd_container(), v)
        bar.place_notes(rnd_container(), v)
        bar.place_rest(v)
        e = Expect(120)
        e.add_bar(bar)
        e.add_bar(bar)
        midi_file_out.write_Bar(OUT, bar, repeat=1)
        check_file([e])

    # tracks
    for i in range(70):
        track = rnd_track()
        bpm = rnd.choice([120, 72, 144, 300])
        repeat = [0, 0, 1, 2][i % 4]
        if i % 2:
            midi_file_out.write_Track(OUT, track, bpm, repeat)
        else:
            midi_file_out.write_Track(file=OUT, track=track, bpm=bpm, repeat=repeat)
        check_file([expect_track(track, bpm, repeat)])

    # instruments: every channel for the first note, a rest first, mixed channels in the first chord
    for ch in range(16):
        track = Track()
        instr = MidiInstrument()
        instr.instrument_nr = (ch * 9) % 128
        track.instrument = instr
        track.name = "ch%d" % ch
        bar = Bar("Gb", (4, 4))
        if ch % 2:
            bar.place_rest(8)
        nc = rnd_container(size=3)
        nc[0].channel = ch
        nc[1].channel = (ch + 5) % 16
        bar.place_notes(nc, 4)
        bar.place_notes(rnd_container(), 4)
        bar.place_rest(4)
        track.add_bar(bar)
        track.add_bar(rnd_bar())
        midi_file_out.write_Track(OUT, track, 120, ch % 3)
        check_file([expect_track(track, 120, ch % 3)])

    # a track driven directly through MidiTrack
    for i in range(20):
        track = rnd_track()
        mt = MidiTrack(100)
        mt.play_Track(track)
        with open(OUT, "wb") as f:
            f.write(midi_file_out.MidiFile([mt]).get_midi_data())
        check_file([expect_track(track, 100, 0)])

    # compositions, some sharing a track or a bar between tracks
    for i in range(70):
        comp = Composition()
        tracks = [rnd_track() for _ in range(rnd.randrange(1, 5))]
        if i % 7 == 0 and len(tracks) < 4:
            tracks.append(tracks[0])
        if i % 5 == 0:
            tracks[-1].add_bar(tracks[0].bars[0])
        for t in tracks:
            comp.add_track(t)
        bpm = rnd.choice([120, 96, 132])
        repeat = [0, 1, 0, 2][i % 4]
        if i % 2:
            midi_file_out.write_Composition(OUT, comp, bpm, repeat)
        else:
            midi_file_out.write_Composition(file=OUT, composition=comp, bpm=bpm, repeat=repeat)
        check_file([expect_track(t, bpm, repeat) for t in tracks])

    # a long track
    long_track = Track()
    long_track.name = "long"
    for _ in range(300):
        long_track.add_bar(rnd_bar())
    midi_file_out.write_Track(OUT, long_track, 120, 1)
    check_file([expect_track(long_track, 120, 1)])

    # the variable length encoder
    def std(n):
        out = [n & 0x7F]
        n >>= 7
        while n:
            out.append((n & 0x7F) | 0x80)
            n >>= 7
        return bytes(reversed(out))

    enc = MidiTrack()
    probe = set(range(0, 70000))
    for k in range(1, 29):
        for d in range(-130, 131):
            probe.add(2 ** k + d)
    for k in (1, 2, 3, 4):
        for d in range(-300, 301):
            probe.add(128 ** k + d)
    for _ in range(20000):
        probe.add(rnd.randrange(2 ** 28))
    for n in sorted(probe):
        if 0 <= n < 2 ** 28:
            got = enc.int_to_varbyte(n)
            need(isinstance(got, bytes) and got == std(n), "int_to_varbyte(%d) = %r" % (n, got))
    for n in (0, 127, 128, 2 ** 28 - 1, 128, 0):
        need(MidiTrack().int_to_varbyte(value=n) == std(n), "int_to_varbyte(value=%d)" % n)


try:
    run()
except Bad as e:
    print("C16 VIOLATED after %d cases: %s" % (CASES[0], e))
    sys.exit(1)
finally:
    try:
        os.remove(OUT)
        os.rmdir(TMP)
    except OSError:
        pass
print("C16 holds on %d files and the VLQ sweep" % CASES[0])
sys.exit(0)
