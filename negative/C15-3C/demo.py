import mingus, os; assert os.path.realpath(mingus.__file__).startswith(os.path.realpath(os.path.dirname(__file__)))

# Direct check of property C15 (no hidden shared state) through the public API.
# exit 0 when it holds, 1 (with a message) otherwise.

import copy
import json
import random
import subprocess
import sys
import tempfile

from mingus.core import keys, chords, intervals, progressions, notes, scales
from mingus.containers.note import Note
from mingus.containers.note_container import NoteContainer
from mingus.containers.bar import Bar
from mingus.containers.track import Track
from mingus.containers.composition import Composition
from mingus.containers.suite import Suite
from mingus.containers.instrument import MidiInstrument
from mingus.midi.midi_track import MidiTrack
from mingus.midi.midi_file_out import MidiFile
from mingus.midi import midi_file_out
from mingus.midi.sequencer import Sequencer

FAILS = []
CASES = [0]
SHORTHAND_KEYS0 = sorted(chords.chord_shorthand)
MEANING0 = dict(chords.chord_shorthand_meaning)


def check(cond, msg):
    CASES[0] += 1
    if not cond:
        FAILS.append(msg if len(msg) < 500 else msg[:500] + " ...")
        if len(FAILS) > 25:
            finish()


def finish():
    if FAILS:
        print("C15 VIOLATED (%d failures, %d checks)" % (len(FAILS), CASES[0]))
        for f in FAILS[:25]:
            print("  -", f)
        sys.exit(1)
    print("C15 holds on %d checks" % CASES[0])
    sys.exit(0)


# --------------------------------------------------------------------------
# 1. the fixed battery of theory queries
# --------------------------------------------------------------------------

ALL_KEYS = [k for couple in keys.keys for k in couple]
BAD_KEYS = ["H", "", "c##", "Fb", "C{", "%s", "C\n", "é"]
NOTE_NAMES = ["C", "D", "E", "F", "G", "A", "B", "C#", "Eb", "F##", "Bbb", "Cb", "E#", "Abbb"]
ROMAN = ["I", "I7", "ii", "II", "ii7", "II7", "iii", "III", "iii7", "III7", "IV", "IV7",
         "V", "V7", "vi", "VI", "vi7", "VI7", "vii", "VII", "vii7", "VII7",
         "tonic", "tonic7", "supertonic", "supertonic7", "mediant", "mediant7",
         "subdominant", "subdominant7", "dominant", "dominant7", "submediant",
         "submediant7", "subtonic", "subtonic7"]
INTERVAL_FUNCS = ["minor_unison", "major_unison", "augmented_unison", "minor_second",
                  "major_second", "minor_third", "major_third", "minor_fourth",
                  "major_fourth", "perfect_fourth", "minor_fifth", "major_fifth",
                  "perfect_fifth", "minor_sixth", "major_sixth", "minor_seventh",
                  "major_seventh"]
DIATONIC = ["second", "third", "fourth", "fifth", "sixth", "seventh"]
PROGS = [["I", "IV", "V7"], ["bII", "#ivdim7", "VIm7"], "I7", ["IIm6", "bbVII", "Vdom7"],
         ["VII", "viidim", "IM7"], ["X"], ("I", "vi", "ii", "V")]
SHORTHANDS = ["Am", "Cmaj7", "F#m7b5", "Bb7#9", "Dm|G", "A/G", "Ebm/M7", "G13", "C6/9",
              "Dsus4", "Ehendrix", "Abdim7", "C5", "NC", "Cmin11", "F#M13", "Am/C|G7"]
CHORDS_TO_NAME = [["C", "E", "G"], ["A", "C", "E"], ["G", "B", "D", "F"], ["C", "E", "G", "B", "D"],
                  ["C", "Eb", "Gb", "Bbb"], ["D", "F#", "A", "C", "E", "G"], ["C", "E"], ["F#"], [],
                  ["C", "E", "G", "B", "D", "F", "A"], ["C", "F", "G"], ["E", "G", "C"],
                  ["C", "E", "G", "Bb", "D", "F#", "A", "C#"]]


def call(f, *a, **kw):
    """Value of a call in a JSON-friendly shape; refusals become a marker."""
    try:
        return ["ok", f(*a, **kw)]
    except Exception as e:
        return ["refused", type(e).__name__]


def battery_items():
    """The fixed battery as a list of (label, thunk)."""
    items = []

    def add(label, f, *a, **kw):
        items.append((label, lambda: call(f, *copy.deepcopy(a), **copy.deepcopy(kw))))

    for k in ALL_KEYS + BAD_KEYS:
        add("keys.get_notes(%r)" % k, keys.get_notes, k)
        add("keys.get_key_signature(%r)" % k, keys.get_key_signature, k)
        add("keys.get_key_signature_accidentals(%r)" % k, keys.get_key_signature_accidentals, k)
        add("keys.is_valid_key(%r)" % k, keys.is_valid_key, k)
        add("keys.relative_major(%r)" % k, keys.relative_major, k)
        add("keys.relative_minor(%r)" % k, keys.relative_minor, k)
        add("chords.triads(%r)" % k, chords.triads, k)
        add("chords.sevenths(%r)" % k, chords.sevenths, k)
    for n in range(-8, 9):
        add("keys.get_key(%d)" % n, keys.get_key, n)
    add("keys.get_notes()", keys.get_notes)
    add("keys.get_notes(key='eb')", keys.get_notes, key="eb")
    for k in ALL_KEYS:
        for r in ROMAN:
            add("chords.%s(%r)" % (r, k), getattr(chords, r), k)
    for k in ["C", "f#", "Cb", "a#", "Eb"]:
        for n in keys.get_notes(k):
            add("chords.triad(%r,%r)" % (n, k), chords.triad, n, k)
            add("chords.seventh(%r,%r)" % (n, k), chords.seventh, n, k)
            for d in DIATONIC:
                add("intervals.%s(%r,%r)" % (d, n, k), getattr(intervals, d), n, k)
            for i in (0, 3, 6, 9, -2):
                add("intervals.interval(%r,%r,%d)" % (k, n, i), intervals.interval, k, n, i)
            add("intervals.unison(%r)" % n, intervals.unison, n)
    for n in NOTE_NAMES:
        for f in INTERVAL_FUNCS:
            add("intervals.%s(%r)" % (f, n), getattr(intervals, f), n)
        for sh in sorted(chords.chord_shorthand):
            add("chords.chord_shorthand[%r](%r)" % (sh, n), chords.chord_shorthand[sh], n)
        for m in NOTE_NAMES[::3]:
            add("intervals.determine(%r,%r)" % (n, m), intervals.determine, n, m)
            add("intervals.determine(%r,%r,True)" % (n, m), intervals.determine, n, m, True)
            add("intervals.measure(%r,%r)" % (n, m), intervals.measure, n, m)
            add("intervals.is_consonant(%r,%r)" % (n, m), intervals.is_consonant, n, m)
            add("intervals.is_dissonant(%r,%r)" % (n, m), intervals.is_dissonant, n, m, include_fourths=True)
        for sh in ["1", "b3", "#4", "5", "bb7", "2", "6"]:
            add("intervals.from_shorthand(%r,%r)" % (n, sh), intervals.from_shorthand, n, sh)
            add("intervals.from_shorthand(%r,%r,False)" % (n, sh), intervals.from_shorthand, n, sh, False)
        for semis in (0, 1, 5, 11):
            add("intervals.get_interval(%r,%d,'C')" % (n[0], semis), intervals.get_interval, n[0], semis, "C")
    add("intervals.interval('C','H',1)", intervals.interval, "C", "H", 1)
    add("intervals.interval('Q','C',1)", intervals.interval, "Q", "C", 1)
    for p in PROGS:
        for k in ["C", "Eb", "f#", "Cb", "H"]:
            add("progressions.to_chords(%r,%r)" % (p, k), progressions.to_chords, p, k)
    for c in CHORDS_TO_NAME:
        add("chords.determine(%r)" % c, chords.determine, list(c))
        add("chords.determine(%r,True)" % c, chords.determine, list(c), True)
        add("chords.determine(%r,shorthand=True,no_inversions=True)" % c, chords.determine, list(c),
            shorthand=True, no_inversions=True)
        if len(c) > 2:
            for k in ["C", "G", "Bb"]:
                add("progressions.determine(%r,%r)" % (c, k), progressions.determine, list(c), k)
                add("progressions.determine(%r,%r,True)" % (c, k), progressions.determine, list(c), k, True)
    for s in SHORTHANDS + ["Hm", "Cfoo", "C{", "C%s", "C\n7"]:
        add("chords.from_shorthand(%r)" % s, chords.from_shorthand, s)
    add("chords.from_shorthand(list)", chords.from_shorthand, list(SHORTHANDS))
    base = ["I", "IV", "V", "VIIdim7", "IIm", "VIm7", "IM7", "bIII", "VII"]
    for i in range(len(base)):
        add("progressions.substitute(base,%d)" % i, progressions.substitute, list(base), i)
        add("progressions.substitute(base,%d,2)" % i, progressions.substitute, list(base), i, 2)
        for f in ["substitute_harmonic", "substitute_minor_for_major", "substitute_major_for_minor",
                  "substitute_diminished_for_diminished", "substitute_diminished_for_dominant"]:
            add("progressions.%s(base,%d)" % (f, i), getattr(progressions, f), list(base), i)
            add("progressions.%s(base,%d,True)" % (f, i), getattr(progressions, f), list(base), i, True)
    for r in progressions.numerals:
        for s in (1, 2, 5, 9):
            add("progressions.skip(%r,%d)" % (r, s), progressions.skip, r, s)
        for r2 in progressions.numerals:
            for iv in (1, 3, 8, 9):
                add("progressions.interval_diff(%r,%r,%d)" % (r, r2, iv), progressions.interval_diff, r, r2, iv)
    for s in ["bIM7", "##vii7", "IVdim7", "x", "", "bb"]:
        add("progressions.parse_string(%r)" % s, lambda s=s: list(progressions.parse_string(s)))
    for t in [("I", 0, ""), ("V", -7, "7"), ("II", 8, "m"), ("VII", 3, "dim")]:
        add("progressions.tuple_to_string(%r)" % (t,), progressions.tuple_to_string, t)
    for k in ["C", "F#", "Bb"]:
        add("scales.Major(%r)" % k, lambda k=k: scales.Major(k).ascending())
        add("scales.Dorian(%r)" % k, lambda k=k: scales.Dorian(k).descending())
    add("scales.determine", lambda: sorted(scales.determine(["C", "D", "E", "F", "G", "A", "B"])))
    return items


def run_battery():
    return json.loads(json.dumps([[label, thunk()] for label, thunk in battery_items()]))


if len(sys.argv) > 1 and sys.argv[1] == "--battery":
    json.dump(run_battery(), sys.stdout)
    sys.exit(0)

if len(sys.argv) > 1 and sys.argv[1] == "--fft-first":
    from mingus.extra import fft
    f = float(sys.argv[2])
    res = fft.find_notes([(f, 1.0)], 128)
    print(json.dumps([i for i, (n, a) in enumerate(res) if a]))
    sys.exit(0)


def cold(*argv):
    env = dict(os.environ)
    out = subprocess.check_output([sys.executable, os.path.abspath(__file__)] + list(argv), env=env)
    return json.loads(out.decode("utf-8"))


COLD = cold("--battery")
ITEMS = battery_items()
check(len(COLD) == len(ITEMS), "battery size differs between processes")


def compare_with_cold(tag):
    warm = run_battery()
    bad = [(w[0], w[1], c[1]) for w, c in zip(warm, COLD) if w != c]
    check(not bad, "%s: %d battery answers differ from the cold interpreter, first: %r" % (tag, len(bad), bad[:1]))


compare_with_cold("first warm run")
for seed in range(6):
    rnd = random.Random(seed)
    # a random call history: lots of distinct keys, refused calls repeated,
    # results mutated by the caller
    for _ in range(400):
        label, thunk = rnd.choice(ITEMS)
        r = thunk()
        if r[0] == "ok" and isinstance(r[1], list):
            r[1].append("junk")
            if r[1] and isinstance(r[1][0], list):
                r[1][0].insert(0, "junk")
                del r[1][0][1:]
        if rnd.random() < 0.2:
            k = rnd.choice(ALL_KEYS)
            for _ in range(3):
                x = rnd.choice([keys.get_notes, chords.triads, chords.sevenths])(k)
                x.reverse()
                x[:] = x[:2]
        if rnd.random() < 0.1:
            for _ in range(3):
                call(rnd.choice([keys.get_notes, chords.triads, chords.sevenths, chords.tonic]),
                     rnd.choice(BAD_KEYS))
    compare_with_cold("after random history %d" % seed)
# in reverse order and in shuffled order too
for order in ("reversed", "shuffled"):
    idx = list(range(len(ITEMS)))
    if order == "reversed":
        idx.reverse()
    else:
        random.Random(99).shuffle(idx)
    bad = []
    for i in idx:
        got = json.loads(json.dumps(ITEMS[i][1]()))
        if got != COLD[i][1]:
            bad.append((ITEMS[i][0], got, COLD[i][1]))
    check(not bad, "battery in %s order: %d differ, first %r" % (order, len(bad), bad[:1]))


# --------------------------------------------------------------------------
# 2. argument / result aliasing for the public functions
# --------------------------------------------------------------------------

def scribble(x):
    """Modify a returned value in place as thoroughly as its type allows."""
    if isinstance(x, list):
        for y in x:
            scribble(y)
        x.append("scribble")
        x.reverse()
        if len(x) > 2:
            del x[1]
    elif isinstance(x, dict):
        x["scribble"] = 1


ALIAS_CASES = []


def alias(label, f, *a, **kw):
    ALIAS_CASES.append((label, f, a, kw))


for k in ALL_KEYS:
    alias("keys.get_notes", keys.get_notes, k)
    alias("keys.get_key_signature_accidentals", keys.get_key_signature_accidentals, k)
    alias("chords.triads", chords.triads, k)
    alias("chords.sevenths", chords.sevenths, k)
    for r in ("I", "ii7", "V7", "subtonic", "dominant7", "VII"):
        alias("chords." + r, getattr(chords, r), k)
for k in ("C", "eb"):
    alias("keys.get_notes(key=)", keys.get_notes, key=k)
    alias("chords.triads(key=)", chords.triads, key=k)
    alias("chords.sevenths(key=)", chords.sevenths, key=k)
    alias("chords.tonic(key=)", chords.tonic, key=k)
for n in NOTE_NAMES:
    for sh in sorted(chords.chord_shorthand):
        alias("chord_shorthand[%r]" % sh, chords.chord_shorthand[sh], n)
    alias("chords.major_triad(note=)", chords.major_triad, note=n)
for c in CHORDS_TO_NAME:
    if len(c) == 1:
        continue  # determine() hands a one-note chord straight back
    alias("chords.determine", chords.determine, list(c))
    alias("chords.determine short", chords.determine, list(c), True, True, True)
    alias("chords.determine kw", chords.determine, chord=list(c), shorthand=True)
    if c:
        alias("chords.invert", chords.invert, list(c))
        alias("chords.first_inversion", chords.first_inversion, list(c))
        alias("chords.second_inversion", chords.second_inversion, list(c))
        alias("chords.third_inversion", chords.third_inversion, list(c))
        alias("intervals.invert", intervals.invert, list(c))
    if len(c) == 3:
        alias("chords.determine_triad", chords.determine_triad, list(c), True)
    if len(c) == 4:
        alias("chords.determine_seventh", chords.determine_seventh, list(c), False, True)
    if len(c) == 5:
        alias("chords.determine_extended_chord5", chords.determine_extended_chord5, list(c), True)
    if len(c) == 6:
        alias("chords.determine_extended_chord6", chords.determine_extended_chord6, list(c))
    if len(c) == 7:
        alias("chords.determine_extended_chord7", chords.determine_extended_chord7, list(c), True)
    if len(c) >= 6:
        alias("chords.determine_polychords", chords.determine_polychords, list(c), True)
    if len(c) > 2:
        alias("progressions.determine", progressions.determine, list(c), "C", True)
        alias("progressions.determine kw", progressions.determine, chord=list(c), key="F", shorthand=False)
alias("progressions.determine nested", progressions.determine, [["C", "E", "G"], ["G", "B", "D"]], "C", True)
alias("chords.from_shorthand list", chords.from_shorthand, list(SHORTHANDS))
for s in SHORTHANDS:
    alias("chords.from_shorthand", chords.from_shorthand, s)
    alias("chords.from_shorthand kw", chords.from_shorthand, shorthand_string=s)
for p in PROGS:
    for k in ("C", "ab", "F#"):
        alias("progressions.to_chords", progressions.to_chords, copy.deepcopy(p), k)
        alias("progressions.to_chords kw", progressions.to_chords, progression=copy.deepcopy(p), key=k)
base = ["I", "IV", "V", "VIIdim7", "IIm", "VIm7", "IM7", "bIII", "VII"]
for i in range(len(base)):
    alias("progressions.substitute", progressions.substitute, list(base), i, 1)
    alias("progressions.substitute kw", progressions.substitute, progression=list(base), substitute_index=i)
    for f in ["substitute_harmonic", "substitute_minor_for_major", "substitute_major_for_minor",
              "substitute_diminished_for_diminished", "substitute_diminished_for_dominant"]:
        alias("progressions." + f, getattr(progressions, f), list(base), i, True)
long_prog = ["I", "bII", "iii7", "IVdim7", "V7", "VIm", "VII"] * 60
alias("progressions.to_chords long", progressions.to_chords, long_prog, "Gb")
alias("chords.from_shorthand long", chords.from_shorthand, SHORTHANDS * 40)
alias("chords.determine_polychords long", chords.determine, ["C", "E", "G", "B", "D", "F", "A"] * 2, True)

for label, f, a, kw in ALIAS_CASES:
    a0, kw0 = copy.deepcopy(a), copy.deepcopy(kw)
    try:
        r1 = f(*a, **kw)
    except Exception as e:
        check(a == a0 and kw == kw0, "%s%r: refused call changed its arguments" % (label, a0))
        continue
    check(a == a0 and kw == kw0, "%s: arguments changed from %r %r to %r %r" % (label, a0, kw0, a, kw))
    keep = copy.deepcopy(r1)
    scribble(r1)
    r2 = f(*a, **kw)
    check(r2 == keep, "%s%r %r: result after scribbling on the previous result: %r, before: %r" % (label, a0, kw0, r2, keep))
    check(a == a0 and kw == kw0, "%s: arguments changed by the second call" % label)
    # the result must not be the argument itself nor share lists with it
    if isinstance(r2, list):
        for arg in list(a) + list(kw.values()):
            if isinstance(arg, list):
                before = copy.deepcopy(arg)
                scribble(r2)
                check(arg == before, "%s%r: scribbling on the result changed the argument" % (label, a0))
                break
    r3 = f(*a, **kw)
    check(r3 == keep, "%s%r: third call differs: %r vs %r" % (label, a0, r3, keep))

# module level tables are left alone by all of the above
check(keys.major_keys == [c[0] for c in keys.keys] and keys.minor_keys == [c[1] for c in keys.keys]
      and len(keys.keys) == 15, "keys tables changed")
check(keys.base_scale == ["C", "D", "E", "F", "G", "A", "B"], "keys.base_scale changed")
check(notes.fifths == ["F", "C", "G", "D", "A", "E", "B"], "notes.fifths changed")
check(progressions.numerals == ["I", "II", "III", "IV", "V", "VI", "VII"], "progressions.numerals changed")
check(progressions.numeral_intervals == [0, 2, 4, 5, 7, 9, 11], "numeral_intervals changed")
check(sorted(chords.chord_shorthand) == SHORTHAND_KEYS0 and dict(chords.chord_shorthand_meaning) == MEANING0,
      "chord_shorthand tables changed")


# --------------------------------------------------------------------------
# 3. sibling instances, class defaults, copies
# --------------------------------------------------------------------------

def snap(o, depth=0):
    """A structural snapshot of an object (independent of identity)."""
    if depth > 12:
        return "..."
    if isinstance(o, (str, bytes, int, float, bool, type(None))):
        return o
    if isinstance(o, (list, tuple)):
        return [type(o).__name__] + [snap(x, depth + 1) for x in o]
    if isinstance(o, dict):
        return {repr(k): snap(v, depth + 1) for k, v in sorted(o.items(), key=repr)}
    if hasattr(o, "__dict__"):
        d = {k: snap(v, depth + 1) for k, v in sorted(vars(o).items())}
        return [type(o).__name__, d]
    return repr(o)


def class_defaults(cls):
    return {k: snap(v) for k, v in sorted(vars(cls).items())
            if not k.startswith("__") and not callable(v) and not isinstance(v, (property, staticmethod, classmethod))}


def steps(obj, *ops):
    """Apply the operations one after the other; a refused one is skipped."""
    for op in ops:
        try:
            op(obj)
        except Exception:
            pass


def note_ops(n):
    steps(n,
          lambda n: n.set_note("D", 4), lambda n: n.augment(), lambda n: n.octave_up(),
          lambda n: n.set_velocity(99), lambda n: n.set_channel(7), lambda n: n.transpose("b3"),
          lambda n: n.set_note("Eb", 2, {"velocity": 3}), lambda n: n.from_int(50),
          lambda n: n.from_hertz(880), lambda n: n.change_octave(-9), lambda n: n.from_shorthand("f#''"),
          lambda n: n.remove_redundant_accidentals(), lambda n: n.diminish(), lambda n: n.octave_down(),
          lambda n: n.set_note("H"), lambda n: n.set_velocity(400), lambda n: n.set_note("C-x"),
          lambda n: n.set_note(name="G", octave=6, velocity=17, channel=2), lambda n: n.empty())


def nc_ops(c):
    steps(c,
          lambda c: c.add_note("C"), lambda c: c.add_notes(["E", "G", ["B", 5], ["D", 6, {"velocity": 20}]]),
          lambda c: c + "F#", lambda c: c.augment(), lambda c: c.transpose("3"), lambda c: c.remove_note("E#"),
          lambda c: c - "G#", lambda c: c.sort(), lambda c: c.diminish(), lambda c: c.__setitem__(0, "Bb"),
          lambda c: c.remove_duplicate_notes(), lambda c: c.from_chord("Am7"),
          lambda c: c.from_interval("C", "5"), lambda c: c.from_progression("V7", "Eb"),
          lambda c: c.add_notes(c), lambda c: c.remove_notes(["Bb"]), lambda c: c.get_note_names(),
          lambda c: c.determine(), lambda c: c.is_consonant(), lambda c: c.is_dissonant(),
          lambda c: c.notes.append(Note("A", 7)), lambda c: c.add_note(12), lambda c: c.from_chord("Hm"),
          lambda c: c.add_note(note="D", octave=2, dynamics={"velocity": 8}), lambda c: c.remove_notes(c))


def bar_ops(b):
    steps(b,
          lambda b: b.place_notes("C", 4), lambda b: b.place_notes(["E", "G"], 8), lambda b: b.place_rest(8),
          lambda b: b + NoteContainer(["A", "C"]), lambda b: b.place_notes(Note("D", 5), 4),
          lambda b: b.place_notes("C", 1), lambda b: b.augment(), lambda b: b.transpose("5"),
          lambda b: b.diminish(), lambda b: b.__setitem__(0, ["F", "A"]), lambda b: b.place_notes_at(["B"], 0.0),
          lambda b: b.remove_last_entry(), lambda b: b.set_meter((3, 4)), lambda b: b.get_note_names(),
          lambda b: b.determine_chords(True), lambda b: b.determine_progression(True), lambda b: b.get_range(),
          lambda b: b.is_full(), lambda b: b.space_left(), lambda b: b.bar.append([9.0, 4, None]),
          lambda b: b.set_meter((4, 5)), lambda b: b.place_notes("E", 4),
          lambda b: b.place_notes(notes="G", duration=16), lambda b: b.remove_last_entry())


def track_ops(t):
    steps(t,
          lambda t: t.add_notes("C", 4), lambda t: t.add_notes(["E", "G"], 2), lambda t: t.add_notes(None, 4),
          lambda t: t + "A", lambda t: t + NoteContainer("B"), lambda t: t.add_bar(Bar("Eb", (3, 4))),
          lambda t: t.from_chords(["C", ["Am", "Dm"], "G7", None], 1), lambda t: t.augment(),
          lambda t: t.transpose("2"), lambda t: t.diminish(), lambda t: t.__setitem__(0, Bar("D")),
          lambda t: t.set_tuning(None), lambda t: setattr(t, "name", "changed"),
          lambda t: t.bars.append(Bar()), lambda t: t.test_integrity(), lambda t: list(t.get_notes()),
          lambda t: t.__setitem__(0, 5), lambda t: t.from_chords(["Hm"]),
          lambda t: t.add_notes(note="F", duration=8))


def comp_ops(c):
    steps(c,
          lambda c: c.add_track(Track()), lambda c: c + Track(), lambda c: c.add_note("C"), lambda c: c + "E",
          lambda c: c.set_title("T", "S"), lambda c: c.set_author("A", "e"),
          lambda c: c.__setitem__(0, Track().add_bar(Bar())), lambda c: c.selected_tracks.append(0),
          lambda c: c.tracks.append(Track()), lambda c: setattr(c, "description", "d"),
          lambda c: c.add_track(3), lambda c: c.reset(), lambda c: c.add_track(track=Track()),
          lambda c: c.add_note("G"))


def suite_ops(s):
    steps(s,
          lambda s: s.add_composition(Composition()), lambda s: s + Composition(),
          lambda s: s.set_author("A", "e"), lambda s: s.set_title("T", "S"),
          lambda s: s.__setitem__(0, Composition()), lambda s: s.compositions.append(Composition()),
          lambda s: setattr(s, "description", "d"), lambda s: s.add_composition("x"),
          lambda s: s.__setitem__(0, 4), lambda s: s.add_composition(composition=Composition()))


def example_track():
    t = Track(MidiInstrument())
    t.instrument.instrument_nr = 13
    t.name = "demo"
    t.add_notes(["C", "E", "G"], 4)
    t.add_notes(None, 4)
    t.add_notes("A", 2)
    t.add_notes(["D", "F"], 1)
    return t


def miditrack_ops(m):
    steps(m,
          lambda m: m.play_Note(Note("C")), lambda m: m.set_deltatime(72), lambda m: m.stop_Note(Note("C")),
          lambda m: m.play_NoteContainer(NoteContainer(["C", "E", "G"])),
          lambda m: m.stop_NoteContainer(NoteContainer(["C", "E", "G"])),
          lambda m: m.play_Bar(Bar("Eb", (3, 4))), lambda m: m.play_Track(example_track()),
          lambda m: m.set_tempo(90), lambda m: m.set_key("f#"), lambda m: m.set_meter((6, 8)),
          lambda m: m.set_track_name("n"), lambda m: m.set_instrument(2, 5),
          lambda m: setattr(m, "change_instrument", True), lambda m: setattr(m, "instrument", 9),
          lambda m: setattr(m, "delay", 17), lambda m: m.get_midi_data(), lambda m: m.header(),
          lambda m: m.set_key("H"), lambda m: m.play_Note(5), lambda m: m.set_key(key="Gb"),
          lambda m: m.play_Bar(example_track().bars[0]))


def midifile_ops(m):
    t = MidiTrack(100)
    t.play_Bar(Bar())
    steps(m,
          lambda m: m.tracks.append(t), lambda m: m.get_midi_data(), lambda m: m.header(),
          lambda m: setattr(m, "time_division", b"\x00\x60"), lambda m: m.tracks.append(MidiTrack()),
          lambda m: m.reset(), lambda m: m.tracks.append(MidiTrack(60)))


class Listener(object):
    def __init__(self):
        self.got = []

    def notify(self, msg_type, params):
        self.got.append(msg_type)


def sequencer_ops(s):
    l = Listener()
    steps(s,
          lambda s: s.attach(l), lambda s: s.attach(Listener()), lambda s: s.play_Note(Note("C"), 2, 90),
          lambda s: s.stop_Note(Note("C"), 2), lambda s: s.play_NoteContainer(NoteContainer(["C", "E"])),
          lambda s: s.stop_NoteContainer(NoteContainer(["C", "E"])), lambda s: s.set_instrument(1, 4),
          lambda s: s.control_change(1, 7, 100), lambda s: s.play_Bar(Bar()), lambda s: s.detach(l),
          lambda s: s.stop_everything(), lambda s: setattr(s, "output", "x"))


SIBLINGS = [
    ("Note", Note, lambda: Note(), note_ops),
    ("Note(args)", Note, lambda: Note("Eb", 3, {"velocity": 10, "channel": 2}), note_ops),
    ("NoteContainer", NoteContainer, lambda: NoteContainer(), nc_ops),
    ("NoteContainer(list)", NoteContainer, lambda: NoteContainer(["C", "E", "G"]), nc_ops),
    ("Bar", Bar, lambda: Bar(), bar_ops),
    ("Bar(args)", Bar, lambda: Bar("eb", (6, 8)), bar_ops),
    ("Track", Track, lambda: Track(), track_ops),
    ("Composition", Composition, lambda: Composition(), comp_ops),
    ("Suite", Suite, lambda: Suite(), suite_ops),
    ("MidiTrack", MidiTrack, lambda: MidiTrack(), miditrack_ops),
    ("MidiTrack(90)", MidiTrack, lambda: MidiTrack(90), miditrack_ops),
    ("MidiFile", MidiFile, lambda: MidiFile(), midifile_ops),
    ("Sequencer", Sequencer, lambda: Sequencer(), sequencer_ops),
]

for label, cls, make, ops in SIBLINGS:
    defaults0 = class_defaults(cls)
    fresh0 = snap(make())
    for rounds in (1, 3):
        before_sibling = make()
        s_before = snap(before_sibling)
        victim = make()
        for _ in range(rounds):
            ops(victim)
        check(snap(before_sibling) == s_before, "%s: operating on one instance changed an earlier sibling: %r -> %r"
              % (label, s_before, snap(before_sibling)))
        check(class_defaults(cls) == defaults0, "%s: class defaults changed: %r -> %r"
              % (label, defaults0, class_defaults(cls)))
        after_sibling = make()
        check(snap(after_sibling) == fresh0, "%s: an instance created afterwards differs from a fresh one: %r vs %r"
              % (label, snap(after_sibling), fresh0))
        # and operating on the later one does not reach back either
        s_victim = snap(victim)
        ops(after_sibling)
        check(snap(victim) == s_victim, "%s: operating on a later instance changed the earlier one" % label)
        check(snap(before_sibling) == s_before, "%s: untouched sibling changed in the end" % label)

# copies of notes
for name, octave, dyn in [("C", 4, {}), ("F#", 2, {"velocity": 12}), ("Bbb", 7, {"channel": 3, "velocity": 127}),
                          ("E-5", 4, None), ("Cb", 0, {"channel": 0})]:
    d0 = copy.deepcopy(dyn)
    orig = Note(name, octave, dyn)
    check(dyn == d0, "Note(): dynamics dictionary modified")
    dup = Note(orig)
    s_orig, s_dup = snap(orig), snap(dup)
    check((dup.name, dup.octave, dup.velocity, dup.channel) == (orig.name, orig.octave, orig.velocity, orig.channel),
          "Note(Note) is not a copy")
    note_ops(orig)
    check(snap(dup) == s_dup, "copy of a Note changed with the original")
    orig2 = Note(name, octave, dyn)
    dup2 = Note(orig2)
    note_ops(dup2)
    check(snap(orig2) == s_orig, "Note changed with its copy")
    if dyn:
        n = Note(name, octave, dyn)
        s = snap(n)
        dyn["velocity"] = 1
        dyn["channel"] = 15
        check(snap(n) == s, "Note follows the dictionary it was made from")
        got = n.dynamics
        got["velocity"] = 77
        check(snap(n) == s and n.dynamics["velocity"] != 77, "Note follows the dictionary it handed out")
    kw = Note(name=name, octave=octave, velocity=5, channel=6)
    check(snap(Note(kw)) == snap(kw) and Note.velocity == 64 and Note.channel == 1, "keyword-built Note copy")

# copies of containers
for make_content in [lambda: ["C", "E", "G"], lambda: [["C", 3], ["E", 5, {"velocity": 20}]],
                     lambda: ["Bb-2", "F#-6"], lambda: [],
                     lambda: [Note("A", 2), Note("C#", 5, {"channel": 9})],
                     lambda: ["C", "Eb", "G", "Bb", "D", "F", "A"] * 3]:
    content = make_content()
    c0 = snap(make_content())
    orig = NoteContainer(content)
    check(snap(content) == c0, "NoteContainer(): the list it was given was modified")
    dup = NoteContainer(orig)
    check(dup == orig and len(dup) == len(orig), "NoteContainer(NoteContainer) is not a copy")
    check(all(a is not b for a in dup.notes for b in orig.notes) and dup.notes is not orig.notes,
          "NoteContainer copy shares notes with the original")
    s_dup, s_orig = snap(dup), snap(orig)
    for n in orig.notes:
        n.augment(); n.octave_up(); n.set_velocity(1)
    orig.add_note("D", 8); orig.transpose("4"); orig.remove_note("C")
    check(snap(dup) == s_dup, "copy of a NoteContainer changed with the original")
    content = make_content()
    orig = NoteContainer(content)
    check(snap(orig) == s_orig, "equal lists give different containers")
    dup = NoteContainer(orig)
    nc_ops(dup)
    check(snap(orig) == s_orig, "NoteContainer changed with its copy")
    check(snap(content) == c0, "the list a NoteContainer was made from changed later")
    # a container handed to itself
    orig.add_notes(orig); orig + orig
    check(snap(orig) == s_orig, "adding a container to itself changed it")
    other = NoteContainer()
    other.add_notes(orig)
    other.augment()
    check(snap(orig) == s_orig, "add_notes(container) shares notes")
    if content and isinstance(content[0], str):
        scribble(content)
        check(snap(orig) == s_orig, "container follows the list of names it was made from")

# list arguments of container methods
for make_target, method, arg in [
    (lambda: Bar(), lambda b, a: b.place_notes(a, 4), ["C", "E", "G"]),
    (lambda: Bar(), lambda b, a: (b.place_notes("C", 4), b.__setitem__(0, a)), ["C", "E", "G"]),
    (lambda: Bar(), lambda b, a: (b.place_notes("C", 4), b.place_notes_at(a, 0.0)), ["E", "G"]),
    (lambda: NoteContainer(), lambda c, a: c.add_notes(a), [["C", 5], ["E", 5, {"velocity": 3}]]),
    (lambda: NoteContainer(["C", "E", "G"]), lambda c, a: c.remove_notes(a), ["C", "G"]),
    (lambda: Track(), lambda t, a: t.add_notes(a, 4), ["C", "E"]),
    (lambda: Track(MidiInstrument()), lambda t, a: t.add_notes(a, 4), ["C", "E"]),
    (lambda: Track(), lambda t, a: t.from_chords(a, 1), ["C", ["Am", ["Dm", "G7"]], None, "F"]),
    (lambda: Track(), lambda t, a: t.from_chords(a, 1), ["C", "Am"] * 40),
    (lambda: Bar(), lambda b, a: b.set_meter(a), (3, 4)),
]:
    a0 = copy.deepcopy(arg)
    target = make_target()
    method(target, arg)
    check(arg == a0, "container method modified its list argument: %r -> %r" % (a0, arg))
    s = snap(target)
    if isinstance(arg, list):
        scribble(arg)
        check(snap(target) == s, "container follows the list it was given: %r" % (a0,))

# two tracks made from the same chord list / two bars from one key string
t1, t2 = Track().from_chords(["C", "Am"]), Track().from_chords(["C", "Am"])
s2 = snap(t2)
t1.augment(); t1.transpose("3"); t1.bars[0].place_notes("C", 4); t1.bars.pop()
check(snap(t2) == s2, "tracks built from equal chord lists share content")
t = Track()
for i in range(9):
    t.add_notes(["C", "E"], 4)
s_first = snap(t.bars[0])
t.bars[1].augment(); t.bars[2].set_meter((3, 4)); t.bars[1].empty()
check(snap(t.bars[0]) == s_first, "bars created by a track share content")

# MIDI writers: same bytes whatever was written before, inputs untouched
tmp = tempfile.mkdtemp()


def written(func, obj, *a, **kw):
    path = os.path.join(tmp, "x.mid")
    if os.path.exists(path):
        os.remove(path)
    func(path, obj, *a, **kw)
    with open(path, "rb") as fh:
        return fh.read()


comp = Composition()
comp.add_track(example_track())
comp.add_track(Track().from_chords(["C", "Am", "F", "G7"]))
bar = example_track().bars[0]
WRITES = [
    (midi_file_out.write_Note, Note("C", 4, velocity=70, channel=3), (), {}),
    (midi_file_out.write_Note, Note("F#", 6), (90, 2), {}),
    (midi_file_out.write_NoteContainer, NoteContainer(["C", "E", "G"]), (), {"bpm": 100, "repeat": 1}),
    (midi_file_out.write_Bar, bar, (), {}),
    (midi_file_out.write_Bar, Bar("f#", (6, 8)), (200, 2), {}),
    (midi_file_out.write_Track, example_track(), (), {"repeat": 1}),
    (midi_file_out.write_Composition, comp, (), {}),
    (midi_file_out.write_Composition, comp, (77,), {"repeat": 2}),
]
first = []
for func, obj, a, kw in WRITES:
    s = snap(obj)
    first.append(written(func, obj, *a, **kw))
    check(snap(obj) == s, "%s modified the object it wrote" % func.__name__)
    check(first[-1][:4] == b"MThd", "%s wrote no MIDI file" % func.__name__)
for order in (list(range(len(WRITES))), list(reversed(range(len(WRITES)))), [3, 3, 0, 6, 1, 6, 7, 2, 5, 4]):
    for i in order:
        func, obj, a, kw = WRITES[i]
        check(written(func, obj, *a, **kw) == first[i], "%s: bytes depend on what was written before" % func.__name__)
check(MidiFile.tracks == [] and MidiTrack.track_data == b"" and MidiTrack.delay == 0
      and MidiTrack.delta_time == b"\x00" and MidiTrack.change_instrument is False,
      "MIDI class defaults changed")
m1, m2 = MidiFile(), MidiFile()
m1.tracks.append(MidiTrack())
check(m2.tracks == [] and MidiFile().tracks == [], "MidiFile instances share their track list")
a, b = MidiTrack(), MidiTrack()
data_b = b.get_midi_data()
a.play_Track(example_track())
check(b.get_midi_data() == data_b and MidiTrack().get_midi_data() == data_b, "MidiTrack instances share data")
c, d = MidiTrack(), MidiTrack()
c.play_Track(example_track()); d.play_Track(example_track())
check(c.get_midi_data() == d.get_midi_data() == a.get_midi_data(), "equal tracks give different MIDI data")


# --------------------------------------------------------------------------
# 4. frequency table lookups (position memory)
# --------------------------------------------------------------------------

from mingus.extra import fft


def index_of(freq):
    res = fft.find_notes([(freq, 1.0)], 128)
    hit = [i for i, (n, amp) in enumerate(res) if amp]
    return hit


rnd = random.Random(5)
table = [Note().from_int(i).to_hertz() for i in range(128)]
freqs = [rnd.uniform(1, 14000) for _ in range(150)] + table[::5] + [t * 1.0001 for t in table[::7]] + \
        [t * 0.9999 for t in table[::7]] + [0.5, 8.0, 16.35, 13289.75, 13289.76, 20000.0, 440.0, 439.99, 440.01]
answers = {}
for order_name in ("ascending", "descending", "shuffled", "shuffled2", "pingpong"):
    seq = sorted(freqs)
    if order_name == "descending":
        seq.reverse()
    elif order_name.startswith("shuffled"):
        random.Random(len(order_name)).shuffle(seq)
    elif order_name == "pingpong":
        seq = [x for pair in zip(seq, reversed(seq)) for x in pair]
    for f in seq:
        got = index_of(f)
        if f in answers:
            check(answers[f] == got, "frequency %r: index %r now, %r before (%s order)" % (f, got, answers[f], order_name))
        else:
            answers[f] = got
            CASES[0] += 1
# a whole table at once gives the sum of the single lookups, in any order
for seq in (sorted(freqs), sorted(freqs, reverse=True)):
    res = fft.find_notes([(f, 1.0) for f in seq], 128)
    expect = [0] * 129
    for f in seq:
        for i in answers[f]:
            expect[i] += 1.0
    check([amp for n, amp in res] == expect, "find_notes over a table differs from single lookups")
tbl = [(f, 1.0) for f in sorted(freqs)]
tbl0 = copy.deepcopy(tbl)
r1 = fft.find_notes(tbl)
check(tbl == tbl0, "find_notes modified its table")
keep = [(snap(n), amp) for n, amp in r1]
for n, amp in r1:
    if n is not None:
        n.augment()
r1.reverse()
check([(snap(n), amp) for n, amp in fft.find_notes(tbl)] == keep, "find_notes result follows a returned list")
# a few truly cold lookups
for f in (440.0, 27.5, 13000.0, 261.7, 5.0):
    index_of(rnd.choice(freqs))
    check(cold("--fft-first", repr(f)) == index_of(f), "frequency %r: cold and warm index differ" % f)

finish()
