import mingus, os; assert os.path.realpath(mingus.__file__).startswith(os.path.realpath(os.path.dirname(__file__)))
import itertools
import sys

from mingus.core import notes
from mingus.core.mt_exceptions import NoteFormatError, RangeError, FormatError

NAT = {"C": 0, "D": 2, "E": 4, "F": 5, "G": 7, "A": 9, "B": 11}
MAXLEN = 6
failures = []
checked = 0


def fail(msg):
    failures.append(msg)


def raises(exc, fn, *args):
    try:
        fn(*args)
    except exc:
        return True
    except Exception as e:  # wrong class
        fail("%s%r raised %r instead of %s" % (fn.__name__, args, e, exc.__name__))
        return True
    return False


def wellformed(name):
    return (
        isinstance(name, str)
        and len(name) >= 1
        and name[0] in NAT
        and all(c in "#b" for c in name[1:])
    )


names = []
for letter in "ABCDEFG":
    for k in range(MAXLEN + 1):
        for acc in itertools.product("#b", repeat=k):
            names.append(letter + "".join(acc))
# a few long ones
for letter in "ABCDEFG":
    names.append(letter + "#" * 25)
    names.append(letter + "b" * 37)
    names.append(letter + "#b" * 20 + "b")
    names.append(letter + "b#" * 13 + "###")

pcs = {}
for n in names:
    checked += 1
    letter = n[0]
    sharps, flats = n.count("#"), n[1:].count("b")
    net = sharps - flats
    want = (NAT[letter] + net) % 12
    if notes.is_valid_note(n) is not True:
        fail("is_valid_note(%r) is not True" % n)
    got = notes.note_to_int(n)
    if got != want:
        fail("note_to_int(%r) = %r, want %r" % (n, got, want))
    pcs[n] = want

    # augment / diminish
    for fn, d in ((notes.augment, 1), (notes.diminish, -1)):
        r = fn(n)
        if not wellformed(r):
            fail("%s(%r) = %r is not a note name" % (fn.__name__, n, r))
            continue
        if r[0] != letter:
            fail("%s(%r) = %r changed the letter" % (fn.__name__, n, r))
        if notes.note_to_int(r) != (want + d) % 12:
            fail("%s(%r) = %r has the wrong pitch class" % (fn.__name__, n, r))

    # redundancy removal
    r = notes.remove_redundant_accidentals(n)
    exp = letter + ("#" * net if net >= 0 else "b" * (-net))
    if r != exp:
        fail("remove_redundant_accidentals(%r) = %r, want %r" % (n, r, exp))

    # reduction
    r = notes.reduce_accidentals(n)
    if not wellformed(r):
        fail("reduce_accidentals(%r) = %r is not a note name" % (n, r))
    else:
        if notes.note_to_int(r) != want:
            fail("reduce_accidentals(%r) = %r changed the pitch class" % (n, r))
        if len(r) > 2:
            fail("reduce_accidentals(%r) = %r has more than one accidental" % (n, r))
        if len(r) == 2:
            if r[1] == "#" and not net > 0:
                fail("reduce_accidentals(%r) = %r: sharp without net raise" % (n, r))
            if r[1] == "b" and not net < 0:
                fail("reduce_accidentals(%r) = %r: flat without net lowering" % (n, r))

# enharmonic: every pair from a subset, plus a stride through the whole list
subset = [n for n in names if len(n) <= 4]
pairs = list(itertools.product(subset[::3], subset[::5]))
pairs += [(names[i], names[(i * 7 + 3) % len(names)]) for i in range(len(names))]
for a, b in pairs:
    checked += 1
    got = notes.is_enharmonic(a, b)
    if bool(got) != (pcs[a] == pcs[b]):
        fail("is_enharmonic(%r, %r) = %r" % (a, b, got))

# number -> name -> number
sharp_forms = set(NAT) | {l + "#" for l in NAT}
flat_forms = set(NAT) | {l + "b" for l in NAT}
for i in range(12):
    checked += 1
    for args, forms in (((i,), sharp_forms), ((i, "#"), sharp_forms), ((i, "b"), flat_forms)):
        r = notes.int_to_note(*args)
        if r not in forms:
            fail("int_to_note%r = %r not in the allowed style" % (args, r))
        elif notes.note_to_int(r) != i:
            fail("int_to_note%r = %r does not convert back" % (args, r))

# malformed names
bad = [
    "H", "c", "d", "a", "b", "#", "#C", "bC", "C#x", "Cx#", "C 4", "C-4", "Cbb-", "asdasd",
    "C###f", "E*", " C", "C ", "C\n", "C#\n", "\nC", "CC", "Cb#B", "1", "C1", "C#4", "é",
    "C♯", "C♭", "Cis", "Do", "C##B", "Cb b", "C,#", "cb", "c#", "X##", "G#b#?", "0", "Bbb.",
    "A\t", "A#\x00", "Ab#bB", "ab", "h#",
]
for s in bad:
    checked += 1
    assert not wellformed(s)
    try:
        v = notes.is_valid_note(s)
    except Exception as e:
        fail("is_valid_note(%r) raised %r" % (s, e))
    else:
        if v is not False:
            fail("is_valid_note(%r) = %r" % (s, v))
    if not raises(NoteFormatError, notes.note_to_int, s):
        fail("note_to_int(%r) did not raise" % s)
    if not raises(NoteFormatError, notes.reduce_accidentals, s):
        fail("reduce_accidentals(%r) did not raise" % s)

# number -> name rejections
for i in [-1, 12, 13, 24, 100, 123123, -123, -12, 10 ** 20, -(10 ** 20)]:
    for args in ((i,), (i, "#"), (i, "b")):
        checked += 1
        if not raises(RangeError, notes.int_to_note, *args):
            fail("int_to_note%r did not raise" % (args,))
for style in ["", "x", "##", "bb", "B", "sharp", "flat", " #", "#b", "n", "♯"]:
    for i in range(12):
        checked += 1
        if not raises(FormatError, notes.int_to_note, i, style):
            fail("int_to_note(%r, %r) did not raise" % (i, style))

if failures:
    print("PROPERTY VIOLATED (%d failures of %d cases); first few:" % (len(failures), checked))
    for f in failures[:15]:
        print("  " + f)
    sys.exit(1)
print("ok: %d cases" % checked)
sys.exit(0)
