import mingus, os; assert os.path.realpath(mingus.__file__).startswith(os.path.realpath(os.path.dirname(__file__)))
import itertools
import sys

from mingus.core import intervals, notes

LETTERS = "CDEFGAB"
NATURAL = {"C": 0, "D": 2, "E": 4, "F": 5, "G": 7, "A": 9, "B": 11}

# constructor name -> (letters up, semitones up modulo the octave)
CONSTRUCTORS = {
    "minor_unison": (0, 11),
    "major_unison": (0, 0),
    "augmented_unison": (0, 1),
    "minor_second": (1, 1),
    "major_second": (1, 2),
    "minor_third": (2, 3),
    "major_third": (2, 4),
    "minor_fourth": (3, 4),
    "major_fourth": (3, 5),
    "perfect_fourth": (3, 5),
    "minor_fifth": (4, 6),
    "major_fifth": (4, 7),
    "perfect_fifth": (4, 7),
    "minor_sixth": (5, 8),
    "major_sixth": (5, 9),
    "minor_seventh": (6, 10),
    "major_seventh": (6, 11),
}
assert len(CONSTRUCTORS) == 17

failures = []


def fail(msg):
    failures.append(msg)
    if len(failures) > 20:
        report()


def report():
    for f in failures:
        print("FAIL: " + f)
    sys.exit(1)


def pc(name):
    """Independent pitch class of a valid name."""
    v = NATURAL[name[0]]
    for ch in name[1:]:
        v += 1 if ch == "#" else -1
    return v % 12


def names():
    out = []
    # exhaustive up to three accidentals, any mixture
    for letter in LETTERS:
        for n in range(4):
            for tail in itertools.product("#b", repeat=n):
                out.append(letter + "".join(tail))
    # pure runs around the six / twelve accidental boundaries and beyond
    for letter in LETTERS:
        for n in (4, 5, 6, 7, 8, 11, 12, 13, 17, 18, 19, 24, 30):
            out.append(letter + "#" * n)
            out.append(letter + "b" * n)
    # long and mixed
    out.append("C" + "#" * 1000)
    out.append("Bb" + "b" * 999)
    out.append("F" + "#b" * 500)
    out.append("E" + "b#" * 333 + "b")
    out.append("G" + "#" * 5003)
    out.append("A" + "b" * 4001 + "#" * 7)
    out.append("D##b#bb#b##")
    return out


def check_result(fname, name, res, how):
    steps, semis = CONSTRUCTORS[fname]
    label = "%s(%s%s)" % (fname, how, name if len(name) < 30 else name[:12] + "...[%d]" % len(name))
    if not isinstance(res, str):
        fail("%s returned %r, not a string" % (label, res))
        return
    if not res or res[0] not in NATURAL or any(c not in "#b" for c in res[1:]):
        fail("%s returned invalid name %r" % (label, res))
        return
    if not notes.is_valid_note(res):
        fail("%s result %r refused by is_valid_note" % (label, res))
    want_letter = LETTERS[(LETTERS.index(name[0]) + steps) % 7]
    if res[0] != want_letter:
        fail("%s -> %r, wrong letter (want %s)" % (label, res, want_letter))
    if "#" in res and "b" in res:
        fail("%s -> %r mixes sharps and flats" % (label, res))
    if len(res) - 1 > 6:
        fail("%s -> %r carries more than six accidentals" % (label, res))
    if (pc(res) - pc(name)) % 12 != semis:
        fail("%s -> %r is %d semitones up, want %d" % (label, res, (pc(res) - pc(name)) % 12, semis))


def main():
    all_names = names()
    cases = 0
    for rnd in range(2):  # twice: repeated calls must give the same kind of answer
        for name in all_names:
            for fname in CONSTRUCTORS:
                f = getattr(intervals, fname)
                check_result(fname, name, f(name), "")
                cases += 1
    # keyword form, on a subset
    for name in all_names[::7]:
        for fname in CONSTRUCTORS:
            check_result(fname, name, getattr(intervals, fname)(note=name), "note=")
            cases += 1
    # the input is not changed (strings are immutable, but it must stay valid too)
    for name in all_names:
        if not notes.is_valid_note(name):
            fail("is_valid_note refuses %r" % name[:20])

    # measure and consonance over ordered pairs
    short = [n for n in all_names if len(n) <= 3] + ["C" + "#" * 1000, "Bb" + "b" * 999,
                                                     "F" + "#b" * 500, "G#######", "Abbbbbbbbbbbbb"]
    pairs = 0
    for i, a in enumerate(short):
        for j, b in enumerate(short):
            if (i * 31 + j * 17) % 5 not in (0, 3) and len(a) + len(b) > 4:
                continue
            pairs += 1
            want = (pc(b) - pc(a)) % 12
            m = intervals.measure(a, b)
            if type(m) is not int or m != want:
                fail("measure(%r, %r) = %r, want %d" % (a[:12], b[:12], m, want))
                continue
            if (notes.note_to_int(b) - notes.note_to_int(a)) % 12 != m:
                fail("measure(%r, %r) disagrees with note_to_int" % (a[:12], b[:12]))
            checks = [
                ("is_perfect_consonant", intervals.is_perfect_consonant(a, b), want in (0, 5, 7)),
                ("is_perfect_consonant/True", intervals.is_perfect_consonant(a, b, True), want in (0, 5, 7)),
                ("is_perfect_consonant/False", intervals.is_perfect_consonant(a, b, False), want in (0, 7)),
                ("is_perfect_consonant/kw", intervals.is_perfect_consonant(note1=a, note2=b, include_fourths=False), want in (0, 7)),
                ("is_imperfect_consonant", intervals.is_imperfect_consonant(a, b), want in (3, 4, 8, 9)),
                ("is_consonant", intervals.is_consonant(a, b), want in (0, 3, 4, 5, 7, 8, 9)),
                ("is_consonant/False", intervals.is_consonant(a, b, False), want in (0, 3, 4, 7, 8, 9)),
                ("is_consonant/kw", intervals.is_consonant(a, b, include_fourths=True), want in (0, 3, 4, 5, 7, 8, 9)),
                ("is_dissonant", intervals.is_dissonant(a, b), want not in (0, 3, 4, 5, 7, 8, 9)),
                ("is_dissonant/True", intervals.is_dissonant(a, b, True), want not in (0, 3, 4, 7, 8, 9)),
                ("is_dissonant/False", intervals.is_dissonant(a, b, False), want not in (0, 3, 4, 5, 7, 8, 9)),
            ]
            for label, got, exp in checks:
                if bool(got) != exp or got not in (True, False):
                    fail("%s(%r, %r) = %r, want %r (measure %d)" % (label, a[:12], b[:12], got, exp, want))
            if m != intervals.measure(note1=a, note2=b):
                fail("measure keyword form differs for %r, %r" % (a[:12], b[:12]))

    # a handful of textbook values the statement implies uniquely
    textbook = [
        ("minor_third", "C", "Eb"), ("major_third", "C", "E"), ("minor_seventh", "Cb", "Bbb"),
        ("major_seventh", "C", "B"), ("perfect_fifth", "B", "F#"), ("perfect_fourth", "F", "Bb"),
        ("minor_second", "E", "F"), ("major_second", "E", "F#"), ("minor_sixth", "A", "F"),
        ("major_sixth", "Db", "Bb"), ("minor_fifth", "C", "Gb"), ("augmented_unison", "C", "C#"),
        ("minor_unison", "C", "Cb"), ("major_unison", "G##", "G##"), ("minor_fourth", "C", "Fb"),
    ]
    for fname, src, want in textbook:
        got = getattr(intervals, fname)(src)
        if got != want:
            fail("%s(%r) = %r, want %r" % (fname, src, got, want))

    if failures:
        report()
    print("ok: %d constructor cases, %d pairs" % (cases, pairs))
    sys.exit(0)


main()
