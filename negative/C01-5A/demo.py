import mingus, os; assert os.path.realpath(mingus.__file__).startswith(os.path.realpath(os.path.dirname(__file__)))
"""Direct check of property C01 (note names and pitch classes agree for every
spelling) through the public API of mingus.core.notes.

Exit status 0 when the statement holds on all cases below, 1 with a message
otherwise.
"""
import itertools
import random
import sys

from mingus.core import notes
from mingus.core.mt_exceptions import FormatError, NoteFormatError, RangeError

NATURAL = {"C": 0, "D": 2, "E": 4, "F": 5, "G": 7, "A": 9, "B": 11}
SHARP_STYLE = set(NATURAL) | set(l + "#" for l in NATURAL)
FLAT_STYLE = set(NATURAL) | set(l + "b" for l in NATURAL)

problems = []
checked = [0]


def expect(cond, msg):
    checked[0] += 1
    if not cond:
        problems.append(msg)
        if len(problems) > 25:
            finish()


def finish():
    if problems:
        print("C01 does NOT hold (%d problems, %d checks):" % (len(problems), checked[0]))
        for p in problems[:25]:
            print("  - " + p)
        sys.exit(1)
    print("C01 holds on %d checks" % checked[0])
    sys.exit(0)


def model_pc(name):
    return (NATURAL[name[0]] + name.count("#") - name.count("b")) % 12


def raises(exc, func, *args, **kwargs):
    try:
        func(*args, **kwargs)
    except exc:
        return True
    except Exception as e:  # wrong class
        return "raised %s: %s" % (type(e).__name__, e)
    return "returned normally"


def check_name(name):
    letter = name[0]
    net = name.count("#") - name.count("b")
    pc = model_pc(name)
    short = name if len(name) < 40 else name[:37] + "..."

    expect(notes.is_valid_note(name) is True, "is_valid_note(%r) is not True" % short)
    got = notes.note_to_int(name)
    expect(got == pc and isinstance(got, int), "note_to_int(%r) = %r, want %r" % (short, got, pc))

    up = notes.augment(name)
    expect(up[0] == letter, "augment(%r) changed the letter: %r" % (short, up[:20]))
    expect(notes.note_to_int(up) == (pc + 1) % 12, "augment(%r) does not move the pitch class by +1" % short)
    down = notes.diminish(name)
    expect(down[0] == letter, "diminish(%r) changed the letter: %r" % (short, down[:20]))
    expect(notes.note_to_int(down) == (pc - 1) % 12, "diminish(%r) does not move the pitch class by -1" % short)

    rr = notes.remove_redundant_accidentals(name)
    want = letter + ("#" * net if net > 0 else "b" * (-net))
    expect(rr == want, "remove_redundant_accidentals(%r) = %r, want %r" % (short, rr[:40], want[:40]))
    expect(notes.note_to_int(rr) == pc, "remove_redundant_accidentals(%r) changed the pitch class" % short)

    red = notes.reduce_accidentals(name)
    expect(notes.is_valid_note(red) and notes.note_to_int(red) == pc,
           "reduce_accidentals(%r) = %r has another pitch class" % (short, red))
    expect(len(red) <= 2, "reduce_accidentals(%r) = %r keeps more than one accidental" % (short, red))
    if net > 0:
        expect(red in SHARP_STYLE, "reduce_accidentals(%r) = %r: net raise must not give a flat" % (short, red))
    elif net < 0:
        expect(red in FLAT_STYLE, "reduce_accidentals(%r) = %r: net lowering must not give a sharp" % (short, red))
    else:
        expect(red == letter, "reduce_accidentals(%r) = %r, want the bare letter" % (short, red))


# 1. every spelling with up to 6 accidentals, all orderings (7 * 127 names)
all_names = []
for letter in "CDEFGAB":
    for k in range(7):
        for acc in itertools.product("#b", repeat=k):
            all_names.append(letter + "".join(acc))
for name in all_names:
    check_name(name)

# 2. long and very long spellings, random orderings
rng = random.Random(20260928)
for letter in "CDEFGAB":
    for length in (11, 12, 13, 24, 97, 400):
        check_name(letter + "".join(rng.choice("#b") for _ in range(length)))
    check_name(letter + "#" * 3000)
    check_name(letter + "b" * 3001)
    check_name(letter + "#b" * 2500 + "#")
check_name("B" + "b" * 50000 + "#" * 49999)

# 3. same names again after many distinct inputs (any internal state must not matter)
for name in all_names[:200] + all_names[-50:]:
    expect(notes.note_to_int(name) == model_pc(name), "second call note_to_int(%r) differs" % name)
    expect(notes.note_to_int(note=name) == model_pc(name), "keyword call note_to_int(note=%r) differs" % name)


class MyStr(str):
    pass


expect(notes.note_to_int(MyStr("Db")) == 1 and notes.note_to_int(MyStr("D#")) == 3, "str subclass mishandled")

# 4. number -> name -> number, both styles, positional and keyword arguments
for pc in range(12):
    s = notes.int_to_note(pc)
    expect(s in SHARP_STYLE and notes.note_to_int(s) == pc, "int_to_note(%d) = %r" % (pc, s))
    expect(notes.int_to_note(pc, "#") == s and notes.int_to_note(note_int=pc, accidentals="#") == s,
           "int_to_note(%d, '#') inconsistent with the default style" % pc)
    f = notes.int_to_note(pc, "b")
    expect(f in FLAT_STYLE and notes.note_to_int(f) == pc, "int_to_note(%d, 'b') = %r" % (pc, f))
    expect(notes.int_to_note(accidentals="b", note_int=pc) == f, "keyword int_to_note(%d, 'b') differs" % pc)
    expect(isinstance(s, str) and isinstance(f, str), "int_to_note(%d) does not return str" % pc)

# 5. enharmonic exactly when the pitch classes are equal
small = [n for n in all_names if len(n) <= 3]
for a in small:
    for b in small[::3]:
        expect(bool(notes.is_enharmonic(a, b)) == (model_pc(a) == model_pc(b)),
               "is_enharmonic(%r, %r) = %r" % (a, b, notes.is_enharmonic(a, b)))
expect(bool(notes.is_enharmonic("C" + "#" * 1200, "C")) is True, "is_enharmonic long name")
expect(bool(notes.is_enharmonic(note1="E#", note2="Gbb")) is True, "is_enharmonic keywords")
expect(bool(notes.is_enharmonic("E#", "Gb")) is False, "is_enharmonic E# Gb")

# 6. malformed non-empty strings
malformed = [
    "c", "d", "h", "H", "I", "Z", "asdasd", "C###f", "E*", "C#x", "Cx#", "Cb ", " C", " C#", "C #",
    "C\n", "C#\n", "\nC", "C\r", "C\t#", "C{", "C{}", "{}", "{0}", "C%s", "C%", "%d", "%(x)s", "C%r",
    u"Ｃ", u"Ｃ#", u"É", u"C♯", u"C♭", u"D♭", u"C#é", u"С",
    "Cbb-", "C-4", "C#-4", "C4", "C#4", "CC", "Cc", "C#B", "CB", "Cbbbbbbbbbbbbbbbbbbbbbbbbbbbbbb3",
    "1", "0", "#", "b", "bb", "b#", "##", "#C", "bC", "C\x00", "C##\x00", "\x00", "Do", "do", "Re",
    "C#" + "x" * 1000, "C" + "#" * 1000 + "x", "x" + "#" * 1000, "C#/E", "C,", "C'", "C''", "C.", "Cis",
    "Bes", "Cm", "Cmaj7", "C##bB", "A#b#b#b#b#b!", "G#b#B", "F##b#bb ", "-", "C--", "c#", "cb", "bB",
]
for round_no in (1, 2):  # refused calls repeated
    for bad in malformed:
        short = bad if len(bad) < 40 else bad[:37] + "..."
        v = notes.is_valid_note(bad)
        expect(v is False, "is_valid_note(%r) = %r, want False" % (short, v))
        r = raises(NoteFormatError, notes.note_to_int, bad)
        expect(r is True, "note_to_int(%r) %s, want NoteFormatError" % (short, r))
        r = raises(NoteFormatError, notes.reduce_accidentals, bad)
        expect(r is True, "reduce_accidentals(%r) %s, want NoteFormatError" % (short, r))
    r = raises(NoteFormatError, notes.note_to_int, note="C#?")
    expect(r is True, "note_to_int(note='C#?') %s" % r)
# good names unaffected by the refused calls
for name in all_names[::5]:
    expect(notes.note_to_int(name) == model_pc(name), "note_to_int(%r) wrong after refused calls" % name)

# 7. integers outside 0-11 and unknown accidental styles
for n in [-1, 12, 13, -12, -11, 24, 100, -100, 123123, -123, 2 ** 31, -2 ** 63, 10 ** 30, -10 ** 30,
          10 ** 5000, -10 ** 5000]:
    shown = n if abs(n) < 10 ** 31 else "huge"
    for args, kwargs in (((n,), {}), ((n, "#"), {}), ((n, "b"), {}), ((), {"note_int": n, "accidentals": "b"})):
        r = raises(RangeError, notes.int_to_note, *args, **kwargs)
        expect(r is True, "int_to_note(%s) %s, want RangeError" % (shown, r))
    r = raises((RangeError, FormatError), notes.int_to_note, n, "x")
    expect(r is True, "int_to_note(%s, 'x') %s, want RangeError/FormatError" % (shown, r))
for style in ["x", "", "##", "bb", "#b", "B", "sharp", "flat", " #", "#\n", "%s", "{", "{}", "%", u"♯"]:
    for pc in (0, 1, 6, 11):
        r = raises(FormatError, notes.int_to_note, pc, style)
        expect(r is True, "int_to_note(%d, %r) %s, want FormatError" % (pc, style, r))
        r = raises(FormatError, notes.int_to_note, note_int=pc, accidentals=style)
        expect(r is True, "int_to_note(note_int=%d, accidentals=%r) %s, want FormatError" % (pc, style, r))
for pc in range(12):  # still fine after refusals
    expect(notes.note_to_int(notes.int_to_note(pc, "b")) == pc, "round trip after refusals %d" % pc)

finish()
