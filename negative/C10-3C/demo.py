import mingus, os; assert os.path.realpath(mingus.__file__).startswith(os.path.realpath(os.path.dirname(__file__)))

import ast
import copy
import itertools
import operator
import random
import sys
from fractions import Fraction

from mingus.containers.note import Note

NATURAL = {"C": 0, "D": 2, "E": 4, "F": 5, "G": 7, "A": 9, "B": 11}
ACCIDENTALS = ["", "#", "##", "b", "bb"]
NAMES = [l + a for l in "CDEFGAB" for a in ACCIDENTALS]
OCTAVES = range(10)
failures = []
checked = [0]


def check(cond, msg):
    checked[0] += 1
    if not cond:
        failures.append(msg)
        if len(failures) > 20:
            finish()


def finish():
    if failures:
        print("PROPERTY C10 VIOLATED (%d failures, first ones):" % len(failures))
        for f in failures[:20]:
            print("  -", f)
        sys.exit(1)
    print("C10 holds on %d checks" % checked[0])
    sys.exit(0)


def expected(name, octave):
    return 12 * octave + NATURAL[name[0]] + name.count("#") - name.count("b")


def refused(fn, *args, **kwargs):
    try:
        fn(*args, **kwargs)
    except Exception:
        return True
    return False


# 1. integer value, and every way of setting a note reproduces the pitch
for name in NAMES:
    for octave in OCTAVES:
        want = expected(name, octave)
        n = Note(name, octave)
        check(int(n) == want, "int(Note(%r, %d)) = %r, want %d" % (name, octave, int(n), want))
        check(n.name == name and n.octave == octave, "Note(%r, %d) stored as %r/%r" % (name, octave, n.name, n.octave))
        text = "%s-%d" % (name, octave)
        forms = {
            "keyword": Note(name=name, octave=octave),
            "text": Note(text),
            "set_note": Note().set_note(name, octave),
            "set_note text": Note("E", 7).set_note(text),
            "set_note kw": Note().set_note(name=name, octave=octave),
            "printed": Note(ast.literal_eval(repr(n))),
            "str": Note(ast.literal_eval(str(n))),
            "other note": Note(n),
            "set from other": Note().set_note(n.name, n.octave),
        }
        for how, m in forms.items():
            check(int(m) == want, "%s form of %s has pitch %r, want %d" % (how, text, int(m), want))
            check(m == n and not (m != n), "%s form of %s does not equal the note" % (how, text))
        if 0 <= want <= 127:
            k = Note(want)
            check(int(k) == want and k == n, "Note(%d) does not equal %s" % (want, text))

# 2. all integers 0..127
for i in range(128):
    a = Note(i)
    b = Note("G", 2).from_int(i)
    check(int(a) == i, "int(Note(%d)) = %r" % (i, int(a)))
    check(int(b) == i, "int(from_int(%d)) = %r" % (i, int(b)))
    check(b.octave == i // 12, "from_int(%d) octave %r" % (i, b.octave))
    check(int(Note(ast.literal_eval(repr(a)))) == i, "printed form of Note(%d) does not read back" % i)
    check(int(Note(a)) == i, "copy of Note(%d) differs" % i)

# 3. comparisons agree with the integers: all ordered pairs of a block + random pairs
OPS = [operator.lt, operator.le, operator.eq, operator.ne, operator.ge, operator.gt]
block = [Note(nm, o) for nm in NAMES for o in (3, 4, 5)]
rnd = random.Random(10)
everything = [Note(nm, o) for nm in NAMES for o in OCTAVES]
pairs = list(itertools.product(block, repeat=2))
pairs += [(rnd.choice(everything), rnd.choice(everything)) for _ in range(3000)]
for x, y in pairs:
    ix, iy = int(x), int(y)
    for op in OPS:
        got = op(x, y)
        if got is not op(ix, iy) and got != op(ix, iy):
            check(False, "%r %s %r gave %r" % (x, op.__name__, y, got))
    checked[0] += 1
check(Note("C#", 4) == Note("Db", 4), "C#-4 != Db-4")
check(Note("B#", 3) == Note("C", 4), "B#-3 != C-4")
check(Note("Cb", 4) == Note("B", 3), "Cb-4 != B-3")
check(Note("E##", 2) == Note("Gb", 2), "E##-2 != Gb-2")
shuffled = list(everything)
rnd.shuffle(shuffled)
ordered = sorted(shuffled)
check(all(int(p) <= int(q) for p, q in zip(ordered, ordered[1:])), "sorted() is not by pitch")
check(sorted(int(p) for p in shuffled) == [int(p) for p in ordered], "sorted() lost notes")
check(int(max(shuffled)) == max(int(p) for p in shuffled), "max() wrong")
check(int(min(shuffled)) == min(int(p) for p in shuffled), "min() wrong")


# 4. Hz
def close(a, b):
    return abs(a - b) <= 1e-9 * abs(b)


PITCHES = [440, 415, 432, 442.5, 466.16, 392.0, Fraction(4401, 10), 1, 1000]
check(close(Note("A", 4).to_hertz(), 440.0), "A-4 default is %r" % Note("A", 4).to_hertz())
for sp in PITCHES:
    check(close(Note("A", 4).to_hertz(sp), float(sp)), "A-4 at %r is %r" % (sp, Note("A", 4).to_hertz(sp)))
    check(close(Note("A", 4).to_hertz(standard_pitch=sp), float(sp)), "A-4 at kw %r" % (sp,))
    for i in range(128):
        hz = Note(i).to_hertz(sp)
        if i + 12 < 128:
            check(close(Note(i + 12).to_hertz(sp), 2 * hz), "octave above %d at %r is not double" % (i, sp))
        check(close(hz, float(sp) * 2.0 ** ((i - 57) / 12.0)), "to_hertz(%d, %r) = %r" % (i, sp, hz))
        for cents in (-40, -17, 0, 23, 40):
            back = Note("F#", 1).from_hertz(hz * 2.0 ** (cents / 1200.0), sp)
            check(int(back) == i, "note %d at %r detuned %d cents came back as %r" % (i, sp, cents, back))
for i in range(128):
    back = Note().from_hertz(Note(i).to_hertz())
    check(int(back) == i, "default pitch round trip of %d gave %r" % (i, back))
    back = Note().from_hertz(hertz=Note(i).to_hertz(standard_pitch=430), standard_pitch=430)
    check(int(back) == i, "keyword round trip of %d gave %r" % (i, back))
for name in NAMES:
    for octave in OCTAVES:
        n = Note(name, octave)
        if 0 <= int(n) <= 127:
            check(int(Note().from_hertz(n.to_hertz(443), 443)) == int(n), "round trip of %r" % n)

# 5. Helmholtz shorthand
for name in NAMES:
    for octave in OCTAVES:
        n = Note(name, octave)
        sh = n.to_shorthand()
        m = Note("G", 6).from_shorthand(sh)
        check(m.name == name and m.octave == octave, "%r -> %r -> %r" % (n, sh, m))
check(Note("C", 0).to_shorthand() == "C,,", "C-0 shorthand")
check(Note("C", 4).to_shorthand() == "c'", "C-4 shorthand")

# 6. refusals
for v in (-1, -2, -128, 128, 129, 200, 1000, -1000):
    check(refused(Note, "C", 4, velocity=v), "velocity %d accepted by Note(velocity=)" % v)
    check(refused(Note, "C", 4, {"velocity": v}), "velocity %d accepted by dynamics" % v)
    check(refused(Note().set_velocity, v), "velocity %d accepted by set_velocity" % v)
    check(refused(Note().set_note, "C", 4, velocity=v), "velocity %d accepted by set_note" % v)
    check(refused(Note().set_note, "C", 4, {"velocity": v}), "velocity %d accepted by set_note dynamics" % v)
for v in (0, 1, 64, 126, 127):
    check(Note("C", 4, velocity=v).velocity == v, "velocity %d not kept" % v)
    check(Note("C", 4, {"velocity": v}).velocity == v, "dynamics velocity %d not kept" % v)
    n = Note()
    n.set_velocity(v)
    check(n.velocity == v, "set_velocity(%d)" % v)
    check(Note().set_note("D", 3, velocity=v).velocity == v, "set_note velocity %d" % v)
for c in (-1, -2, -16, 16, 17, 100, -100):
    check(refused(Note, "C", 4, channel=c), "channel %d accepted by Note(channel=)" % c)
    check(refused(Note, "C", 4, {"channel": c}), "channel %d accepted by dynamics" % c)
    check(refused(Note().set_channel, c), "channel %d accepted by set_channel" % c)
    check(refused(Note().set_note, "C", 4, channel=c), "channel %d accepted by set_note" % c)
    check(refused(Note().set_note, "C", 4, {"channel": c}), "channel %d accepted by set_note dynamics" % c)
for c in (0, 1, 8, 14, 15):
    check(Note("C", 4, channel=c).channel == c, "channel %d not kept" % c)
    check(Note("C", 4, {"channel": c}).channel == c, "dynamics channel %d not kept" % c)
    n = Note()
    n.set_channel(c)
    check(n.channel == c, "set_channel(%d)" % c)
    check(Note().set_note("D", 3, channel=c).channel == c, "set_note channel %d" % c)
MALFORMED = ["H", "C 23", "C# 123", "C-4-5", "C-x", "Cx", "c", "1", "C#-", "H-4", "C{", "C%", "C%s",
             "C\n", "C-4\n", "Ç", "C♯", "h#", "C-#", "C#4", "C4", "X" * 5000, "C-4.5", "C--4",
             "{C}", "%s-4", "C-+4", " C", "C "]
for bad in MALFORMED:
    for _ in range(2):
        check(refused(Note, bad), "malformed name %r accepted by Note()" % bad[:20])
        check(refused(Note().set_note, bad), "malformed name %r accepted by set_note" % bad[:20])
        check(refused(Note, bad, 4), "malformed name %r accepted with octave" % bad[:20])
        check(refused(Note, name=bad), "malformed name %r accepted as keyword" % bad[:20])
# a good name after refusals still works
check(int(Note("C", 4)) == 48, "C-4 after refusals")

# 7. copies are independent
for name, octave in [("C", 4), ("Eb", 2), ("F##", 7), ("Bbb", 0)]:
    src = Note(name, octave, velocity=90, channel=3)
    for how, dup in (("Note()", Note(src)), ("copy", copy.copy(src)), ("deepcopy", copy.deepcopy(src))):
        check(dup is not src, "%s gave the same object" % how)
        check(dup == src and dup.name == name and dup.octave == octave, "%s changed the note" % how)
        check(dup.velocity == 90 and dup.channel == 3, "%s lost dynamics" % how)
        dup.octave_up()
        dup.augment()
        dup.set_velocity(5)
        dup.set_channel(9)
        check(src.name == name and src.octave == octave and src.velocity == 90 and src.channel == 3,
              "changing the %s changed the original" % how)
        dup.set_note("G", 1)
        dup.from_int(100)
        dup.from_hertz(1000)
        check(int(src) == expected(name, octave), "changing the %s moved the original" % how)
        src.set_note("A", 5)
        check(int(dup) != int(src), "changing the original changed the %s" % how)
        src.set_note(name, octave)

finish()
