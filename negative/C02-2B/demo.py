import mingus, os; assert os.path.realpath(mingus.__file__).startswith(os.path.realpath(os.path.dirname(__file__)))
import itertools
import sys

import mingus.core.intervals as intervals
import mingus.core.notes as notes

LETTERS = "CDEFGAB"
BASE = {"C": 0, "D": 2, "E": 4, "F": 5, "G": 7, "A": 9, "B": 11}

# constructor name -> (letters up, semitones up)
CONSTRUCTORS = {
    "minor_unison": (0, 11),
    "major_unison": (0, 0),
    "augmented_unison": (0, 1),
    "minor_second": (1, 1),
    "major_second": (1, 2),
    "minor_third": (2, 3),
    "major_third": (2, 4),
    "minor_fourth": (3, 4),
    "major_fourth": (3, 5),
    "perfect_fourth": (3, 5),
    "minor_fifth": (4, 6),
    "major_fifth": (4, 7),
    "perfect_fifth": (4, 7),
    "minor_sixth": (5, 8),
    "major_sixth": (5, 9),
    "minor_seventh": (6, 10),
    "major_seventh": (6, 11),
}

failures = []


def fail(msg):
    failures.append(msg)
    if len(failures) > 20:
        report()


def report():
    for f in failures:
        print("FAIL:", f)
    sys.exit(1)


def pc(name):
    """Independent pitch class of a valid name."""
    v = BASE[name[0]]
    for ch in name[1:]:
        v += 1 if ch == "#" else -1
    return v % 12


def well_formed(name):
    if not isinstance(name, str) or not name or name[0] not in BASE:
        return False
    acc = name[1:]
    if any(ch not in "#b" for ch in acc):
        return False
    if "#" in acc and "b" in acc:
        return False
    return len(acc) <= 6


def sample_names():
    out = []
    for letter in LETTERS:
        for n in range(0, 4):
            for acc in itertools.product("#b", repeat=n):
                out.append(letter + "".join(acc))
        for n in (4, 5, 6, 7, 8, 11, 12, 13, 17, 24, 30):
            out.append(letter + "#" * n)
            out.append(letter + "b" * n)
        out.append(letter + "#b" * 9)
        out.append(letter + "b#" * 7 + "b")
        out.append(letter + "#" * 300)
        out.append(letter + "b" * 301)
        out.append(letter + "##b#bb###")
    return out


NAMES = sample_names()

# 1. named constructors
n_cases = 0
for fname, (steps, semis) in sorted(CONSTRUCTORS.items()):
    func = getattr(intervals, fname)
    for i, name in enumerate(NAMES):
        before = str(name)
        if i % 5 == 0:
            res = func(note=name)
        else:
            res = func(name)
        n_cases += 1
        if name != before:
            fail("%s mutated its input" % fname)
        if not well_formed(res):
            fail("%s(%r) -> %r is not a well formed name" % (fname, name, res))
            continue
        if not notes.is_valid_note(res):
            fail("%s(%r) -> %r is not valid for the library" % (fname, name, res))
        want_letter = LETTERS[(LETTERS.index(name[0]) + steps) % 7]
        if res[0] != want_letter:
            fail("%s(%r) -> %r, expected letter %s" % (fname, name, res, want_letter))
        if (pc(res) - pc(name)) % 12 != semis:
            fail(
                "%s(%r) -> %r is %d semitones up, expected %d"
                % (fname, name, res, (pc(res) - pc(name)) % 12, semis)
            )
        # same call again: same quality of answer (object reuse / caches)
        res2 = func(name)
        if not well_formed(res2) or res2[0] != want_letter or (pc(res2) - pc(name)) % 12 != semis:
            fail("%s(%r) second call -> %r" % (fname, name, res2))

# a few well known spellings that follow from the statement alone
KNOWN = [
    ("minor_seventh", "Cb", "Bbb"),
    ("major_third", "B#", "D##"),
    ("minor_second", "Db", "Ebb"),
    ("major_seventh", "C", "B"),
    ("perfect_fifth", "B", "F#"),
    ("perfect_fourth", "F", "Bb"),
    ("minor_fifth", "B", "F"),
    ("augmented_unison", "Cb", "C"),
    ("minor_unison", "C#", "C"),
    ("major_sixth", "Eb", "C"),
    ("minor_fourth", "C", "Fb"),
]
for fname, name, want in KNOWN:
    got = getattr(intervals, fname)(name)
    n_cases += 1
    if got != want:
        fail("%s(%r) -> %r, expected %r" % (fname, name, got, want))

# 2. measure and consonance predicates over ordered pairs
PAIR_NAMES = []
for letter in LETTERS:
    for acc in ("", "#", "b", "##", "bb", "#b", "b#", "###", "bbbb", "#" * 13, "b" * 25, "#b#" * 5):
        PAIR_NAMES.append(letter + acc)

for a in PAIR_NAMES:
    for b in PAIR_NAMES:
        n_cases += 1
        m = intervals.measure(a, b)
        want = (pc(b) - pc(a)) % 12
        if m != want or isinstance(m, bool) or not isinstance(m, int):
            fail("measure(%r, %r) -> %r, expected %d" % (a, b, m, want))
            continue
        if intervals.measure(note1=a, note2=b) != want:
            fail("measure with keywords (%r, %r)" % (a, b))
        perf_with = want in (0, 7, 5)
        perf_without = want in (0, 7)
        imperf = want in (3, 4, 8, 9)
        checks = [
            ("is_perfect_consonant", intervals.is_perfect_consonant(a, b), perf_with),
            ("is_perfect_consonant T", intervals.is_perfect_consonant(a, b, True), perf_with),
            ("is_perfect_consonant F", intervals.is_perfect_consonant(a, b, False), perf_without),
            (
                "is_perfect_consonant kw",
                intervals.is_perfect_consonant(note1=a, note2=b, include_fourths=False),
                perf_without,
            ),
            ("is_imperfect_consonant", intervals.is_imperfect_consonant(a, b), imperf),
            ("is_consonant", intervals.is_consonant(a, b), perf_with or imperf),
            ("is_consonant T", intervals.is_consonant(a, b, True), perf_with or imperf),
            ("is_consonant F", intervals.is_consonant(a, b, False), perf_without or imperf),
            (
                "is_consonant kw",
                intervals.is_consonant(a, b, include_fourths=False),
                perf_without or imperf,
            ),
            ("is_dissonant", intervals.is_dissonant(a, b), not (perf_with or imperf)),
            ("is_dissonant F", intervals.is_dissonant(a, b, False), not (perf_with or imperf)),
            ("is_dissonant T", intervals.is_dissonant(a, b, True), not (perf_without or imperf)),
            (
                "is_dissonant kw",
                intervals.is_dissonant(note1=a, note2=b, include_fourths=True),
                not (perf_without or imperf),
            ),
        ]
        for label, got, exp in checks:
            if bool(got) != exp:
                fail("%s(%r, %r) -> %r, expected %r" % (label, a, b, got, exp))

# pitch classes of the notes module agree with the independent ones
for name in NAMES:
    if notes.note_to_int(name) != pc(name):
        fail("note_to_int(%r) -> %r, expected %d" % (name, notes.note_to_int(name), pc(name)))

if failures:
    report()
print("OK: %d cases hold" % n_cases)
sys.exit(0)
