import mingus, os; assert os.path.realpath(mingus.__file__).startswith(os.path.realpath(os.path.dirname(__file__)))

# Direct check of property C17 (MIDI write / read-back round trip) through the
# public API.  Exit status 0 when the statement holds on all cases, 1 otherwise.
import io
import random
import sys
import tempfile

from mingus.containers.bar import Bar
from mingus.containers.composition import Composition
from mingus.containers.instrument import MidiInstrument
from mingus.containers.note import Note
from mingus.containers.note_container import NoteContainer
from mingus.containers.track import Track
from mingus.core import keys as _keys
from mingus.midi import midi_file_in, midi_file_out
from mingus.midi.midi_track import MidiTrack

TMP = tempfile.mkdtemp(prefix="c17demo")
PATH = os.path.join(TMP, "x.mid")
failures = []
ncases = [0]


def fail(msg):
    failures.append(msg)
    if len(failures) > 20:
        finish()


def finish():
    try:
        if os.path.exists(PATH):
            os.remove(PATH)
        os.rmdir(TMP)
    except OSError:
        pass
    if failures:
        print("C17 FAILS (%d problems); first ones:" % len(failures))
        for f in failures[:10]:
            print("  -", f)
        sys.exit(1)
    print("C17 holds on %d cases" % ncases[0])
    sys.exit(0)


# values whose length is a whole number of ticks (288 ticks per whole note)
VALUES = [1, 2, 4, 8, 16, 32, 3, 6, 12, 24, 48, 96, 4.0 / 3, 8.0 / 3, 16.0 / 3, 9, 18, 36, 72, 144, 288]
for v in VALUES:
    assert abs(288.0 / v - round(288.0 / v)) < 1e-9
METERS = [(4, 4), (3, 4), (2, 4), (6, 8), (2, 2), (5, 4), (7, 8), (12, 8), (9, 16), (1, 1), (3, 2)]
ALL_KEYS = list(_keys.major_keys) + list(_keys.minor_keys)
assert len(ALL_KEYS) == 30
NAMES = ["C", "C#", "Db", "D", "Eb", "E", "F", "F#", "Gb", "G", "Ab", "A", "Bb", "B", "E#", "Cb", "B#", "Fb"]


def ticks(value):
    return int(round(288.0 / value))


def flatten(track):
    """[(ticks, frozenset(pitches), {pitch: (channel, velocity)})], rests merged, trailing rests dropped"""
    out = []
    for bar in track.bars:
        for entry in bar.bar:
            value, nc = entry[1], entry[2]
            t = ticks(value)
            ps = {}
            if nc is not None:
                for n in nc:
                    ps[int(n)] = (n.channel, n.velocity)
            if not ps and out and not out[-1][1]:
                out[-1] = (out[-1][0] + t, frozenset(), {})
            else:
                out.append((t, frozenset(ps), ps))
    while out and not out[-1][1]:
        out.pop()
    return out


def key_of(k):
    k = k.key if hasattr(k, "key") else k
    return k


def check_roundtrip(comp, bpm, label, uniform=True):
    ncases[0] += 1
    ok = midi_file_out.write_Composition(PATH, comp, bpm)
    if not ok:
        fail("%s: write_Composition returned %r" % (label, ok))
        return
    res = midi_file_in.MIDI_to_Composition(PATH)
    if not (isinstance(res, tuple) and len(res) == 2):
        fail("%s: reader did not return (composition, bpm)" % label)
        return
    c2, bpm2 = res
    if bpm2 != bpm:
        fail("%s: bpm %r came back as %r" % (label, bpm, bpm2))
    if len(c2.tracks) != len(comp.tracks):
        fail("%s: %d tracks written, %d read" % (label, len(comp.tracks), len(c2.tracks)))
        return
    for i, (t1, t2) in enumerate(zip(comp.tracks, c2.tracks)):
        f1, f2 = flatten(t1), flatten(t2)
        if [(a, b) for a, b, _ in f1] != [(a, b) for a, b, _ in f2]:
            fail("%s track %d: sequence differs\n     wrote %r\n     read  %r" % (label, i, [(a, sorted(b)) for a, b, _ in f1][:12], [(a, sorted(b)) for a, b, _ in f2][:12]))
            continue
        for j, (e1, e2) in enumerate(zip(f1, f2)):
            if e1[2] != e2[2]:
                fail("%s track %d entry %d: channel/velocity differ: %r vs %r" % (label, i, j, e1[2], e2[2]))
                break
        if t1.name != t2.name:
            fail("%s track %d: name %r came back as %r" % (label, i, t1.name, t2.name))
        n1 = getattr(t1.instrument, "instrument_nr", None)
        n2 = getattr(t2.instrument, "instrument_nr", None)
        # the program change is attached to the first note, so a track without
        # notes cannot carry its instrument
        if f1 and n1 != n2:
            fail("%s track %d: instrument %r came back as %r" % (label, i, n1, n2))
        if uniform and t1.bars:
            m, k = tuple(t1.bars[0].meter), key_of(t1.bars[0].key)
            mode = t1.bars[0].key.mode
            for bi, b in enumerate(t2.bars):
                if tuple(b.meter) != m:
                    fail("%s track %d bar %d: meter %r came back as %r" % (label, i, bi, m, b.meter))
                    break
                if key_of(b.key) != k or b.key.mode != mode:
                    fail("%s track %d bar %d: key %r came back as %r" % (label, i, bi, k, key_of(b.key)))
                    break


def rand_note(rng, used):
    while True:
        name = rng.choice(NAMES)
        octave = rng.randint(0, 8)
        n = Note(name, octave)
        p = int(n)
        if 0 <= p <= 115 and p not in used:
            used.add(p)
            n.velocity = rng.randint(1, 127)
            n.channel = rng.randint(0, 15)
            return n


def rand_track(rng, key, meter, nbars, rest_p=0.25, chord_p=0.4, values=None, fill=True):
    t = Track()
    values = values or VALUES
    for _ in range(nbars):
        b = Bar(key, meter)
        guard = 0
        while guard < 40:
            guard += 1
            v = rng.choice(values)
            if rng.random() < rest_p:
                content = None if rng.random() < 0.7 else NoteContainer()
            else:
                used = set()
                k = 1 if rng.random() > chord_p else rng.randint(2, 5)
                content = NoteContainer([rand_note(rng, used) for _ in range(k)])
            if not b.place_notes(content, v):
                if not fill or rng.random() < 0.3:
                    break
                continue
            if b.is_full() or (not fill and rng.random() < 0.2):
                break
        t.add_bar(b)
    return t


rng = random.Random(1717)

# 1. systematic single-note / chord / rest compositions ---------------------------------
for v in VALUES:
    for lead_rest in (False, True):
        c = Composition()
        t = Track()
        b = Bar("C", (4, 4))
        if lead_rest:
            b.place_rest(v if v >= 2 else 2)
        b.place_notes(NoteContainer([Note("C", 4, velocity=100, channel=3)]), v)
        b.place_notes(NoteContainer([Note("E", 3, velocity=1, channel=0), Note("G", 5, velocity=127, channel=15)]), max(v, 2))
        t.add_bar(b)
        c.add_track(t)
        check_roundtrip(c, 120, "value %r lead_rest=%s" % (v, lead_rest))

# every key, several meters, with name and instrument
for ki, k in enumerate(ALL_KEYS):
    meter = METERS[ki % len(METERS)]
    c = Composition()
    t = rand_track(rng, k, meter, 3)
    t.name = "key %s track" % k
    ins = MidiInstrument()
    ins.instrument_nr = (ki * 9) % 128
    t.instrument = ins
    c.add_track(t)
    check_roundtrip(c, 60 + ki, "key %s meter %r" % (k, meter))

# every instrument number at least once, pitch extremes
for nr in range(0, 128, 3):
    c = Composition()
    t = Track()
    ins = MidiInstrument()
    ins.instrument_nr = nr
    t.instrument = ins
    t.name = "i%d" % nr
    b = Bar("G", (4, 4))
    b.place_notes(NoteContainer([Note("C", 0, velocity=nr % 127 + 1, channel=nr % 16)]), 4)
    b.place_rest(8)
    b.place_rest(8)
    b.place_notes(NoteContainer([Note("G", 9, velocity=64, channel=9), Note("C", 0, velocity=5, channel=1)]), 2)
    t.add_bar(b)
    c.add_track(t)
    check_roundtrip(c, 100, "instrument %d" % nr)

# 2. random multi-track compositions ------------------------------------------------------
for case in range(160):
    c = Composition()
    ntr = rng.randint(1, 4)
    for ti in range(ntr):
        key = rng.choice(ALL_KEYS)
        meter = rng.choice(METERS)
        simple = rng.random() < 0.5
        t = rand_track(
            rng,
            key,
            meter,
            rng.randint(0 if ntr > 1 else 1, 5),
            rest_p=rng.choice([0.0, 0.2, 0.5]),
            chord_p=rng.choice([0.0, 0.4, 0.9]),
            values=[1, 2, 4, 8, 16] if simple else None,
            fill=rng.random() < 0.7,
        )
        if rng.random() < 0.7:
            t.name = "".join(rng.choice("abcdefghij KLMNOP_-0123456789") for _ in range(rng.randint(0, 30)))
        if rng.random() < 0.6:
            ins = MidiInstrument()
            ins.instrument_nr = rng.randint(0, 127)
            t.instrument = ins
        c.add_track(t)
    check_roundtrip(c, rng.randint(4, 1000), "random composition %d" % case)

# long track name (length needs a two byte variable length quantity)
c = Composition()
t = rand_track(rng, "eb", (6, 8), 2)
t.name = "n" * 300
c.add_track(t)
check_roundtrip(c, 90, "long name")

# 3. tempo, exhaustively --------------------------------------------------------------------
c = Composition()
t = Track()
b = Bar("C", (4, 4))
b.place_notes("C-4", 4)
t.add_bar(b)
c.add_track(t)
for bpm in range(4, 1001):
    ncases[0] += 1
    midi_file_out.write_Composition(PATH, c, bpm)
    got = midi_file_in.MIDI_to_Composition(PATH)[1]
    if got != bpm:
        fail("bpm %d came back as %r" % (bpm, got))

# 4. variable length quantities -----------------------------------------------------------
vals = set()
for bnd in (0, 1 << 7, 1 << 14, 1 << 21, 1 << 28):
    for d in range(-300, 301):
        if 0 <= bnd + d < (1 << 28):
            vals.add(bnd + d)
for _ in range(3000):
    vals.add(rng.randrange(1 << 28))
    vals.add(rng.randrange(1 << 15))
mt = MidiTrack()
for v in sorted(vals) + sorted(vals)[::7]:  # some values twice, in case results are cached
    ncases[0] += 1
    enc = mt.int_to_varbyte(v)
    if not isinstance(enc, bytes):
        fail("int_to_varbyte(%d) is not bytes" % v)
        continue
    rd = midi_file_in.MidiFile()
    fp = io.BytesIO(enc + b"\x00\x7f")
    got = rd.parse_varbyte_as_int(fp)
    if got != (v, len(enc)):
        fail("VLQ %d -> %r -> %r" % (v, enc, got))
        continue
    if fp.read() != b"\x00\x7f":
        fail("VLQ reader consumed wrong number of bytes for %d" % v)
    got2 = midi_file_in.MidiFile().parse_varbyte_as_int(io.BytesIO(enc), False)
    if got2 != v:
        fail("VLQ (no count) %d -> %r" % (v, got2))

# 5. things that are not MIDI files -----------------------------------------------------
midi_file_out.write_Composition(PATH, c, 120)
with open(PATH, "rb") as f:
    good = f.read()
assert good[:4] == b"MThd"
trk = good.index(b"MTrk")
bad_files = []
for tag in (b"MThx", b"RIFF", b"mthd", b"\x00\x00\x00\x00", b"MTrk", b"XXXX"):
    bad_files.append(("header tag %r" % tag, tag + good[4:]))
for tag in (b"MTrx", b"MThd", b"mtrk", b"\xff\xff\xff\xff", b"ABCD"):
    bad_files.append(("track tag %r" % tag, good[:trk] + tag + good[trk + 4 :]))
for fmt in (3, 4, 7, 255, 256, 0x7FFF, 0xFFFF):
    bad_files.append(("format %d" % fmt, good[:8] + bytes([fmt >> 8, fmt & 255]) + good[10:]))
for label, data in bad_files:
    ncases[0] += 1
    with open(PATH, "wb") as f:
        f.write(data)
    try:
        res = midi_file_in.MIDI_to_Composition(PATH)
    except Exception:
        continue
    fail("not-a-MIDI file (%s) was accepted and returned %r" % (label, res))

finish()
