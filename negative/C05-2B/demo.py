import mingus, os; assert os.path.realpath(mingus.__file__).startswith(os.path.realpath(os.path.dirname(__file__)))

"""Direct check of property C05 through the public API.

Every scale class realises its defining step pattern; scale recognition is
exact.  Exits 0 when everything holds, 1 with a message otherwise.
"""
import itertools
import random
import sys

from mingus.core import keys, scales
from mingus.core.notes import note_to_int

LETTERS = "CDEFGAB"
CASES = [0]


class Broken(Exception):
    pass


def check(cond, *what):
    CASES[0] += 1
    if not cond:
        raise Broken(" ".join(str(w) for w in what))


MAJOR = (2, 2, 1, 2, 2, 2, 1)
MINOR = (2, 1, 2, 2, 1, 2, 2)
PATTERNS = {
    scales.Ionian: MAJOR,
    scales.Dorian: (2, 1, 2, 2, 2, 1, 2),
    scales.Phrygian: (1, 2, 2, 2, 1, 2, 2),
    scales.Lydian: (2, 2, 2, 1, 2, 2, 1),
    scales.Mixolydian: (2, 2, 1, 2, 2, 1, 2),
    scales.Aeolian: MINOR,
    scales.Locrian: (1, 2, 2, 1, 2, 2, 2),
    scales.Major: MAJOR,
    scales.HarmonicMajor: (2, 2, 1, 2, 1, 3, 1),
    scales.NaturalMinor: MINOR,
    scales.HarmonicMinor: (2, 1, 2, 2, 1, 3, 1),
    scales.MelodicMinor: (2, 1, 2, 2, 2, 2, 1),
    scales.Bachian: (2, 1, 2, 2, 2, 2, 1),
    scales.MinorNeapolitan: (1, 2, 2, 2, 1, 3, 1),
    scales.Chromatic: (1,) * 12,
    scales.WholeTone: (2,) * 6,
    scales.Octatonic: (2, 1) * 4,
}
assert len(PATTERNS) == 17

FREE_TONICS = [l + a for l in LETTERS for a in ("", "#", "b", "##", "bb")]
MAJOR_TONICS = [k[0] for k in keys.keys]
MINOR_TONICS = [k[1][0].upper() + k[1][1:] for k in keys.keys]
ALL_KEYS = MAJOR_TONICS + [k[1] for k in keys.keys]


def tonics_for(cls):
    if cls in (scales.Major, scales.HarmonicMajor):
        return MAJOR_TONICS
    if cls.type == "minor":
        return MINOR_TONICS
    if cls is scales.Chromatic:
        return ALL_KEYS
    return FREE_TONICS


def steps(notes):
    return [(note_to_int(b) - note_to_int(a)) % 12 for a, b in zip(notes, notes[1:])]


def expected_descending(cls, tonic, octaves, asc):
    if cls is scales.MelodicMinor:
        return list(reversed(scales.NaturalMinor(tonic, octaves).ascending()))
    if cls is scales.MinorNeapolitan:
        nat = scales.NaturalMinor(tonic, octaves).ascending()
        second = nat[1]
        lowered = second[:-1] if second.endswith("#") else second + "b"
        return list(reversed([lowered if n == second else n for n in nat]))
    return list(reversed(asc))


def check_scale(cls, make, tonic, octaves, pattern, label):
    scale = make()
    asc = scale.ascending()
    desc = scale.descending()
    check(isinstance(asc, list) and isinstance(desc, list), label, "lists expected")
    shown_tonic = tonic[0].upper() + tonic[1:]
    # ascends through the pattern, n times
    check(steps(asc) == list(pattern) * octaves, label, "ascending steps", steps(asc), asc)
    check(asc[0] == shown_tonic and asc[-1] == shown_tonic, label, "tonic at both ends", asc)
    check(scale.tonic == shown_tonic, label, "tonic attribute", scale.tonic)
    if len(pattern) == 7:
        start = LETTERS.index(shown_tonic[0])
        letters = [LETTERS[(start + i) % 7] for i in range(7 * octaves + 1)]
        check([n[0] for n in asc] == letters, label, "consecutive letters", asc)
    # descending form
    if cls is scales.Chromatic:
        # same pitches in reverse (the statement's general rule is about the note list;
        # the chromatic scale is allowed its own flat spelling on the way down)
        check(steps(list(reversed(desc))) == list(pattern) * octaves, label, "descending steps", desc)
        check(desc[0] == shown_tonic and desc[-1] == shown_tonic, label, "desc tonic", desc)
        check(
            [note_to_int(n) for n in desc] == [note_to_int(n) for n in reversed(asc)],
            label,
            "descending pitches",
            desc,
        )
    else:
        exp = expected_descending(cls, tonic, octaves, asc)
        check(desc == exp, label, "descending", desc, "expected", exp)
    # degree lookup agrees with both lists
    for d in range(1, len(asc)):
        check(scale.degree(d) == asc[d - 1], label, "degree", d, "a")
        check(scale.degree(d, "a") == asc[d - 1], label, "degree", d, "a")
        check(scale.degree(d, "d") == desc[len(desc) - d], label, "degree", d, "d")
    check(scale.degree(degree_number=1, direction="d") == shown_tonic, label, "first degree down")
    # length and equality follow the note lists
    check(len(scale) == len(asc) == len(pattern) * octaves + 1, label, "len", len(scale))
    twin = make()
    check(scale == twin and not (scale != twin), label, "equal to its twin")
    # the object can be asked again and again, and callers own their lists
    asc.append("X")
    desc[0] = "Y"
    check(scale.ascending() == asc[:-1], label, "second call")
    check(scale.descending()[1:] == desc[1:], label, "second call (descending)")
    return scale


def main():
    made = []
    for cls, pattern in PATTERNS.items():
        for tonic in tonics_for(cls):
            for octaves in (1, 2, 3, 5):
                if octaves == 5 and tonic not in ("C", "F#", "Bb", "Eb", "d#", "a"):
                    continue
                label = "%s(%r, %d)" % (cls.__name__, tonic, octaves)
                if octaves == 1:
                    make = lambda: cls(tonic)
                elif octaves == 2:
                    make = lambda: cls(tonic, 2)
                else:
                    make = lambda: cls(tonic, octaves=octaves)
                s = check_scale(cls, make, tonic, octaves, pattern, label)
                if octaves <= 2 and tonic in ("C", "A", "E", "Bb", "F#", "Eb"):
                    made.append(s)

    # a long one
    long = scales.Dorian("D", 200)
    check(steps(long.ascending()) == list(PATTERNS[scales.Dorian]) * 200, "Dorian x200")
    check(long.descending() == long.ascending()[::-1], "Dorian x200 descending")
    check(long.degree(1400) == "C" and len(long) == 1401, "Dorian x200 degree")

    # Diatonic: half steps where asked
    for tonic in ("C", "D", "F#", "Bb", "E", "Ab"):
        for pos in itertools.combinations(range(1, 8), 2):
            pattern = [1 if i in pos else 2 for i in range(1, 8)]
            if sum(pattern) != 12:
                continue
            for semis in (pos, list(pos)):
                for octaves in (1, 2):
                    label = "Diatonic(%r, %r, %d)" % (tonic, semis, octaves)
                    check_scale(
                        scales.Diatonic,
                        lambda: scales.Diatonic(tonic, semis, octaves),
                        tonic,
                        octaves,
                        pattern,
                        label,
                    )

    # equality follows the note lists, across classes too
    for a, b in itertools.product(made, made):
        same = a.ascending() == b.ascending() and a.descending() == b.descending()
        check((a == b) == same, "eq", a.name, b.name)
        check((a != b) == (not same), "ne", a.name, b.name)
    check(scales.Major("Bb") == scales.Ionian("Bb"), "Major == Ionian")
    check(scales.NaturalMinor("E") == scales.Aeolian("E"), "NaturalMinor == Aeolian")
    check(scales.MelodicMinor("A") != scales.Bachian("A"), "MelodicMinor != Bachian")
    check(scales.Major("C") != scales.Major("C", 2), "octaves matter")

    # recognition against a brute-force specification
    families = [c for c in PATTERNS if c.type in ("major", "minor")]
    check(len(families) == 7, "seven major- and minor-family scales")
    table = []
    for (maj, mnr), tonic_minor in zip(keys.keys, MINOR_TONICS):
        for cls in families:
            s = cls(maj if cls.type == "major" else tonic_minor)
            table.append((s.name, set(s.ascending()), set(s.descending())))
    check(len(set(t[0] for t in table)) == 15 * 7, "distinct names")

    def spec(ns):
        ns = set(ns)
        return sorted(name for name, up, down in table if ns <= up or ns <= down)

    rnd = random.Random(2005)
    pool = [l + a for l in LETTERS for a in ("", "#", "b")]
    queries = [[], ["C"], ["A", "Bb", "E", "F#", "G"], ["C", "D", "E", "F", "G", "A", "B"], ["E#"], ["Fb", "Cb"]]
    for name, up, down in table:
        queries.append(sorted(up))
        queries.append(sorted(down))
        queries.append(rnd.sample(sorted(up), rnd.randint(1, 6)))
        queries.append(rnd.sample(sorted(down), rnd.randint(1, 6)))
    for i in range(150):
        queries.append(rnd.sample(pool, rnd.randint(1, 7)))
    for i in range(20):
        queries.append(rnd.sample(pool, 3) + ["C##", "B#", "Dbb"][i % 3 : i % 3 + 1])
    for i, q in enumerate(queries):
        forms = [list(q)]
        if i % 3 == 0:
            forms += [tuple(q), set(q), iter(list(q)), list(q) + list(q)]
        for form in forms:
            got = scales.determine(form)
            check(isinstance(got, list), "determine returns a list", q)
            check(sorted(got) == spec(q), "determine(%r)" % (q,), sorted(got), "expected", spec(q))
    check(
        sorted(scales.determine(notes=["A", "Bb", "E", "F#", "G"]))
        == sorted(["G melodic minor", "G Bachian", "D harmonic major"]),
        "documented example",
    )


if __name__ == "__main__":
    try:
        main()
    except Broken as e:
        print("C05 violated:", e)
        sys.exit(1)
    print("C05 holds on %d checks" % CASES[0])
    sys.exit(0)
