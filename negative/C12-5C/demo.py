import mingus, os; assert os.path.realpath(mingus.__file__).startswith(os.path.realpath(os.path.dirname(__file__)))
# Direct check of property C12 (NoteContainer is a pitch-ordered, duplicate-free
# set under any history) through the public API only.
import itertools
import random
import sys

from mingus.containers.note import Note
from mingus.containers.note_container import NoteContainer
from mingus.core import chords, intervals, progressions

BASE = {"C": 0, "D": 2, "E": 4, "F": 5, "G": 7, "A": 9, "B": 11}
CASES = [0]


def fail(msg):
    print("C12 VIOLATED: %s" % msg)
    sys.exit(1)


def pitch(name, octave):
    return octave * 12 + BASE[name[0]] + name[1:].count("#") - name[1:].count("b")


# ---------------------------------------------------------------- set model
class Model(object):
    """pitch -> (name, octave); the first note to claim a pitch keeps it."""

    def __init__(self):
        self.d = {}

    def top(self):
        return max(self.d)

    def add(self, name, octave):
        self.d.setdefault(pitch(name, octave), (name, octave))

    def add_bare(self, name):
        if not self.d:
            self.add(name, 4)
            return
        top = self.top()
        p0 = pitch(name, 0)
        target = top + (p0 - top) % 12
        assert top <= target < top + 12
        self.add(name, (target - p0) // 12)

    def add_string(self, s):
        if "-" in s:
            n, o = s.split("-")
            self.add(n, int(o))
        else:
            self.add_bare(s)

    def remove_name(self, name, octave=None):
        for p, (n, o) in list(self.d.items()):
            if n == name and (octave is None or o == octave):
                del self.d[p]

    def remove_pitch(self, p):
        self.d.pop(p, None)

    def remove_item(self, item):
        if isinstance(item, str):
            self.remove_name(item)
        else:
            self.remove_pitch(pitch(*item))

    def pitches(self):
        return sorted(self.d)

    def names(self):
        res = []
        for p in self.pitches():
            if self.d[p][0] not in res:
                res.append(self.d[p][0])
        return res


PAIRWISE = [
    ("is_consonant", intervals.is_consonant, (), ()),
    ("is_consonant", intervals.is_consonant, (False,), (False,)),
    ("is_consonant", intervals.is_consonant, (True,), (True,)),
    ("is_perfect_consonant", intervals.is_perfect_consonant, (), ()),
    ("is_perfect_consonant", intervals.is_perfect_consonant, (False,), (False,)),
    ("is_imperfect_consonant", intervals.is_imperfect_consonant, (), ()),
]


def check(nc, m, ctx):
    CASES[0] += 1
    got = [int(n) for n in nc.notes]
    want = m.pitches()
    if got != want:
        fail("%s: pitches %r, model %r (container %r)" % (ctx, got, want, nc))
    for a, b in zip(got, got[1:]):
        if not a < b:
            fail("%s: not strictly ascending: %r" % (ctx, nc))
    for n in nc.notes:
        if (n.name, n.octave) != m.d[int(n)]:
            fail("%s: note %r, model has %r" % (ctx, n, m.d[int(n)]))
    if [int(n) for n in nc] != want or [int(nc[i]) for i in range(len(want))] != want:
        fail("%s: iteration/indexing disagree with content" % ctx)
    if len(nc) != len(want):
        fail("%s: len %d, model %d" % (ctx, len(nc), len(want)))
    # membership
    lo = (min(want) if want else 48) - 2
    hi = (max(want) if want else 48) + 3
    for p in range(lo, hi):
        if p < 0:
            continue
        probe = Note("C", 0).from_int(p)
        if (probe in nc) != (p in m.d):
            fail("%s: membership of %r is %r" % (ctx, probe, probe in nc))
    for p, (n, o) in m.d.items():
        if Note(n, o) not in nc:
            fail("%s: %s-%d should be a member" % (ctx, n, o))
    # unique-name list
    if nc.get_note_names() != m.names():
        fail("%s: names %r, model %r" % (ctx, nc.get_note_names(), m.names()))
    # equality
    twin = NoteContainer([Note(n, o) for (n, o) in m.d.values()])
    if not (nc == twin) or not (twin == nc) or (nc != twin):
        fail("%s: not equal to a container with the same content" % ctx)
    if not nc == nc:
        fail("%s: not equal to itself" % ctx)
    other = NoteContainer([Note(n, o) for (n, o) in m.d.values()])
    other.add_note(Note("C", 0).from_int(max(want) + 1 if want else 60))
    if nc == other or other == nc:
        fail("%s: equal to a container with one more note" % ctx)
    if want:
        shifted = NoteContainer([Note(n, o) for (n, o) in m.d.values()][1:] + [Note("C", 0).from_int(max(want) + 2)])
        if len(shifted) == len(nc) and (nc == shifted or shifted == nc):
            fail("%s: equal to a container with different content" % ctx)
    if nc == None:  # noqa: E711
        fail("%s: equal to None" % ctx)
    # consonance
    ordered = [m.d[p][0] for p in want]
    pairs = list(itertools.combinations(ordered, 2))
    for meth, fn, margs, fargs in PAIRWISE:
        exp = all(bool(fn(a, b, *fargs)) for a, b in pairs)
        res = getattr(nc, meth)(*margs)
        if res is not exp and res != exp:
            fail("%s: %s%r is %r, pairwise says %r for %r" % (ctx, meth, margs, res, exp, nc))
    kw = nc.is_consonant(include_fourths=False)
    if bool(kw) != all(bool(intervals.is_consonant(a, b, False)) for a, b in pairs):
        fail("%s: is_consonant(include_fourths=False) wrong" % ctx)
    for f in (False, True):
        if bool(nc.is_dissonant(f)) != (not nc.is_consonant(not f)):
            fail("%s: is_dissonant(%r) is not the negation of is_consonant" % (ctx, f))
    if bool(nc.is_dissonant()) != (not nc.is_consonant(True)):
        fail("%s: is_dissonant() wrong" % ctx)


# ------------------------------------------------------------- the alphabet
def op_add_note_obj(name, octave):
    def run(nc, m):
        nc.add_note(Note(name, octave))
        m.add(name, octave)
    return "add_note(Note(%s,%d))" % (name, octave), run


def op_add_bare(name):
    def run(nc, m):
        nc.add_note(name)
        m.add_bare(name)
    return "add_note(%r)" % name, run


def op_add_dash(s):
    def run(nc, m):
        nc.add_note(s)
        m.add_string(s)
    return "add_note(%r)" % s, run


def op_add_name_oct(name, octave, kw=False):
    def run(nc, m):
        if kw:
            nc.add_note(note=name, octave=octave, dynamics={"velocity": 70})
        else:
            nc.add_note(name, octave)
        m.add(name, octave)
    return "add_note(%r,%d)" % (name, octave), run


def op_add_list(items, wrap=list):
    # items: str | (name, octave) -> Note | [name, octave]
    def run(nc, m):
        arg = []
        for it in items:
            if isinstance(it, tuple):
                arg.append(Note(*it))
            else:
                arg.append(it)
        if wrap == "iter":
            nc.add_notes(iter(arg))
        elif wrap == "plus":
            r = nc + arg
            if r is not nc:
                fail("'+' did not return the container")
        else:
            nc.add_notes(wrap(arg))
        for it in items:
            if isinstance(it, tuple):
                m.add(*it)
            elif isinstance(it, list):
                m.add(it[0], it[1])
            else:
                m.add_string(it)
    return "add_notes[%s](%r)" % (getattr(wrap, "__name__", wrap), items), run


def op_add_container(items, plus=False):
    def run(nc, m):
        src = NoteContainer([Note(n, o) for n, o in items])
        before = [(n.name, n.octave) for n in src.notes]
        if plus:
            nc + src
        else:
            nc.add_notes(src)
        if [(n.name, n.octave) for n in src.notes] != before:
            fail("adding a container changed the source container")
        for n, o in before:
            m.add(n, o)
    return "add_container(%r)" % (items,), run


def op_add_self(kind):
    def run(nc, m):
        if kind == "self":
            nc.add_notes(nc)
        elif kind == "own list":
            nc.add_notes(nc.notes)
        else:
            nc + nc
    return "add %s" % kind, run


def op_remove_name(name):
    def run(nc, m):
        nc.remove_note(name)
        m.remove_name(name)
    return "remove_note(%r)" % name, run


def op_remove_name_oct(name, octave, kw=False):
    def run(nc, m):
        if kw:
            nc.remove_note(note=name, octave=octave)
        else:
            nc.remove_note(name, octave)
        m.remove_name(name, octave)
    return "remove_note(%r,%d)" % (name, octave), run


def op_remove_obj(name, octave, via="remove_note"):
    def run(nc, m):
        if via == "remove_note":
            nc.remove_note(Note(name, octave))
        elif via == "remove_notes":
            nc.remove_notes(Note(name, octave))
        else:
            r = nc - Note(name, octave)
            if r is not nc:
                fail("'-' did not return the container")
        m.remove_pitch(pitch(name, octave))
    return "%s(Note(%s,%d))" % (via, name, octave), run


def op_remove_list(items, via="remove_notes"):
    def run(nc, m):
        arg = [Note(*it) if isinstance(it, tuple) else it for it in items]
        if via == "remove_notes":
            nc.remove_notes(arg)
        elif via == "tuple":
            nc.remove_notes(tuple(arg))
        elif via == "iter":
            nc.remove_notes(iter(arg))
        else:
            nc - arg
        for it in items:
            m.remove_item(it)
    return "%s(%r)" % (via, items), run


def op_remove_str(name, via="remove_notes"):
    def run(nc, m):
        if via == "remove_notes":
            nc.remove_notes(name)
        else:
            nc - name
        m.remove_name(name)
    return "%s(%r)" % (via, name), run


def op_remove_self(kind):
    def run(nc, m):
        if kind == "own list":
            nc.remove_notes(nc.notes)
        elif kind == "self":
            nc.remove_notes(nc)
        else:
            nc - nc
        m.d.clear()
    return "remove %s" % kind, run


SMALL = [
    op_add_bare("C"),
    op_add_bare("E"),
    op_add_bare("G"),
    op_add_bare("B#"),
    op_add_bare("Cb"),
    op_add_note_obj("C", 4),
    op_add_note_obj("Db", 5),
    op_add_note_obj("E", 3),
    op_add_dash("C#-5"),
    op_add_dash("G-2"),
    op_add_name_oct("E", 5),
    op_add_list(["A", "C", ("G", 3), ["E", 5]]),
    op_add_list(["E", "C"], wrap="plus"),
    op_add_container([("C", 5), ("G", 4), ("E", 3)]),
    op_remove_name("C"),
    op_remove_name("E"),
    op_remove_name_oct("E", 5),
    op_remove_name_oct("C", 4),
    op_remove_obj("C#", 5),
    op_remove_obj("D", 4, via="minus"),
    op_remove_list(["G", ("B#", 4)]),
    op_remove_str("C", via="minus"),
]

EXTRA = [
    op_add_bare("Fbb"),
    op_add_bare("A##"),
    op_add_bare("D"),
    op_add_bare("Bb"),
    op_add_bare("C" + "#" * 25),
    op_add_bare("B" + "b" * 30),
    op_add_note_obj("B", 0),
    op_add_note_obj("C", 0),
    op_add_note_obj("Cb", 1),
    op_add_note_obj("G", 9),
    op_add_note_obj("F#", 4),
    op_add_note_obj("Gb", 4),
    op_add_dash("Bb-3"),
    op_add_dash("C-0"),
    op_add_dash("D-11"),
    op_add_name_oct("A", 2),
    op_add_name_oct("F", 6, kw=True),
    op_add_name_oct("C", 0),
    op_add_list(["C", "E", "G", "B", "D"], wrap=tuple),
    op_add_list(["D", "F#", "A-2", ("C", 6)], wrap="iter"),
    op_add_list([["C", 3, {"velocity": 20}], ["E", 6, {"velocity": 20}], "G"]),
    op_add_list([], wrap=list),
    op_add_list([("C", 4), ("B#", 3), ("Dbb", 4)]),
    op_add_container([("A", 4), ("A", 5), ("A", 2)], plus=True),
    op_add_container([]),
    op_add_self("self"),
    op_add_self("own list"),
    op_add_self("plus self"),
    op_remove_name("G"),
    op_remove_name("A"),
    op_remove_name("B#"),
    op_remove_name("C#"),
    op_remove_name("Db"),
    op_remove_name("H"),
    op_remove_name_oct("A", 4),
    op_remove_name_oct("A", 5, kw=True),
    op_remove_name_oct("G", 3),
    op_remove_name_oct("C", 0),
    op_remove_obj("A", 4, via="remove_notes"),
    op_remove_obj("Gb", 4),
    op_remove_obj("B#", 3, via="minus"),
    op_remove_list(["A", "C", ("E", 5)], via="tuple"),
    op_remove_list([("C", 4), ("G", 4), "D"], via="iter"),
    op_remove_list(["E", "F#"], via="minus"),
    op_remove_list([]),
    op_remove_str("E"),
    op_remove_self("own list"),
    op_remove_self("self"),
    op_remove_self("minus self"),
]


def run_sequence(ops, every_step=False):
    nc = NoteContainer()
    m = Model()
    labels = []
    for label, run in ops:
        labels.append(label)
        run(nc, m)
        if every_step:
            check(nc, m, " ; ".join(labels))
    if not every_step:
        check(nc, m, " ; ".join(labels))


def exhaustive():
    for op in SMALL + EXTRA:
        run_sequence([op], every_step=True)
    for seq in itertools.product(SMALL + EXTRA, repeat=2):
        run_sequence(seq)
    for seq in itertools.product(SMALL, repeat=3):
        run_sequence(seq)


def randomised():
    rng = random.Random(1207)
    ops = SMALL + EXTRA
    for _ in range(150):
        run_sequence([rng.choice(ops) for _ in range(rng.randint(4, 40))], every_step=True)
    # many generated operations rather than a fixed alphabet
    names = [l + a for l in "CDEFGAB" for a in ("", "#", "b", "##", "bb")]
    for _ in range(100):
        nc, m, log = NoteContainer(), Model(), []
        for _ in range(rng.randint(5, 60)):
            name, octave = rng.choice(names), rng.randint(0, 8)
            k = rng.randint(0, 9)
            if k == 0:
                label, run = op_add_bare(name)
            elif k == 1:
                label, run = op_add_note_obj(name, octave)
            elif k == 2:
                label, run = op_add_dash("%s-%d" % (name, octave))
            elif k == 3:
                label, run = op_add_name_oct(name, octave)
            elif k == 4:
                label, run = op_add_list([rng.choice(names) for _ in range(rng.randint(0, 6))])
            elif k == 5:
                label, run = op_add_container(
                    [(rng.choice(names), rng.randint(1, 7)) for _ in range(rng.randint(0, 5))],
                    plus=rng.random() < 0.5,
                )
            elif k == 6:
                label, run = op_remove_name(name)
            elif k == 7:
                label, run = op_remove_name_oct(name, octave)
            elif k == 8:
                label, run = op_remove_obj(name, octave, via=rng.choice(["remove_note", "minus"]))
            else:
                label, run = op_remove_list(
                    [rng.choice(names) if rng.random() < 0.5 else (rng.choice(names), rng.randint(2, 6))
                     for _ in range(rng.randint(0, 4))]
                )
            log.append(label)
            run(nc, m)
        check(nc, m, " ; ".join(log))
    # a long ascending voicing and a large container
    nc, m = NoteContainer(), Model()
    cycle = ["C", "E", "G", "B", "D", "F", "A"]
    for i in range(120):
        nc.add_note(cycle[i % 7])
        m.add_bare(cycle[i % 7])
    check(nc, m, "120 bare names")
    nc.remove_note("E")
    m.remove_name("E")
    check(nc, m, "120 bare names, E removed")
    nc, m = NoteContainer(), Model()
    order = list(range(0, 600))
    rng.shuffle(order)
    for p in order:
        n = Note("C", 0).from_int(p)
        nc.add_note(Note(n.name, n.octave))
        m.add(n.name, n.octave)
    got = [int(n) for n in nc.notes]
    CASES[0] += 1
    if got != list(range(600)) or len(nc) != 600:
        fail("600 shuffled notes are not held in order")
    nc.remove_note("C#")
    m.remove_name("C#")
    CASES[0] += 1
    if [int(n) for n in nc.notes] != m.pitches():
        fail("removing C# in every octave from a large container")


# ------------------------------------------------------------- constructors
def voiced(names):
    m = Model()
    for n in names:
        m.add_bare(n)
    return m


ROOTS = ["C", "C#", "Db", "D", "D#", "Eb", "E", "F", "F#", "Gb", "G", "G#", "Ab", "A", "A#", "Bb", "B",
         "Cb", "B#", "E#", "Fb"]
SEMIS = [0, 2, 4, 5, 7, 9, 11]


def constructors():
    for sh in sorted(chords.chord_shorthand):
        for root in ROOTS:
            names = chords.from_shorthand(root + sh)
            if not names:
                continue
            nc = NoteContainer([Note("G", 7)])
            r = nc.from_chord_shorthand(root + sh)
            if r is not nc:
                fail("from_chord_shorthand does not return the container")
            m = voiced(names)
            ctx = "from_chord_shorthand(%r)" % (root + sh)
            check(nc, m, ctx)
            if (nc[0].name, nc[0].octave) != (names[0], 4):
                fail("%s does not start on the root in octave 4: %r" % (ctx, nc))
            # ascends through the chord's notes in order
            prev, seen = None, []
            for n in names:
                p = pitch(n, 0)
                if prev is None:
                    cur = pitch(n, 4)
                else:
                    cur = prev + (p - prev) % 12
                if cur not in seen:
                    seen.append(cur)
                prev = max(seen)
            if [int(x) for x in nc] != seen:
                fail("%s: %r does not ascend through %r" % (ctx, nc, names))
            nc2 = NoteContainer().from_chord(root + sh)
            if not nc2 == nc or [int(x) for x in nc2] != seen:
                fail("from_chord(%r) differs from from_chord_shorthand" % (root + sh))
    for sh in ["A/G", "Dm|G", "Am/M7", "C/E", "Cm7|F", "F#dim7/A"]:
        names = chords.from_shorthand(sh)
        nc = NoteContainer().from_chord_shorthand(sh)
        check(nc, voiced(names), "from_chord_shorthand(%r)" % sh)
        if (nc[0].name, nc[0].octave) != (names[0], 4):
            fail("from_chord_shorthand(%r) does not start in octave 4" % sh)

    for start in ["C", "F#", "Bb", "B", "Cb", "E#", "G-2", "A-6"]:
        for acc in ["", "b", "#", "bb", "##"]:
            for num in "1234567":
                for up in (True, False, None):
                    sh = acc + num
                    nc = NoteContainer(["D", "F"])
                    if up is None:
                        r = nc.from_interval_shorthand(start, sh)
                    elif up:
                        r = nc.from_interval(start, sh, up=True)
                    else:
                        r = nc.from_interval_shorthand(Note(start), sh, False)
                    if r is not nc:
                        fail("from_interval_shorthand does not return the container")
                    base = Note(start)
                    semis = SEMIS[int(num) - 1] + acc.count("#") - acc.count("b")
                    goes_up = up is None or up
                    target = int(base) + semis if goes_up else int(base) - semis
                    tname = intervals.from_shorthand(base.name, sh, goes_up)
                    m = Model()
                    m.add(base.name, base.octave)
                    m.add(tname, (target - pitch(tname, 0)) // 12)
                    if pitch(tname, (target - pitch(tname, 0)) // 12) != target:
                        fail("demo arithmetic")
                    check(nc, m, "from_interval_shorthand(%r,%r,%r)" % (start, sh, up))
                    if "-" not in start and base.octave != 4:
                        fail("start note not in octave 4")

    keys = ["C", "G", "D", "A", "E", "B", "F#", "C#", "F", "Bb", "Eb", "Ab", "Db", "Gb", "Cb"]
    numerals = ["I", "II", "III", "IV", "V", "VI", "VII"]
    suffixes = ["", "7", "m", "m7", "dim", "dim7", "M7", "dom7", "6", "sus4", "aug", "m6", "9", "11", "13"]
    for key in keys:
        for num in numerals + [x.lower() for x in numerals]:
            for suf in suffixes:
                for pre in ("", "b", "#"):
                    if pre and suf not in ("", "7"):
                        continue
                    sh = pre + num + suf
                    cs = progressions.to_chords(sh, key)
                    nc = NoteContainer(["D-2"])
                    r = nc.from_progression_shorthand(sh, key)
                    if cs == []:
                        if r is not False:
                            fail("from_progression_shorthand(%r) for an unknown numeral" % sh)
                        continue
                    if r is not nc:
                        fail("from_progression_shorthand does not return the container")
                    names = cs[0]
                    ctx = "from_progression_shorthand(%r,%r)" % (sh, key)
                    check(nc, voiced(names), ctx)
                    if (nc[0].name, nc[0].octave) != (names[0], 4):
                        fail("%s does not start on the root in octave 4: %r" % (ctx, nc))
    nc = NoteContainer().from_progression("VI")
    if [(n.name, n.octave) for n in nc] != [("A", 4), ("C", 5), ("E", 5)]:
        fail("from_progression('VI') is %r" % nc)
    nc = NoteContainer().from_progression_shorthand(shorthand="V7", key="F")
    check(nc, voiced(progressions.to_chords("V7", "F")[0]), "from_progression_shorthand keywords")


def main():
    exhaustive()
    randomised()
    constructors()
    print("C12 holds on %d checked states" % CASES[0])
    sys.exit(0)


if __name__ == "__main__":
    main()
