import mingus, os; assert os.path.realpath(mingus.__file__).startswith(os.path.realpath(os.path.dirname(__file__)))

"""Direct check of property C15 (no hidden shared state) through the public API.

  1. history independence: a fixed battery of theory queries gives the same
     answers after random call histories (results mutated on the way) as in a
     cold interpreter (a subprocess running this file with --battery);
  2. no public theory function changes its arguments, and mutating a result
     never changes what a later call returns;
  3. sibling instances of the container / MIDI writer / sequencer classes do
     not influence each other or the class defaults;
  4. copies of notes and containers are independent of their source;
  5. the frequency-to-note lookup does not depend on previous lookups.

Exit status 0 if everything holds, 1 (with messages) otherwise.
"""
import copy
import inspect
import json
import random
import subprocess
import sys
import tempfile
import warnings

warnings.simplefilter("ignore")

from mingus.core import keys, chords, intervals, progressions, notes, scales, meter, value
from mingus.containers import Note, NoteContainer, Bar, Track, Composition, Suite
from mingus.containers.instrument import Instrument, Piano, MidiInstrument
from mingus.midi import midi_track, midi_file_out
from mingus.midi.midi_track import MidiTrack
from mingus.midi.midi_file_out import MidiFile
from mingus.midi.sequencer import Sequencer
from mingus.extra import fft

FAILS = []
COUNT = [0]


def check(cond, msg):
    COUNT[0] += 1
    if not cond:
        FAILS.append(msg)


def outcome(f, *a, **k):
    try:
        return "OK %r" % (f(*a, **k),)
    except RecursionError:
        raise
    except Exception as e:
        return "EXC %s: %s" % (type(e).__name__, e)


# --------------------------------------------------------------------------
# 1. battery / histories
# --------------------------------------------------------------------------
ALLKEYS = [k for pair in keys.keys for k in pair]
ODD = ["H", "c##", "C{", "%s", "C\n", "é", "Fb", "{0}", "%r%d"]
NAMES = ["C", "D#", "Eb", "F##", "Gbb", "A", "B", "Cb", "E#", "Bbbb", "F####"]
SHORTHANDS = ["", "m", "M7", "m7", "7", "dim", "dim7", "aug", "sus4", "m7b5", "6", "9", "m11", "13", "7#9", "hendrix", "6/9"]
NUMERALS = ["I", "ii", "III7", "IVdim7", "bVIIM7", "#Vm", "VIIdom7", "bbII", "vi7", "X", "I{", "V%s"]


def battery_calls():
    calls = []

    def add(label, f, *a, **k):
        calls.append((label, f, a, k))

    for k in ALLKEYS + ODD:
        add("get_notes %r" % k, keys.get_notes, k)
        add("get_key_signature %r" % k, keys.get_key_signature, k)
        add("accidentals %r" % k, keys.get_key_signature_accidentals, key=k)
        add("is_valid_key %r" % k, keys.is_valid_key, k)
        add("relative_major %r" % k, keys.relative_major, k)
        add("relative_minor %r" % k, keys.relative_minor, k)
        add("triads %r" % k, chords.triads, k)
        add("sevenths %r" % k, chords.sevenths, key=k)
        add("tonic %r" % k, chords.tonic, k)
        add("V7 %r" % k, chords.V7, k)
        add("subtonic7 %r" % k, chords.subtonic7, k)
        add("scale %r" % k, lambda k=k: scales.Major(k.upper() if k in keys.minor_keys else k).ascending())
    for a in range(-8, 9):
        add("get_key %d" % a, keys.get_key, a)
    for k in ALLKEYS[::3]:
        for n in NAMES[:7] + ["H", ""]:
            add("third %r %r" % (n, k), intervals.third, n, k)
            add("seventh %r %r" % (n, k), intervals.seventh, note=n, key=k)
            add("interval %r %r" % (k, n), intervals.interval, k, n, 4)
            add("triad %r %r" % (n, k), chords.triad, n, k)
            add("get_interval %r %r" % (n, k), intervals.get_interval, n, 3, k)
    for n in NAMES + ODD[:3]:
        for fn in ("minor_third", "major_third", "perfect_fifth", "minor_seventh", "major_sixth", "minor_second", "major_unison"):
            add("%s %r" % (fn, n), getattr(intervals, fn), n)
        for sh in ("b3", "5", "#4", "bb7", "9", ""):
            add("iv.from_shorthand %r %r" % (n, sh), intervals.from_shorthand, n, sh)
            add("iv.from_shorthand down %r %r" % (n, sh), intervals.from_shorthand, n, sh, up=False)
        for m in NAMES[::2]:
            add("measure %r %r" % (n, m), intervals.measure, n, m)
            add("determine %r %r" % (n, m), intervals.determine, n, m)
            add("determine short %r %r" % (n, m), intervals.determine, n, m, shorthand=True)
            add("is_consonant %r %r" % (n, m), intervals.is_consonant, n, m)
            add("is_dissonant %r %r" % (n, m), intervals.is_dissonant, n, m, include_fourths=True)
        for sh in SHORTHANDS:
            add("ch.from_shorthand %r" % (n + sh), chords.from_shorthand, n + sh)
    for s in ["Am/G", "Dm|G", "C/E|G7", "NC", "Cmin7", "C-7", "Cxyz", "C/H", "Am/M7", "C%s", "C{0}", "C\nm"]:
        add("ch.from_shorthand %r" % s, chords.from_shorthand, s)
    add("ch.from_shorthand list", chords.from_shorthand, ["C", "Am", "G7"])
    for ch in (["C", "E", "G"], ["A", "C", "E"], ["G", "B", "D", "F"], ["C", "E", "G", "B", "D"], ["C"], [], ["C", "G"],
               ["C", "E", "G", "B", "D", "F"], ["C", "E", "G", "B", "D", "F", "A"], ["C", "E", "G", "Bb", "D", "F", "A", "C#"],
               ["F#", "A#", "C#"], ["C", "Eb", "Gb", "Bbb"]):
        add("ch.determine %r" % ch, chords.determine, list(ch))
        add("ch.determine short %r" % ch, chords.determine, list(ch), shorthand=True)
        add("ch.determine noinv %r" % ch, chords.determine, list(ch), True, True, True)
        add("invert %r" % ch, chords.invert, list(ch))
        add("iv.invert %r" % ch, intervals.invert, list(ch))
        if len(ch) >= 3:
            add("pr.determine %r" % ch, progressions.determine, list(ch), "C")
            add("pr.determine short %r" % ch, progressions.determine, list(ch), key="eb", shorthand=True)
    for r in NUMERALS:
        for k in ("C", "f#", "Gb"):
            add("to_chords %r %r" % (r, k), progressions.to_chords, r, k)
        add("parse_string %r" % r, progressions.parse_string, r)
        add("substitute %r" % r, progressions.substitute, [r, "IV", "V"], 0, 1)
        add("substitute_harmonic %r" % r, progressions.substitute_harmonic, [r], 0, ignore_suffix=True)
        add("sub_min_maj %r" % r, progressions.substitute_minor_for_major, [r], 0)
        add("sub_maj_min %r" % r, progressions.substitute_major_for_minor, [r], 0)
        add("sub_dim_dim %r" % r, progressions.substitute_diminished_for_diminished, [r], 0)
        add("sub_dim_dom %r" % r, progressions.substitute_diminished_for_dominant, [r], 0, True)
    add("to_chords list", progressions.to_chords, ["I", "IV", "V7", "bVIm"], key="Ab")
    add("to_chords tuple", progressions.to_chords, ("I", "vi"), "D")
    for a in progressions.numerals:
        for b in progressions.numerals[::2]:
            add("interval_diff %s %s" % (a, b), progressions.interval_diff, a, b, 5)
        add("skip %s" % a, progressions.skip, a, 3)
    add("very long chord name", chords.from_shorthand, "C" + "#" * 300 + "m7")
    add("very long note", intervals.major_third, "Gb" + "b" * 200)
    return calls


def run_battery():
    return [(label, outcome(f, *copy.deepcopy(a), **copy.deepcopy(k))) for (label, f, a, k) in battery_calls()]


def scramble(x, depth=0):
    """Spoil a result in place as far as it can be modified."""
    if isinstance(x, list):
        for y in x:
            scramble(y, depth + 1)
        x.reverse()
        x.append("SPOILED")
        if len(x) > 2:
            del x[1]
        if x and isinstance(x[0], list) is False:
            x[0] = "Zz"
    elif isinstance(x, dict):
        for y in list(x.values()):
            scramble(y, depth + 1)
        x["SPOILED"] = 1


if "--battery" in sys.argv:
    json.dump(run_battery(), sys.stdout)
    sys.exit(0)


def section_histories():
    env = dict(os.environ)
    cold = subprocess.run([sys.executable, os.path.abspath(__file__), "--battery"], env=env, stdout=subprocess.PIPE,
                          stderr=subprocess.DEVNULL, check=True)
    cold = [tuple(x) for x in json.loads(cold.stdout.decode())]
    # the battery itself must be repeatable in this (so far cold) process
    first = run_battery()
    check(first == cold, "battery in this process differs from the cold interpreter: %r" % (
        [(a, b) for a, b in zip(first, cold) if a != b][:3],))
    pool = battery_calls()
    for seed in range(30):
        rnd = random.Random(seed)
        style = seed % 3
        for _ in range(150):
            if style == 0:
                (label, f, a, k) = rnd.choice(pool)
            elif style == 1:
                # many distinct keys after one another (fills / turns over any table)
                key = rnd.choice(ALLKEYS)
                (label, f, a, k) = rnd.choice([
                    ("h", chords.triads, (key,), {}), ("h", chords.sevenths, (key,), {}), ("h", keys.get_notes, (key,), {}),
                    ("h", chords.dominant7, (key,), {}), ("h", chords.ii, (key,), {}),
                    ("h", intervals.sixth, (rnd.choice(NAMES[:7]), key), {}),
                    ("h", progressions.to_chords, (["I", "V7", "vi"], key), {}),
                    ("h", keys.get_key_signature_accidentals, (key,), {}),
                ])
            else:
                # refused calls repeated, between good ones
                bad = rnd.choice(ODD + ["", "Q"])
                (label, f, a, k) = rnd.choice([
                    ("h", chords.triads, (bad,), {}), ("h", chords.sevenths, (bad,), {}), ("h", keys.get_notes, (bad,), {}),
                    ("h", chords.tonic, (bad,), {}), ("h", keys.get_notes, (rnd.choice(ALLKEYS),), {}),
                    ("h", chords.triads, (rnd.choice(ALLKEYS),), {}), ("h", chords.from_shorthand, (bad,), {}),
                    ("h", intervals.interval, (bad, "C", 2), {}), ("h", intervals.interval, ("C", bad, 2), {}),
                ])
            try:
                r = f(*copy.deepcopy(a), **copy.deepcopy(k))
            except Exception:
                continue
            scramble(r)
        warm = run_battery()
        bad = [(a, b) for a, b in zip(warm, cold) if a != b]
        check(not bad, "history %d changes battery answers: %r" % (seed, bad[:3]))


# --------------------------------------------------------------------------
# 2. argument / result aliasing for every public theory function
# --------------------------------------------------------------------------
def arg_sets(name, params):
    """Representative argument tuples for a public function, by parameter names."""
    choices = {
        "key": ["C", "eb", "F#", "Cb", "a#"],
        "note": ["C", "F#", "Bbb"],
        "note1": ["C", "Eb"],
        "note2": ["G", "A#"],
        "start_note": ["D", "Bb"],
        "accidentals": [0, -3, 7],
        "chord": [["C", "E", "G"], ["A", "C", "E", "G"], ["C", "E", "G", "B", "D"], ["C", "E", "G", "B", "D", "F"],
                  ["C", "E", "G", "B", "D", "F", "A"], ["D"], []],
        "triad": [["C", "E", "G"], ["F#", "A", "C"]],
        "seventh": [["C", "E", "G", "B"], ["D", "F", "Ab", "Cb"]],
        "shorthand_string": ["Am7", "C/E", "Dm|G", ["C", "Fm"]],
        "slash": [None],
        "shorthand": [False, True],
        "no_inversions": [False, True],
        "no_inversion": [False, True],
        "no_polychords": [False, True],
        "placeholder": [None],
        "tries": [1, 3],
        "include_fourths": [True, False],
        "up": [True, False],
        "progression": [["I", "IV", "V7"], ["iim7", "bVII", "VIdim"]],
        "progression1": ["I", "V"],
        "progression2": ["IV", "II"],
        "substitute_index": [0, 1],
        "ignore_suffix": [False, True],
        "depth": [0, 1],
        "prog_tuple": [("I", -1, "m7"), ("V", 8, "")],
        "roman_numeral": ["I", "VII"],
        "skip_count": [1, 4],
    }
    special = {
        ("intervals", "interval"): [("C", "E", 2), ("bb", "Eb", 6)],
        ("intervals", "get_interval"): [("C", 3, "C"), ("F#", 11, "D")],
        ("intervals", "invert"): [(["C", "E"],), (["A", "C", "E", "G"],)],
        ("intervals", "from_shorthand"): [("C", "b3", True), ("A", "#4", False)],
        ("intervals", "augment_or_diminish_until_the_interval_is_right"): [("C", "E", 3), ("Cb", "B", 10)],
        ("progressions", "to_chords"): [(["I", "V7", "bIIIm"], "C"), ("ii7", "Bb"), (["I", "vi"], "f#")],
        ("progressions", "determine"): [(["C", "E", "G"], "C", False), ([["C", "E", "G"], ["G", "B", "D", "F"]], "C", True)],
        ("progressions", "interval_diff"): [("I", "IV", 5), ("VI", "II", 3)],
        ("chords", "determine_extended_chord5"): [(["C", "E", "G", "B", "D"], True, False, False)],
        ("chords", "determine_extended_chord6"): [(["C", "E", "G", "B", "D", "F"], False, False, False)],
        ("chords", "determine_extended_chord7"): [(["C", "E", "G", "B", "D", "F", "A"], False, True, False)],
        ("chords", "determine_polychords"): [(["C", "E", "G", "B", "D", "F"], False), (["A", "C", "E", "G"], True)],
        ("chords", "determine_triad"): [(["C", "E", "G"], False, False, None), (["A", "C", "E"], True, True, None)],
        ("chords", "determine_seventh"): [(["C", "E", "G", "B"], False, False, False), (["D", "F", "A", "C"], True, True, True)],
        ("chords", "invert"): [(["C", "E", "G"],)],
        ("chords", "first_inversion"): [(["C", "E", "G"],)],
        ("chords", "second_inversion"): [(["C", "E", "G", "B"],)],
        ("chords", "third_inversion"): [(["C", "E", "G", "B"],)],
    }
    if name in special:
        return special[name]
    if not all(p in choices for p in params):
        return None
    n = max(len(choices[p]) for p in params) if params else 1
    return [tuple(choices[p][i % len(choices[p])] for p in params) for i in range(n)]


def section_aliasing():
    skipped = []
    for mod in (keys, chords, intervals, progressions):
        short = mod.__name__.rsplit(".", 1)[1]
        for (fname, f) in sorted(vars(mod).items()):
            if fname.startswith("_") or not inspect.isfunction(f) or f.__module__ != mod.__name__:
                continue
            params = list(inspect.signature(f).parameters)
            sets = arg_sets((short, fname), params)
            if sets is None:
                skipped.append(short + "." + fname)
                continue
            for args in sets:
                for as_keywords in (False, True):
                    mine = copy.deepcopy(args)
                    before = copy.deepcopy(args)
                    if as_keywords:
                        call = lambda a: f(**dict(zip(params, a)))
                    else:
                        call = lambda a: f(*a)
                    try:
                        r1 = call(mine)
                    except Exception as e:
                        # a refused call: it must leave its arguments alone as well and stay refused
                        check(repr(mine) == repr(before), "%s.%s changed its arguments: %r -> %r" % (short, fname, before, mine))
                        check(outcome(call, copy.deepcopy(before)) == "EXC %s: %s" % (type(e).__name__, e),
                              "%s.%s%r refused once, not the next time" % (short, fname, args))
                        continue
                    check(repr(mine) == repr(before) and mine == before,
                          "%s.%s changed its arguments: %r -> %r" % (short, fname, before, mine))
                    kept = copy.deepcopy(r1)
                    scramble(r1)
                    r2 = call(copy.deepcopy(before))
                    check(repr(r2) == repr(kept), "%s.%s%r: answer after its result was modified: %r, before: %r" % (
                        short, fname, before, r2, kept))
                    scramble(r2)
                    r3 = call(copy.deepcopy(before))
                    check(repr(r3) == repr(kept), "%s.%s%r: third answer differs: %r" % (short, fname, before, r3))
    check(not skipped, "no arguments known for: %r" % skipped)

    # containers and writers must leave lists / dictionaries handed to them alone
    def unchanged(label, f, *args):
        before = canon(args)
        try:
            f(*args)
        except Exception as e:
            check(False, "%s raised %r" % (label, e))
            return
        check(canon(args) == before, "%s changed its arguments: %r -> %r" % (label, before, canon(args)))

    dyn = {"velocity": 30, "channel": 3}
    unchanged("Note(dynamics)", lambda d: Note("C", 4, d, velocity=50), dyn)
    unchanged("Note.set_note(dynamics)", lambda d: Note().set_note("D", 3, d), dyn)
    unchanged("NoteContainer(list)", NoteContainer, ["C", "E", "G"])
    unchanged("NoteContainer(nested)", NoteContainer, [["C", 5], ["E", 5, {"velocity": 20}], ["G", 6]])
    unchanged("NoteContainer.add_notes", NoteContainer(["A"]).add_notes, ["C", "B#", "Dbb"])
    unchanged("NoteContainer.remove_notes", NoteContainer(["A", "C", "E"]).remove_notes, ["C", "E"])
    unchanged("NoteContainer.add_note(dynamics)", lambda d: NoteContainer().add_note("C", 4, d), dyn)
    unchanged("Bar.place_notes", Bar().place_notes, ["C", "E"], 4)
    unchanged("Bar.__setitem__", lambda v: (lambda b: (b.place_notes("C", 4), b.__setitem__(0, v)))(Bar()), ["A", "C"])
    unchanged("Bar(meter)", lambda m: Bar("C", m), (3, 4))
    unchanged("Track.add_notes", Track().add_notes, ["C", "E"], 4)
    unchanged("Track(piano).add_notes", Track(Piano()).add_notes, ["C", "E"], 4)
    unchanged("Track.from_chords", Track().from_chords, ["C", ["Am", "Dm"], "G7", [["C#", None], "F"]], 1)
    unchanged("MidiFile(tracks)", MidiFile, [MidiTrack(), MidiTrack(90)])
    unchanged("fft.find_notes", fft.find_notes, [(440.0, 1.0), (880.0, 0.5)], 100)
    unchanged("fft.find_frequencies", fft.find_frequencies, [0, 100, 0, -100, 0, 100, 0, -100], 8000, 16)
    data = [0, 100, 0, -100] * 64
    unchanged("fft.analyze_chunks", fft.analyze_chunks, data, 8000, 16, 64)
    r = fft.find_notes([(440.0, 1.0)])
    kept = repr(r)
    r[57][0].augment()
    r.reverse()
    check(repr(fft.find_notes([(440.0, 1.0)])) == kept, "fft.find_notes answer changed after its result was modified")


# --------------------------------------------------------------------------
# 3. sibling instances / class defaults
# --------------------------------------------------------------------------
def canon(x, seen=None):
    """A plain-data rendering of everything public an object holds."""
    seen = seen or ()
    if id(x) in seen:
        return "<cycle>"
    if x is None or isinstance(x, (int, float, str, bytes, bool)):
        return x
    if isinstance(x, (list, tuple)):
        return [canon(y, seen + (id(x),)) for y in x]
    if isinstance(x, dict):
        return sorted((repr(k), canon(v, seen + (id(x),))) for k, v in x.items())
    if isinstance(x, (Note, NoteContainer, Bar, Track, Composition, Suite, MidiTrack, MidiFile, Sequencer, keys.Key, Instrument)):
        names = [n for n in dir(x) if not n.startswith("_")]
        out = [type(x).__name__]
        for n in names:
            try:
                v = getattr(x, n)
            except Exception:
                continue
            if callable(v):
                continue
            out.append((n, canon(v, seen + (id(x),))))
        return out
    return repr(x)


def class_defaults(cls):
    out = []
    for klass in cls.__mro__[:-1]:
        for n, v in sorted(vars(klass).items()):
            if n.startswith("_") or callable(v) or isinstance(v, (property, staticmethod, classmethod)):
                continue
            out.append((klass.__name__, n, canon(v)))
    return out


def fill_bar(b):
    b.place_notes(["C", "E", "G"], 4)
    b.place_notes("A", 8)
    b.place_rest(8)
    b.place_notes(NoteContainer(["D", "F#"]), 2)
    return b


def fill_track(t):
    for i, n in enumerate(["C", "E", "G", "B", "D", "F", "A", "C", "E"]):
        t.add_notes([n, "G"], 4 if i % 2 else 8)
    return t


def fill_comp(c):
    c.add_track(fill_track(Track()))
    c.add_track(Track())
    c.add_note("C")
    c.set_title("T", "S")
    c.set_author("A", "E")
    return c


def play_miditrack(m):
    m.play_Track(fill_track(Track(MidiInstrument())))
    m.set_deltatime(5)
    m.play_Bar(fill_bar(Bar("eb", (6, 8))))
    m.set_tempo(77)
    m.set_instrument(2, 30)
    return m


SCRIPTS = {
    Note: (lambda: Note("E", 3, velocity=70, channel=2), [
        lambda n: n.augment(), lambda n: n.diminish(), lambda n: n.octave_up(), lambda n: n.change_octave(-9),
        lambda n: n.transpose("b7"), lambda n: n.transpose("3", False), lambda n: n.set_note("Gb-7"),
        lambda n: n.set_note("A", 2, {"velocity": 1, "channel": 9}), lambda n: n.from_int(99), lambda n: n.from_hertz(1000),
        lambda n: n.from_shorthand("c#''"), lambda n: n.empty(), lambda n: n.set_velocity(5), lambda n: n.set_channel(7),
        lambda n: n.remove_redundant_accidentals(), lambda n: n.dynamics.update(velocity=3),
        lambda n: setattr(n, "name", "B"), lambda n: n.set_note("H"), lambda n: n.set_note("C{%s\n"),
    ]),
    NoteContainer: (lambda: NoteContainer(["C", "E", "G"]), [
        lambda c: c.add_note("B"), lambda c: c.add_notes(["D", "F"]), lambda c: c.add_notes([["C", 6, {"velocity": 9}]]),
        lambda c: c.remove_note("C"), lambda c: c.remove_notes(["E", "G"]), lambda c: c.empty(), lambda c: c.augment(),
        lambda c: c.diminish(), lambda c: c.transpose("5"), lambda c: c.from_chord("F#m7"), lambda c: c.from_interval("A", "b6", False),
        lambda c: c.from_progression("V7", "Bb"), lambda c: c + "B", lambda c: c - "E", lambda c: c.__setitem__(0, "F"),
        lambda c: c.notes.append(Note("A", 6)), lambda c: c[0].octave_up(), lambda c: c.add_notes(c), lambda c: c.remove_notes(c),
        lambda c: c.remove_duplicate_notes(), lambda c: c.sort(), lambda c: c.add_note(3), lambda c: c.add_note("H"),
        lambda c: c.get_note_names().append("X"), lambda c: c.determine().append("X"),
    ]),
    Bar: (lambda: fill_bar(Bar("D", (4, 4))), [
        lambda b: b.place_notes("C", 8), lambda b: b.place_rest(16), lambda b: b.empty(), lambda b: b.remove_last_entry(),
        lambda b: b.set_meter((3, 8)), lambda b: b.augment(), lambda b: b.diminish(), lambda b: b.transpose("3"),
        lambda b: b.__setitem__(0, ["A", "C"]), lambda b: b.__setitem__(1, "B"), lambda b: b + "C", lambda b: b.place_notes_at(["F"], 0.0),
        lambda b: b.bar.append([0.0, 4, None]), lambda b: b[0][2].add_note("B"), lambda b: b[0].__setitem__(1, 32),
        lambda b: b.get_note_names().append("X"), lambda b: b.determine_chords().append("X"), lambda b: b.set_meter((4, 5)),
        lambda b: setattr(b.key, "key", "G"), lambda b: b.place_notes("C", 0),
    ]),
    Track: (lambda: fill_track(Track()), [
        lambda t: t.add_notes("C", 2), lambda t: t.add_bar(Bar()), lambda t: t.from_chords(["C", ["F", "G"]], 2), lambda t: t.transpose("4"),
        lambda t: t.augment(), lambda t: t.diminish(), lambda t: t + Bar("F"), lambda t: t + "C", lambda t: t + NoteContainer(["C", "E"]),
        lambda t: t.__setitem__(0, Bar("A")), lambda t: t.bars.pop(), lambda t: t[0].empty(), lambda t: t.set_tuning("fake"),
        lambda t: setattr(t, "name", "Named"), lambda t: setattr(t, "instrument", Piano()), lambda t: t[1][0][2].augment(),
        lambda t: t.__setitem__(0, "no bar"), lambda t: list(t.get_notes())[0][2].empty(),
    ]),
    Composition: (lambda: fill_comp(Composition()), [
        lambda c: c.add_track(Track()), lambda c: c.add_note("E"), lambda c: c + fill_track(Track()), lambda c: c + "G",
        lambda c: c.empty(), lambda c: c.reset(), lambda c: c.set_title("X", "Y"), lambda c: c.set_author("me", "m@x"),
        lambda c: c.__setitem__(0, Track()), lambda c: c.tracks.pop(), lambda c: c.selected_tracks.append(0), lambda c: c[0].augment(),
        lambda c: c.add_track("nope"), lambda c: c.add_track(("a", "b")), lambda c: setattr(c, "description", "d"),
    ]),
    Suite: (lambda: Suite().add_composition(fill_comp(Composition())), [
        lambda s: s.add_composition(Composition()), lambda s: s + fill_comp(Composition()), lambda s: s.set_author("a", "b"),
        lambda s: s.set_title("t", "u"), lambda s: s.__setitem__(0, Composition()), lambda s: s.compositions.pop(),
        lambda s: s[0].empty(), lambda s: s.add_composition(7), lambda s: s.__setitem__(0, "x"), lambda s: setattr(s, "description", "d"),
    ]),
    MidiTrack: (lambda: play_miditrack(MidiTrack(100)), [
        lambda m: m.play_Note(Note("C", 5)), lambda m: m.stop_Note(Note("C", 5)), lambda m: m.play_NoteContainer(NoteContainer(["C", "E", "G"])),
        lambda m: m.stop_NoteContainer(NoteContainer(["C", "E"])), lambda m: m.play_Bar(fill_bar(Bar())), lambda m: m.play_Track(fill_track(Track())),
        lambda m: m.set_deltatime(300), lambda m: m.set_deltatime(b"\x10"), lambda m: m.set_tempo(200), lambda m: m.set_meter((7, 8)),
        lambda m: m.set_key("f#"), lambda m: m.set_key(keys.Key("Ab")), lambda m: m.set_track_name("hello"), lambda m: m.set_instrument(1, 20, 2),
        lambda m: m.reset(), lambda m: m.get_midi_data(), lambda m: m.set_key("H"), lambda m: setattr(m, "delay", 40),
    ]),
    MidiFile: (lambda: MidiFile([play_miditrack(MidiTrack())]), [
        lambda f: f.tracks.append(MidiTrack()), lambda f: f.reset(), lambda f: f.get_midi_data(), lambda f: f.tracks[0].set_tempo(60),
        lambda f: setattr(f, "time_division", b"\x00\x60"), lambda f: f.tracks.pop(), lambda f: f.header(),
    ]),
    Sequencer: (lambda: Sequencer(), [
        lambda s: s.attach("listener"), lambda s: (s.attach("l"), s.detach("l")), lambda s: s.play_Note(Note("C")),
        lambda s: s.set_instrument(1, 5), lambda s: s.play_NoteContainer(NoteContainer(["C", "E"])), lambda s: s.stop_everything(),
    ]),
}


def section_siblings():
    for cls, (make, scripts) in SCRIPTS.items():
        pristine_defaults = class_defaults(cls)
        reference = canon(make())
        check(canon(make()) == reference, "%s: two new objects differ" % cls.__name__)
        for i, script in enumerate(scripts):
            a = make()
            b = make()
            empty_before = canon(cls()) if cls is not Note else canon(Note())
            try:
                script(a)
            except Exception:
                pass  # a refused operation is an operation too
            check(canon(b) == reference, "%s script %d on one object changed its sibling" % (cls.__name__, i))
            check(class_defaults(cls) == pristine_defaults, "%s script %d changed the class defaults" % (cls.__name__, i))
            check(canon(make()) == reference, "%s script %d changed what a new object looks like" % (cls.__name__, i))
            check(canon(cls()) == empty_before, "%s script %d changed what a default object looks like" % (cls.__name__, i))
            # and the other way round: now work on b, a must keep what it has
            state_a = canon(a)
            for other in scripts[i + 1: i + 3]:
                try:
                    other(b)
                except Exception:
                    pass
            check(canon(a) == state_a, "%s: scripts after %d on the sibling changed the first object" % (cls.__name__, i))

    # default objects built one after the other share no list
    for cls, attr in ((NoteContainer, "notes"), (Bar, "bar"), (Track, "bars"), (Composition, "tracks"), (Suite, "compositions"),
                      (MidiFile, "tracks")):
        x, y = cls(), cls()
        getattr(x, attr).append("junk")
        check(getattr(y, attr) == [], "%s(): %s shared between two new objects" % (cls.__name__, attr))
        check(getattr(cls(), attr) == [], "%s(): %s of a later object not empty" % (cls.__name__, attr))
        check(getattr(cls, attr) == [], "%s.%s class default changed" % (cls.__name__, attr))
    x, y = Composition(), Composition()
    x.add_track(Track())
    check(list(y.selected_tracks) == [] and list(Composition.selected_tracks) == [], "Composition.selected_tracks shared")
    x, y = Sequencer(), Sequencer()
    x.attach("l")
    check(len(y.listeners) == 0, "Sequencer listeners shared")

    # MIDI writers: what a call writes does not depend on what was written before
    d = tempfile.mkdtemp()

    def written(f, obj, *rest):
        p = os.path.join(d, "x.mid")
        f(p, obj, *rest)
        with open(p, "rb") as fh:
            return fh.read()

    comp = fill_comp(Composition())
    jobs = [(midi_file_out.write_Note, Note("C#", 5), 100, 1), (midi_file_out.write_NoteContainer, NoteContainer(["C", "E", "G"]), 90, 0),
            (midi_file_out.write_Bar, fill_bar(Bar("Ab", (4, 4))), 120, 2), (midi_file_out.write_Track, fill_track(Track(MidiInstrument())), 60, 1),
            (midi_file_out.write_Composition, comp, 150, 1)]
    first = [written(*j) for j in jobs]
    state = canon(comp)
    for rnd in range(4):
        order = list(range(len(jobs)))
        random.Random(rnd).shuffle(order)
        for i in order:
            check(written(*jobs[i]) == first[i], "MIDI writer %d wrote something else the second time" % i)
    check(canon(comp) == state, "writing a composition changed it")
    check(MidiTrack.track_data == b"" and MidiTrack.delay == 0 and MidiTrack.delta_time == b"\x00", "MidiTrack class defaults changed")


# --------------------------------------------------------------------------
# 4. copies
# --------------------------------------------------------------------------
def section_copies():
    note_ops = SCRIPTS[Note][1]
    for i, op in enumerate(note_ops):
        for make in (lambda: Note("F#", 2, velocity=11, channel=4), lambda: Note("Bb-6"), lambda: Note(61)):
            src = make()
            before = canon(src)
            dup = Note(src)
            check(canon(dup) == before, "Note copy differs from its source")
            try:
                op(dup)
            except Exception:
                pass
            check(canon(src) == before, "Note op %d on a copy changed the source" % i)
            state = canon(dup)
            try:
                op(src)
                src.set_velocity(99)
            except Exception:
                pass
            check(canon(dup) == state, "Note op %d on the source changed the copy" % i)
    nc_ops = SCRIPTS[NoteContainer][1]
    for i, op in enumerate(nc_ops):
        for build in (lambda s: NoteContainer(s), lambda s: NoteContainer().add_notes(s) and None, lambda s: NoteContainer() + s):
            src = NoteContainer(["C", "E", "G", "B"])
            src[1].set_velocity(23)
            before = canon(src)
            dup = build(src)
            if dup is None:
                dup = NoteContainer()
                dup.add_notes(src)
            check(canon(dup) == before, "NoteContainer copy differs from its source")
            check(all(x is not y for x in dup.notes for y in src.notes), "NoteContainer copy holds the notes of its source")
            try:
                op(dup)
            except Exception:
                pass
            for n in dup.notes:
                n.set_channel(9)
            check(canon(src) == before, "NoteContainer op %d on a copy changed the source" % i)
            dup2 = NoteContainer(src)
            state = canon(dup2)
            try:
                op(src)
            except Exception:
                pass
            for n in src.notes:
                n.octave_up()
            check(canon(dup2) == state, "NoteContainer op %d on the source changed the copy" % i)
    # notes given as a list are stored in a container of the bar's own
    lst = ["C", "E"]
    b = Bar()
    b.place_notes(lst, 4)
    lst.append("G")
    check(len(b[0][2]) == 2, "Bar keeps using the list it was given")
    # a chord split over two bars gets notes of its own in either bar
    t = Track()
    t.add_bar(Bar("C", (3, 4)))
    t.from_chords(["C", "F"], 2)
    conts = [c for (_, _, c) in t.get_notes()]
    check(len(conts) == 3 and all(x is not y for i, p in enumerate(conts) for q in conts[i + 1:] for x in p.notes for y in q.notes),
          "pieces of a split chord share notes")
    t.transpose("3")
    check([n.name for n in conts[1].notes] == [n.name for n in conts[2].notes] == ["A", "C#", "E"], "split chord transposed unevenly: %r" % (conts,))


# --------------------------------------------------------------------------
# 5. frequency table lookups
# --------------------------------------------------------------------------
def section_fft():
    table = [Note().from_int(x).to_hertz() for x in range(129)]

    def expected(f):
        if f > table[127] or f <= 0:
            return 128
        return min(n for n in range(128) if table[n] >= f)

    def lookup(f):
        res = fft.find_notes([(f, 1.0)], 129)
        hits = [i for i, (n, a) in enumerate(res) if a]
        check(len(hits) == 1, "find_notes: %r lands in %r" % (f, hits))
        return hits[0] if hits else None

    rnd = random.Random(5)
    fs = [rnd.uniform(5, 13000) for _ in range(120)] + table[:128:5] + [t * (1 + 1e-12) for t in table[:127:9]] + \
         [t * (1 - 1e-12) for t in table[1:128:9]] + [8.0, 8.1, 1e-9, 12543.85, 12543.86, 1e9]
    want = {f: expected(f) for f in fs}
    for order in (list(fs), sorted(fs), sorted(fs, reverse=True), rnd.sample(fs, len(fs)), [f for f in fs for _ in (0, 1)]):
        got = [lookup(f) for f in order]
        bad = [(f, g, want[f]) for f, g in zip(order, got) if g != want[f]]
        check(not bad, "frequency lookup depends on history / is off: %r" % bad[:3])
    # whole tables in one call, in several orders, accumulate in the same slots
    rows = [(f, 1.0) for f in fs if f > 0]
    ref = [a for (n, a) in fft.find_notes(sorted(rows))]
    for order in (rows, sorted(rows, reverse=True), rnd.sample(rows, len(rows))):
        check([a for (n, a) in fft.find_notes(order)] == ref, "find_notes totals depend on the order of the rows")
    if hasattr(fft, "_find_log_index"):
        for order in (list(fs), sorted(fs, reverse=True)):
            bad = [(f, fft._find_log_index(f), want[f]) for f in order if fft._find_log_index(f) != want[f]]
            check(not bad, "_find_log_index: %r" % bad[:3])


def main():
    for section in (section_histories, section_aliasing, section_siblings, section_copies, section_fft, section_histories_again):
        try:
            section()
        except Exception as e:
            import traceback
            traceback.print_exc()
            FAILS.append("%s crashed: %r" % (section.__name__, e))
    if FAILS:
        print("C15 does NOT hold (%d of %d checks failed):" % (len(FAILS), COUNT[0]))
        for f in FAILS[:25]:
            print("  -", f[:600])
        sys.exit(1)
    print("C15 holds: %d checks passed" % COUNT[0])
    sys.exit(0)


def section_histories_again():
    """After everything above (all kinds of objects used and abused) the
    battery still answers like a cold interpreter."""
    cold = subprocess.run([sys.executable, os.path.abspath(__file__), "--battery"], stdout=subprocess.PIPE,
                          stderr=subprocess.DEVNULL, check=True)
    cold = [tuple(x) for x in json.loads(cold.stdout.decode())]
    warm = run_battery()
    bad = [(a, b) for a, b in zip(warm, cold) if a != b]
    check(not bad, "battery after all sections differs from cold: %r" % bad[:3])


if __name__ == "__main__":
    main()
