import mingus, os; assert os.path.realpath(mingus.__file__).startswith(os.path.realpath(os.path.dirname(__file__)))
"""Direct check of property C18 (sequencer playback event stream).

Only what the statement fixes is checked:
  * every sounding note -> exactly one play (int(note)+12, note.channel,
    note.velocity) and, after the entry's duration, exactly one stop with
    the same pitch and channel; nothing left sounding, nothing stopped that
    was not started;
  * plays of one track come in the order of the music;
  * total time slept == 240/bpm seconds per whole note, following tempo
    changes carried by containers (tolerance: float rounding);
  * play_Tracks / play_Composition first announce one instrument change per
    track on its channel (program of a MidiInstrument, otherwise 1);
  * observers see exactly the hook sequence; attach twice / detach;
  * control changes with number or value < 0 or > 128 refused, nothing emitted;
  * the return value reports the final tempo.
Not checked (not promised): how the silence is cut into sleep calls, order
of events of different tracks at one instant, order of the announcements,
relative order of hook calls and observer notifications, high level messages.
"""
import random
import sys
from collections import Counter

from mingus.containers import Note, NoteContainer, Bar, Track, Composition
from mingus.containers.instrument import MidiInstrument, Instrument, Piano
from mingus.midi.sequencer import Sequencer
from mingus.midi.sequencer_observer import SequencerObserver

TOL = 1e-6
failures = []
ncases = [0]


def fail(msg):
    failures.append(msg)
    print("FAIL:", msg)
    if len(failures) > 10:
        sys.exit(1)


class RecSeq(Sequencer):
    def init(self):
        self.log = []

    def play_event(self, note, channel, velocity):
        self.log.append(("play", note, channel, velocity))

    def stop_event(self, note, channel):
        self.log.append(("stop", note, channel))

    def cc_event(self, channel, control, value):
        self.log.append(("cc", channel, control, value))

    def instr_event(self, channel, instr, bank):
        self.log.append(("instr", channel, instr, bank))

    def sleep(self, seconds):
        self.log.append(("sleep", seconds))


class RecObs(SequencerObserver):
    def __init__(self):
        self.log = []

    def play_int_note_event(self, int_note, channel, velocity):
        self.log.append(("play", int_note, channel, velocity))

    def stop_int_note_event(self, int_note, channel):
        self.log.append(("stop", int_note, channel))

    def cc_event(self, channel, control, value):
        self.log.append(("cc", channel, control, value))

    def instr_event(self, channel, instr, bank):
        self.log.append(("instr", channel, instr, bank))

    def sleep(self, seconds):
        self.log.append(("sleep", seconds))


class RawObs(object):
    """An observer that only has notify(); decodes the low level messages."""

    def __init__(self):
        self.log = []

    def notify(self, msg_type, params):
        if msg_type == Sequencer.MSG_PLAY_INT:
            self.log.append(("play", params["note"], params["channel"], params["velocity"]))
        elif msg_type == Sequencer.MSG_STOP_INT:
            self.log.append(("stop", params["note"], params["channel"]))
        elif msg_type == Sequencer.MSG_CC:
            self.log.append(("cc", params["channel"], params["control"], params["value"]))
        elif msg_type == Sequencer.MSG_INSTR:
            self.log.append(("instr", params["channel"], params["instr"], params["bank"]))
        elif msg_type == Sequencer.MSG_SLEEP:
            self.log.append(("sleep", params["s"]))


def rig():
    s = RecSeq()
    o1, o2 = RecObs(), RawObs()
    s.attach(o1)
    s.attach(o2)
    return s, o1, o2


def same_streams(tag, s, *obs):
    for o in obs:
        if o.log != s.log:
            fail("%s: observer %s saw a different sequence than the hooks\n  hooks=%r\n  obs  =%r"
                 % (tag, type(o).__name__, s.log[:12], o.log[:12]))
            return False
    return True


# ---------------------------------------------------------------- generators
NAMES = ["C", "C#", "Db", "D", "Eb", "E", "F", "F#", "G", "Ab", "A", "Bb", "B"]


def rnd_note(rng, channel=None):
    ch = rng.randint(0, 15) if channel is None else channel
    return Note(rng.choice(NAMES), rng.randint(1, 7), velocity=rng.randint(0, 127), channel=ch)


def rnd_rhythm(rng, meter, depth):
    """A list of note values filling a bar of the meter exactly."""
    unit = meter[1]
    vals = [float(unit)] * meter[0]
    # merge some neighbours (only equal powers of two)
    out = []
    i = 0
    while i < len(vals):
        if i + 1 < len(vals) and rng.random() < 0.3:
            out.append(vals[i] / 2)
            i += 2
        else:
            out.append(vals[i])
            i += 1
    for _ in range(depth):
        nxt = []
        for v in out:
            r = rng.random()
            if v < 16 and r < 0.25:
                nxt += [v * 2, v * 2]
            elif v < 16 and r < 0.33:
                nxt += [v * 3, v * 3, v * 3]  # triplet
            elif v < 16 and r < 0.42:
                d = [v * 4 / 3.0, v * 4]  # dotted + short
                rng.shuffle(d)
                nxt += d
            else:
                nxt.append(v)
        out = nxt
    return out


def rnd_bar(rng, meter, depth, channel, tempo_ok, used_tempo_beats, bar_start):
    b = Bar("C", meter)
    pos = 0.0
    for v in rnd_rhythm(rng, meter, depth):
        r = rng.random()
        if r < 0.2:
            ok = b.place_rest(v)
        else:
            n = 1 if r < 0.6 else rng.randint(2, 4)
            nc = NoteContainer()
            nc.notes = [rnd_note(rng, channel) for _ in range(n)]  # keep duplicates & order
            key = round((bar_start + pos) * 9600)
            if tempo_ok and rng.random() < 0.15 and key not in used_tempo_beats:
                nc.bpm = rng.choice([40, 60, 72, 90, 120, 133, 180, 240, 97.5])
                used_tempo_beats.add(key)
            ok = b.place_notes(nc, v)
        assert ok, (meter, v, b)
        pos += 1.0 / v
    assert b.is_full()
    return b


def rnd_tracks(rng, ntracks, nbars, meter, equal, distinct_channels, tempo):
    used = set()
    tracks = []
    first = None
    for t in range(ntracks):
        kind = rng.random()
        if kind < 0.4:
            ins = MidiInstrument(rng.choice(MidiInstrument.names))
        elif kind < 0.5:
            ins = MidiInstrument("No such instrument {%s}\n\xe9" % t)
        elif kind < 0.6:
            ins = MidiInstrument()
        elif kind < 0.7:
            ins = Piano()
        elif kind < 0.8:
            ins = Instrument()
        else:
            ins = None
        tr = Track()
        tr.instrument = ins  # set afterwards: no range check wanted here
        ch = (t + 3) if distinct_channels else None
        for k in range(nbars):
            if equal and first is not None and rng.random() < 0.8:
                # same rhythm as track 0, new notes
                src = first.bars[k]
                b = Bar("C", meter)
                for (_, v, nc0) in src:
                    if rng.random() < 0.2:
                        b.place_rest(v)
                    else:
                        nc = NoteContainer()
                        nc.notes = [rnd_note(rng, ch) for _ in range(rng.randint(1, 3))]
                        b.place_notes(nc, v)
            else:
                b = rnd_bar(rng, meter, rng.randint(0, 3), ch, tempo, used, k * meter[0] / float(meter[1]))
            tr.add_bar(b)
        if first is None:
            first = tr
        tracks.append(tr)
    return tracks


# -------------------------------------------------------------------- model
def model_notes(tracks, bpm):
    """-> (list per track of (start_beat, end_beat, [notes])), tempo points, final bpm"""
    per_track = []
    tempo = []  # (beat, bpm)
    for tr in tracks:
        pos = 0.0
        ents = []
        for bar in tr:
            for (_, v, nc) in bar:
                d = 1.0 / v
                if nc is not None and hasattr(nc, "bpm"):
                    tempo.append((pos, nc.bpm))
                ents.append((pos, pos + d, [] if nc is None else list(nc)))
                pos += d
        per_track.append((ents, pos))
    tempo.sort(key=lambda p: p[0])
    return per_track, tempo


def beat_to_sec(tempo, bpm0):
    pts = [(0.0, bpm0)] + [(b, v) for (b, v) in tempo]

    def conv(beat):
        sec = 0.0
        for i, (b, v) in enumerate(pts):
            nb = pts[i + 1][0] if i + 1 < len(pts) else float("inf")
            if beat <= b + 1e-9:
                break
            seg = min(beat, nb) - b
            if seg > 0:
                sec += seg * 240.0 / v
        return sec

    return conv


def close(a, b):
    return abs(a - b) <= TOL * max(1.0, abs(a), abs(b))


def analyse(tag, log):
    """Walk the event stream -> list of (start, end, pitch, ch, vel), plays in order, total."""
    t = 0.0
    sounding = {}
    notes = []
    plays = []
    for ev in log:
        if ev[0] == "sleep":
            if not (ev[1] >= 0):
                fail("%s: negative sleep %r" % (tag, ev))
            t += ev[1]
        elif ev[0] == "play":
            for x in ev[1:]:
                if type(x) is not int:
                    fail("%s: play event with non-int %r" % (tag, ev))
            sounding.setdefault((ev[1], ev[2]), []).append((t, ev[3]))
            plays.append((t, ev[1], ev[2], ev[3]))
        elif ev[0] == "stop":
            q = sounding.get((ev[1], ev[2]))
            if not q:
                fail("%s: stop of something not started %r" % (tag, ev))
                return None
            st, vel = q.pop(0)
            notes.append((st, t, ev[1], ev[2], vel))
    left = dict((k, v) for k, v in sounding.items() if v)
    if left:
        fail("%s: left sounding %r" % (tag, left))
        return None
    return notes, plays, t


def check_playback(tag, log, tracks, bpm0, res, n_announce):
    ncases[0] += 1
    per_track, tempo = model_notes(tracks, bpm0)
    conv = beat_to_sec(tempo, bpm0)
    final = tempo[-1][1] if tempo else bpm0

    # announcements first
    head, body = log[:n_announce], log[n_announce:]
    if any(e[0] != "instr" for e in head) or any(e[0] == "instr" for e in body):
        fail("%s: instrument changes are not exactly the first %d events: %r" % (tag, n_announce, log[:8]))
        return
    if any(e[0] == "cc" for e in body):
        fail("%s: unexpected cc" % tag)
    a = analyse(tag, body)
    if a is None:
        return
    notes, plays, total = a

    # Stops of equal pitch and channel cannot be told apart, so starts and
    # ends are compared as two multisets.
    exp_s, exp_e = [], []
    for (ents, _) in per_track:
        for (s, e, ns) in ents:
            for n in ns:
                exp_s.append((int(n) + 12, int(n.channel), int(n.velocity), conv(s)))
                exp_e.append((int(n) + 12, int(n.channel), conv(e)))
    got_s = sorted((x[2], x[3], x[4], x[0]) for x in notes)
    got_e = sorted((x[2], x[3], x[1]) for x in notes)
    exp_s.sort()
    exp_e.sort()
    if len(got_s) != len(exp_s):
        fail("%s: %d notes sounded, %d expected" % (tag, len(got_s), len(exp_s)))
        return
    for got, exp in ((got_s, exp_s), (got_e, exp_e)):
        for g, e in zip(got, exp):
            if g[:-1] != e[:-1] or not close(g[-1], e[-1]):
                fail("%s: note mismatch got %r expected %r" % (tag, g, e))
                return
    length = per_track[0][1]
    if not close(total, conv(length)):
        fail("%s: slept %r, expected %r" % (tag, total, conv(length)))
    if not isinstance(res, dict) or res.get("bpm") != final:
        fail("%s: return value %r does not report final tempo %r" % (tag, res, final))
    return plays, per_track, conv


def check_order(tag, plays, ents, conv, channel=None):
    """plays of one track come in the order of the music"""
    got = [(p[1], p[2], p[3]) for p in plays if channel is None or p[2] == channel]
    exp = [(int(n) + 12, int(n.channel), int(n.velocity)) for (s, e, ns) in ents for n in ns]
    if got != exp:
        fail("%s: play order differs\n got=%r\n exp=%r" % (tag, got[:10], exp[:10]))


def announce_expect(tracks, channels):
    c = Counter()
    for tr, ch in zip(tracks, channels):
        ins = tr.instrument
        prog = 1
        if isinstance(ins, MidiInstrument) and ins.name in ins.names:
            prog = ins.names.index(ins.name)
        c[(int(ch), prog)] += 1
    return c


# -------------------------------------------------------------------- tests
def test_notes_and_containers(rng):
    for i in range(60):
        s, o1, o2 = rig()
        n = rnd_note(rng)
        if i % 3 == 0:
            r = s.play_Note(n)
        elif i % 3 == 1:
            r = s.play_Note(n, 9, 30)
        else:
            r = s.play_Note(note=n, velocity=5, channel=2)
        ncases[0] += 1
        if s.log != [("play", int(n) + 12, n.channel, n.velocity)] or not r:
            fail("play_Note %r -> %r %r" % (n, s.log, r))
        r = s.stop_Note(n) if i % 2 else s.stop_Note(note=n, channel=7)
        if s.log[1:] != [("stop", int(n) + 12, n.channel)] or not r:
            fail("stop_Note %r -> %r" % (n, s.log))
        same_streams("note", s, o1, o2)

    for i in range(60):
        s, o1, o2 = rig()
        nc = NoteContainer()
        nc.notes = [rnd_note(rng) for _ in range(rng.randint(0, 6))]
        if rng.random() < 0.3 and nc.notes:
            nc.notes.append(nc.notes[0])  # the same object twice
        r1 = s.play_NoteContainer(nc) if i % 2 else s.play_NoteContainer(nc=nc, channel=4, velocity=1)
        r2 = s.stop_NoteContainer(nc)
        ncases[0] += 1
        exp = [("play", int(n) + 12, n.channel, n.velocity) for n in nc] + [
            ("stop", int(n) + 12, n.channel) for n in nc]
        if Counter(s.log) != Counter(exp) or [e for e in s.log if e[0] == "play"] != exp[:len(nc)]:
            fail("NoteContainer %r -> %r" % (nc, s.log))
        if not r1 or not r2:
            fail("NoteContainer return %r %r" % (r1, r2))
        if analyse("nc", s.log) is None:
            pass
        same_streams("nc", s, o1, o2)
    # a rest
    s, o1, o2 = rig()
    s.play_NoteContainer(None)
    s.stop_NoteContainer(None)
    if s.log or o1.log or o2.log:
        fail("rest container emitted %r" % s.log)


def test_single(rng):
    meters = [(4, 4), (3, 4), (6, 8), (2, 2), (5, 4)]
    for i in range(120):
        meter = rng.choice(meters)
        nbars = rng.choice([1, 1, 2, 3, 5])
        tr = rnd_tracks(rng, 1, nbars, meter, False, False, True)[0]
        bpm0 = rng.choice([120, 60, 100, 33, 200.0, 144])
        s, o1, o2 = rig()
        mode = i % 4
        if mode == 0 and nbars >= 1:
            tr.bars = tr.bars[:1]
            res = s.play_Bar(tr.bars[0], 1, bpm0) if i % 8 else s.play_Bar(bar=tr.bars[0], bpm=bpm0, channel=3)
            tag = "play_Bar#%d" % i
            na = 0
        elif mode == 1:
            res = s.play_Track(tr, 1, bpm0) if i % 8 != 1 else s.play_Track(track=tr, bpm=bpm0)
            tag = "play_Track#%d" % i
            na = 0
        elif mode == 2:
            tr.bars = tr.bars[:1]
            res = s.play_Bars([tr.bars[0]], [5], bpm0)
            tag = "play_Bars1#%d" % i
            na = 0
        else:
            res = s.play_Tracks([tr], [6], bpm0)
            tag = "play_Tracks1#%d" % i
            na = 1
        if not same_streams(tag, s, o1, o2):
            continue
        out = check_playback(tag, s.log, [tr], bpm0, res, na)
        if out:
            plays, per_track, conv = out
            check_order(tag, plays, per_track[0][0], conv)
            if na:
                got = Counter((e[1], e[2]) for e in s.log[:na])
                if got != announce_expect([tr], [6]):
                    fail("%s: announcement %r" % (tag, s.log[:na]))
    # default bpm is 120
    tr = rnd_tracks(rng, 1, 2, (4, 4), False, False, False)[0]
    s, o1, o2 = rig()
    res = s.play_Track(tr)
    check_playback("default bpm", s.log, [tr], 120, res, 0)


def test_multi(rng):
    for i in range(160):
        nt = rng.randint(1, 4)
        meter = rng.choice([(4, 4), (4, 4), (3, 4), (6, 8)])
        nbars = rng.choice([1, 2, 2, 3, 4])
        equal = i % 2 == 0
        distinct = i % 3 != 0
        tracks = rnd_tracks(rng, nt, nbars, meter, equal, distinct, rng.random() < 0.7)
        if distinct:
            channels = [t + 3 for t in range(nt)]
            rng.shuffle(channels)
            # the notes carry the channel; the list gives the instrument channel
            for t, tr in enumerate(tracks):
                for bar in tr:
                    for (_, _, nc) in bar:
                        if nc is not None:
                            for n in nc:
                                n.channel = channels[t]
        else:
            channels = [rng.randint(0, 15) for _ in range(nt)]
        bpm0 = rng.choice([120, 60, 90, 150, 47])
        s, o1, o2 = rig()
        mode = i % 5
        if mode == 0:
            for tr in tracks:
                tr.bars = tr.bars[:1]
            res = s.play_Bars([tr.bars[0] for tr in tracks], channels, bpm0)
            tag, na = "play_Bars#%d" % i, 0
        elif mode == 1:
            res = s.play_Tracks(tracks, channels, bpm0)
            tag, na = "play_Tracks#%d" % i, nt
        elif mode == 2:
            res = s.play_Tracks(tuple(tracks), tuple(channels), bpm=bpm0)
            tag, na = "play_Tracks(tuples)#%d" % i, nt
        elif mode == 3:
            c = Composition()
            for tr in tracks:
                c.add_track(tr)
            res = s.play_Composition(c, channels, bpm0)
            tag, na = "play_Composition#%d" % i, nt
        else:
            c = Composition()
            for tr in tracks:
                c.add_track(tr)
            channels = [x + 1 for x in range(nt)]
            if distinct:
                for t, tr in enumerate(tracks):
                    for bar in tr:
                        for (_, _, nc) in bar:
                            if nc is not None:
                                for n in nc:
                                    n.channel = channels[t]
            res = s.play_Composition(composition=c, bpm=bpm0)
            tag, na = "play_Composition(default channels)#%d" % i, nt
        if not same_streams(tag, s, o1, o2):
            continue
        out = check_playback(tag, s.log, tracks, bpm0, res, na)
        if not out:
            continue
        plays, per_track, conv = out
        if na:
            got = Counter((e[1], e[2]) for e in s.log[:na])
            if got != announce_expect(tracks, channels):
                fail("%s: announcements %r, expected %r" % (tag, s.log[:na], announce_expect(tracks, channels)))
        if distinct:
            for t in range(nt):
                check_order(tag + "/track%d" % t, plays, per_track[t][0], conv, channels[t])


def test_shared_and_long(rng):
    # the same track played together with itself, the same bar used repeatedly
    tr = rnd_tracks(rng, 1, 2, (4, 4), False, False, False)[0]
    s, o1, o2 = rig()
    res = s.play_Tracks([tr, tr, tr], [1, 2, 3], 111)
    same_streams("self-parallel", s, o1, o2)
    check_playback("self-parallel", s.log, [tr, tr, tr], 111, res, 3)

    b = rnd_bar(rng, (4, 4), 2, None, False, set(), 0.0)
    long_tr = Track()
    for _ in range(300):
        long_tr.add_bar(b)
    s, o1, o2 = rig()
    res = s.play_Track(long_tr, 1, 480)
    same_streams("long", s, o1, o2)
    out = check_playback("long track", s.log, [long_tr], 480, res, 0)
    if out:
        check_order("long track", out[0], out[1][0][0], out[2])
    other = rnd_tracks(rng, 1, 300, (4, 4), False, False, True)[0]
    s, o1, o2 = rig()
    res = s.play_Tracks([long_tr, other], [0, 15], 300)
    same_streams("long2", s, o1, o2)
    check_playback("long 2 tracks", s.log, [long_tr, other], 300, res, 2)

    # very slow tempo: long silences
    slow = rnd_tracks(rng, 2, 2, (4, 4), False, True, True)
    s, o1, o2 = rig()
    res = s.play_Tracks(slow, [3, 4], 7)
    same_streams("slow", s, o1, o2)
    check_playback("slow", s.log, slow, 7, res, 2)

    # many sequencers in one process, one shared observer
    shared = RawObs()
    total = []
    for k in range(20):
        s = RecSeq()
        s.attach(shared)
        t2 = rnd_tracks(rng, 2, 1, (4, 4), k % 2 == 0, False, True)
        res = s.play_Tracks(t2, [k % 16, (k + 1) % 16], 100 + k)
        check_playback("many#%d" % k, s.log, t2, 100 + k, res, 2)
        total += s.log
    if shared.log != total:
        fail("shared observer saw a different sequence")


def test_attach_detach(rng):
    for k in range(20):
        s = RecSeq()
        o1, o2 = RecObs(), RawObs()
        s.attach(o1)
        s.attach(o1)
        s.attach(listener=o2)
        s.attach(o2)
        s.attach(o1)
        tr = rnd_tracks(rng, 1, 1, (4, 4), False, False, True)[0]
        s.play_Track(tr)
        ncases[0] += 1
        if o1.log != s.log or o2.log != s.log:
            fail("attach twice: duplicated or missing delivery")
        n1 = len(o1.log)
        s.detach(o1)
        s.detach(o1)  # again: harmless
        s.play_Bar(tr.bars[0])
        s.control_change(1, 2, 3)
        if len(o1.log) != n1:
            fail("detached observer still receives")
        if o2.log != s.log:
            fail("remaining observer lost events after other detach")
        s.detach(listener=o2)
        n2 = len(o2.log)
        s.play_Note(Note("C"))
        s.set_instrument(1, 5)
        if len(o2.log) != n2 or len(o1.log) != n1:
            fail("detached observer still receives (2)")
        s.attach(o1)
        s.play_Note(Note("D"))
        if o1.log[n1:] != s.log[-1:]:
            fail("re-attached observer: %r" % o1.log[n1:])


def test_cc(rng):
    bad = [-1, -100, 129, 130, 1000, -0.5, 128.5, 10 ** 20, -10 ** 20]
    good = [0, 1, 7, 10, 64, 127, 128]
    s, o1, o2 = rig()
    for c in bad:
        for v in good + bad:
            for args in ((3, c, v), (3, v, c)):
                before = list(s.log)
                r = s.control_change(*args) if rng.random() < 0.5 else s.control_change(
                    channel=args[0], control=args[1], value=args[2])
                ncases[0] += 1
                if r or s.log != before or o1.log != before or o2.log != before:
                    fail("control_change%r not refused: %r %r" % (args, r, s.log[len(before):]))
    for meth, num in (("modulation", 1), ("main_volume", 7), ("pan", 10)):
        for v in bad:
            before = list(s.log)
            r = getattr(s, meth)(2, v)
            if r or s.log != before or o1.log != before:
                fail("%s(%r) not refused" % (meth, v))
    if s.log:
        fail("refused control changes emitted %r" % s.log[:3])
    for c in good:
        for v in good:
            s, o1, o2 = rig()
            r = s.control_change(rng.randint(0, 15), c, v)
            ncases[0] += 1
            if not r or len(s.log) != 1 or s.log[0][0] != "cc" or s.log[0][2:] != (c, v):
                fail("control_change(%r,%r) -> %r %r" % (c, v, r, s.log))
            same_streams("cc", s, o1, o2)
            # refused again afterwards: still nothing
            s.control_change(1, -1, v)
            s.control_change(1, c, 129)
            if len(s.log) != 1 or len(o1.log) != 1:
                fail("refused cc emitted after an accepted one")
    for meth, num in (("modulation", 1), ("main_volume", 7), ("pan", 10)):
        s, o1, o2 = rig()
        r = getattr(s, meth)(4, 99)
        if not r or s.log != [("cc", 4, num, 99)] or o1.log != s.log or o2.log != s.log:
            fail("%s -> %r" % (meth, s.log))


def main():
    rng = random.Random(1808)
    test_notes_and_containers(rng)
    test_single(rng)
    test_multi(rng)
    test_shared_and_long(rng)
    test_attach_detach(rng)
    test_cc(rng)
    if failures:
        print("%d failure(s)" % len(failures))
        sys.exit(1)
    print("C18 holds on %d cases" % ncases[0])
    sys.exit(0)


if __name__ == "__main__":
    main()
