import mingus, os; assert os.path.realpath(mingus.__file__).startswith(os.path.realpath(os.path.dirname(__file__)))
"""Direct check of property C09 through the public API of mingus.core.value
and mingus.core.meter.  Exit 0 when it holds, 1 with a message otherwise."""
import itertools
import math
import signal
import sys

import mingus.core.meter as meter
import mingus.core.value as value

failures = []
checked = [0]


def check(cond, msg):
    checked[0] += 1
    if not cond:
        failures.append(msg)


def close(a, b, rel=1e-9):
    return abs(a - b) <= rel * max(abs(a), abs(b))


def on_timeout(signum, frame):
    print("FAIL: a call did not terminate in time")
    os._exit(1)


signal.signal(signal.SIGALRM, on_timeout)
signal.alarm(120)

BASES = [0.25, 0.5, 1, 2, 4, 8, 16, 32, 64, 128]
check(list(value.base_values) == BASES, "base_values changed")

# 1. analysis inverts construction ------------------------------------------
for rep in range(2):  # twice: same answers when asked again
    for base in BASES:
        for variant in (base, float(base)):
            for n in range(5):
                built = value.dots(variant, n)
                check(value.determine(built) == (base, n, 1, 1), "determine(dots(%r, %d)) -> %r" % (variant, n, value.determine(built)))
                built = value.dots(value=variant, nr=n)
                check(value.determine(value=built) == (base, n, 1, 1), "keyword form, dots(%r, %d)" % (variant, n))
            check(value.determine(value.dots(variant)) == (base, 1, 1, 1), "default single dot of %r" % variant)
            for helper, r1, r2 in ((value.triplet, 3, 2), (value.quintuplet, 5, 4), (value.septuplet, 7, 4)):
                got = value.determine(helper(variant))
                check(got == (base, 0, r1, r2), "determine(%s(%r)) -> %r" % (helper.__name__, variant, got))
                got = value.determine(value.tuplet(variant, r1, r2))
                check(got == (base, 0, r1, r2), "determine(tuplet(%r,%d,%d)) -> %r" % (variant, r1, r2, got))
            got = value.determine(value.septuplet(variant, True))
            check(got == (base, 0, 7, 4), "septuplet(%r, True)" % variant)
            got = value.determine(value.septuplet(value=variant, in_fourths=True))
            check(got == (base, 0, 7, 4), "septuplet keyword form %r" % variant)

# 2. within 1% of an undotted or single-dotted recognised value ---------------
FACTORS = [0.9901, 0.9925, 0.995, 0.9975, 0.999, 0.99999, 1.00001, 1.001, 1.0025, 1.005, 1.0075, 1.0099]
for base in BASES:
    targets = [
        (float(base), (base, 0, 1, 1)),
        (base * 1.5, (base, 0, 3, 2)),
        (base * 1.25, (base, 0, 5, 4)),
        (base * 1.75, (base, 0, 7, 4)),
        (base * 2 / 3.0, (base, 1, 1, 1)),
    ]
    for target, expected in targets:
        for f in FACTORS:
            got = value.determine(target * f)
            check(got == expected, "determine(%r * %r) -> %r, expected %r" % (target, f, got, expected))

# 3. add / subtract ----------------------------------------------------------
pool = []
for base in BASES:
    pool.append(base)
    pool.append(value.dots(base, 1))
    pool.append(value.dots(base, 3))
    pool.append(value.triplet(base))
    pool.append(value.quintuplet(base))
    pool.append(value.septuplet(base))
pairs = [(a, b) for a in pool[::3] for b in pool[1::4]] + list(itertools.product(BASES, BASES))
for a, b in pairs:
    s = value.add(a, b)
    check(close(1.0 / s, 1.0 / a + 1.0 / b), "add(%r, %r) -> %r" % (a, b, s))
    check(close(value.add(value1=a, value2=b), s, 1e-12), "add keyword form (%r, %r)" % (a, b))
    check(close(value.add(b, a), s, 1e-12), "add not symmetric (%r, %r)" % (a, b))
    check(close(value.subtract(s, b), a), "subtract(add(%r, %r), %r) -> %r" % (a, b, b, value.subtract(s, b)))
    check(close(value.subtract(s, a), b), "subtract(add(%r, %r), %r) -> %r" % (a, b, a, value.subtract(s, a)))
    if not close(a, b, 1e-6):
        d = value.subtract(a, b)
        check(close(1.0 / d, 1.0 / a - 1.0 / b), "subtract(%r, %r) -> %r" % (a, b, d))
        check(close(value.subtract(value1=a, value2=b), d, 1e-12), "subtract keyword form (%r, %r)" % (a, b))
        check(close(value.add(d, b), a), "add(subtract(%r, %r), %r) -> %r" % (a, b, b, value.add(d, b)))

# 4. tuplet helpers equal the ratio formula ------------------------------------
for v in pool + [3, 5, 7.5, 100, 1000.0, 0.1]:
    check(close(value.triplet(v), 3 * v / 2.0, 1e-12), "triplet(%r)" % v)
    check(close(value.triplet(v), value.tuplet(v, 3, 2), 1e-12), "triplet(%r) vs tuplet" % v)
    check(close(value.quintuplet(v), 5 * v / 4.0, 1e-12), "quintuplet(%r)" % v)
    check(close(value.quintuplet(v), value.tuplet(v, 5, 4), 1e-12), "quintuplet(%r) vs tuplet" % v)
    check(close(value.septuplet(v), 7 * v / 4.0, 1e-12), "septuplet(%r)" % v)
    check(close(value.septuplet(v), value.tuplet(v, 7, 4), 1e-12), "septuplet(%r) vs tuplet" % v)
    check(close(value.septuplet(v, False), 7 * v / 8.0, 1e-12), "septuplet(%r, False)" % v)
    check(close(value.septuplet(v, in_fourths=False), value.tuplet(v, 7, 8), 1e-12), "septuplet(%r, False) vs tuplet" % v)
    for r1, r2 in ((3, 2), (5, 4), (7, 4), (7, 8), (9, 8), (2, 3), (11, 8)):
        check(close(value.tuplet(v, r1, r2), r1 * v / float(r2), 1e-12), "tuplet(%r, %d, %d)" % (v, r1, r2))
        check(close(value.tuplet(value=v, rat1=r1, rat2=r2), r1 * v / float(r2), 1e-12), "tuplet keyword form")


# 5. meters ----------------------------------------------------------------------
def is_pow2(x):
    if isinstance(x, float):
        if x != x or x in (float("inf"), float("-inf")) or x < 1 or x != math.floor(x):
            return False
        x = int(x)
    return x > 0 and bin(x).count("1") == 1


units = list(range(-9, 70)) + [96, 100, 127, 128, 129, 255, 256, 257, 1000, 1024, 4096, 65535, 65536, 65537]
units += [2 ** 31, 2 ** 31 - 1, 2 ** 32, 2 ** 53, 2 ** 53 + 1, 2 ** 64, 2 ** 64 + 2, 3 * 2 ** 40, 2 ** 200, 2 ** 200 + 2 ** 100]
units += [2 ** 3000, 2 ** 3000 + 2, 2 ** 3000 - 1, -(2 ** 70), 10 ** 30]
units += [0.0, -0.0, 0.25, 0.5, 0.75, 1.0, 1.5, 2.0, 2.5, 3.0, 4.0, 4.000001, 6.0, 8.0, 8.5, 12.0, 16.0, 1e9, 2.0 ** 40, 2.0 ** 40 + 1,
          2.0 ** 600, 1e300, 1.7976931348623157e308, 5e-324, -1.0, -2.0, -4.0, -0.5, float("inf"), float("-inf"), float("nan")]
units += [True, False]
counts = list(range(-7, 40)) + [48, 63, 64, 99, 100, 999, 10 ** 20, 10 ** 20 + 1, 3 * 10 ** 20, -(10 ** 20), 2 ** 70 + 1, 3 ** 50]

for u in units:
    check(bool(meter.valid_beat_duration(u)) == is_pow2(u), "valid_beat_duration(%r) -> %r" % (u, meter.valid_beat_duration(u)))
    check(bool(meter.valid_beat_duration(duration=u)) == is_pow2(u), "valid_beat_duration keyword (%r)" % (u,))

for c in counts:
    for u in units:
        for m in ((c, u), [c, u]):
            valid = c > 0 and is_pow2(u)
            check(bool(meter.is_valid(m)) == valid, "is_valid(%r) -> %r" % (m, meter.is_valid(m)))
            check(bool(meter.is_compound(m)) == (valid and c % 3 == 0 and c >= 6), "is_compound(%r) -> %r" % (m, meter.is_compound(m)))
            check(bool(meter.is_asymmetrical(m)) == (valid and c % 2 == 1), "is_asymmetrical(%r) -> %r" % (m, meter.is_asymmetrical(m)))
            r = meter.is_simple(m)  # only has to terminate
            check(r in (True, False), "is_simple(%r) -> %r" % (m, r))
check(bool(meter.is_valid(meter=(4, 4))) and bool(meter.is_compound(meter=(6, 8))) and bool(meter.is_asymmetrical(meter=(5, 8))), "keyword meter")
check(bool(meter.is_valid(meter.common_time)) and bool(meter.is_valid(meter.cut_time)), "common/cut time")

signal.alarm(0)
if failures:
    print("FAIL: %d of %d checks failed" % (len(failures), checked[0]))
    for f in failures[:25]:
        print("  " + f)
    sys.exit(1)
print("OK: %d checks" % checked[0])
sys.exit(0)
