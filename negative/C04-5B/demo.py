import mingus, os; assert os.path.realpath(mingus.__file__).startswith(os.path.realpath(os.path.dirname(__file__)))
import sys

from mingus.core import keys, intervals, notes
from mingus.core.mt_exceptions import NoteFormatError, RangeError

MAJOR = ["Cb", "Gb", "Db", "Ab", "Eb", "Bb", "F", "C", "G", "D", "A", "E", "B", "F#", "C#"]
MINOR = ["ab", "eb", "bb", "f", "c", "g", "d", "a", "e", "b", "f#", "c#", "g#", "d#", "a#"]
LETTERS = "CDEFGAB"
SHARP_ORDER = ["F#", "C#", "G#", "D#", "A#", "E#", "B#"]
FLAT_ORDER = ["Bb", "Eb", "Ab", "Db", "Gb", "Cb", "Fb"]
MAJOR_STEPS = [2, 2, 1, 2, 2, 2, 1]
MINOR_STEPS = [2, 1, 2, 2, 1, 2, 2]

failures = []
count = [0]


def check(cond, msg):
    count[0] += 1
    if not cond:
        failures.append(msg)


def raises(exc, f, *a, **kw):
    try:
        f(*a, **kw)
    except exc:
        return True
    except Exception as e:  # wrong class
        return "wrong exception %s: %s" % (type(e).__name__, str(e)[:80])
    return "no exception"


class MyStr(str):
    pass


# ---------------------------------------------------------------- the keys
for rnd in range(2):  # twice: anything remembered must not disturb later calls
    for sig, (maj, mino) in enumerate(zip(MAJOR, MINOR), start=-7):
        for k, steps, mode in ((maj, MAJOR_STEPS, "major"), (mino, MINOR_STEPS, "minor")):
            for kk in (k, MyStr(k)):
                ns = keys.get_notes(kk)
                check(isinstance(ns, list) and len(ns) == 7, "%s: 7 notes" % k)
                tonic = k[0].upper() + k[1:]
                check(ns[0] == tonic, "%s: starts on tonic, got %r" % (k, ns))
                start = LETTERS.index(tonic[0])
                check(
                    [n[0] for n in ns] == [LETTERS[(start + i) % 7] for i in range(7)],
                    "%s: letters in order %r" % (k, ns),
                )
                got_steps = [
                    (notes.note_to_int(ns[(i + 1) % 7]) - notes.note_to_int(ns[i])) % 12
                    for i in range(7)
                ]
                check(got_steps == steps, "%s: steps %r" % (k, got_steps))
                acc = keys.get_key_signature_accidentals(kk)
                check(isinstance(acc, list), "%s: accidentals list" % k)
                check(
                    sorted(n for n in ns if len(n) > 1) == sorted(acc),
                    "%s: accidentals %r vs notes %r" % (k, acc, ns),
                )
                check(all(len(n) <= 2 for n in ns), "%s: single accidentals" % k)
                s = keys.get_key_signature(kk)
                check(s == sig and type(s) is int, "%s: signature %r" % (k, s))
                check(len(acc) == abs(sig), "%s: accidental count" % k)
                if sig > 0:
                    check(acc == SHARP_ORDER[:sig], "%s: sharps order %r" % (k, acc))
                elif sig < 0:
                    check(acc == FLAT_ORDER[:-sig], "%s: flats order %r" % (k, acc))
                else:
                    check(acc == [], "%s: no accidentals" % k)
                check(keys.is_valid_key(kk) is True, "%s: valid" % k)
                # returned lists are the caller's own
                ns.append("X")
                ns[0] = "Q"
                acc.append("Zb")
                check(keys.get_notes(k)[0] == tonic and len(keys.get_notes(k)) == 7, "%s: copy" % k)
                check(len(keys.get_key_signature_accidentals(k)) == abs(sig), "%s: acc copy" % k)

                ko = keys.Key(kk)
                check(ko.key == k, "%s: Key.key" % k)
                check(ko.mode == mode, "%s: Key.mode %r" % (k, ko.mode))
                check(ko.signature == sig, "%s: Key.signature" % k)
                want = tonic[0] + " " + {"#": "sharp ", "b": "flat "}.get(k[1:], "") + mode
                check(ko.name == want, "%s: Key.name %r != %r" % (k, ko.name, want))
                check(keys.Key(key=k) == ko and not (keys.Key(k) != ko), "%s: Key eq" % k)

        # lookups inverse
        couple = keys.get_key(sig)
        check(tuple(couple) == (maj, mino), "get_key(%d) = %r" % (sig, couple))
        check(tuple(keys.get_key(accidentals=sig)) == (maj, mino), "get_key kw %d" % sig)
        check(keys.get_key_signature(couple[0]) == sig, "sig(get_key(%d)[0])" % sig)
        check(keys.get_key_signature(couple[1]) == sig, "sig(get_key(%d)[1])" % sig)
        check(maj in keys.get_key(keys.get_key_signature(maj)), "get_key(sig(%s))" % maj)
        check(mino in keys.get_key(keys.get_key_signature(key=mino)), "get_key(sig(%s))" % mino)

        # relatives
        check(keys.relative_minor(maj) == mino, "relative_minor(%s)" % maj)
        check(keys.relative_major(mino) == maj, "relative_major(%s)" % mino)
        check(keys.relative_major(keys.relative_minor(maj)) == maj, "rel inverse %s" % maj)
        check(keys.relative_minor(keys.relative_major(key=mino)) == mino, "rel inverse %s" % mino)
        check(
            sorted(keys.get_notes(maj)) == sorted(keys.get_notes(mino)),
            "shared notes %s/%s" % (maj, mino),
        )
        check(
            (notes.note_to_int(mino[0].upper() + mino[1:]) - notes.note_to_int(maj)) % 12 == 9,
            "minor tonic 9 above %s" % maj,
        )
        check(raises(NoteFormatError, keys.relative_minor, mino) is True, "relative_minor(%s) refused" % mino)
        check(raises(NoteFormatError, keys.relative_major, maj) is True, "relative_major(%s) refused" % maj)

check(tuple(keys.get_key()) == ("C", "a"), "get_key default")
check(keys.get_key_signature() == 0, "sig default")
check(keys.get_notes() == list(LETTERS), "notes default")
check(keys.get_key_signature_accidentals() == [], "acc default")
check(keys.Key().name == "C major", "Key default")

# ---------------------------------------------------------------- refusals
BAD_KEYS = [
    "", "H", "h", "c##", "C##", "Fb", "fb", "cb", "gb", "db", "e#", "E#", "B#", "b#", "A#", "D#",
    "G#", "C\n", "\nC", "C ", " C", "c\x00", "C\x00", "{", "{0}", "%", "%s", "%(key)s", "é",
    "С", "Ｃ", "C" * 1000, "c#" * 500, "Cb" + "b" * 10000, "CC", "Ca", "ab ", "AB", "Ab#",
    "F##", "f#b", "Cmajor", "C major", "a minor", "1", "-1", "None", "C♯", "B♭", "ſ",
    MyStr("H"), MyStr(""), MyStr("Fb"),
]
for rnd in range(3):
    for bad in BAD_KEYS:
        tag = repr(bad)[:30]
        check(keys.is_valid_key(bad) is False, "is_valid_key(%s)" % tag)
        for f in (
            keys.get_key_signature,
            keys.get_key_signature_accidentals,
            keys.get_notes,
            keys.Key,
            keys.relative_major,
            keys.relative_minor,
        ):
            r = raises(NoteFormatError, f, bad)
            check(r is True, "%s(%s): %s" % (getattr(f, "__name__", f), tag, r))
        r = raises(NoteFormatError, keys.get_notes, key=bad)
        check(r is True, "get_notes(key=%s): %s" % (tag, r))
        r = raises(NoteFormatError, intervals.third, "C", bad)
        check(r is True, "third('C', %s): %s" % (tag, r))

BAD_NUMBERS = [-8, 8, 9, -9, 12, 15, -15, 100, -100, 255, 256, -256, 2 ** 31, -(2 ** 31), 2 ** 64,
               10 ** 30, -(10 ** 30), 10 ** 5000, -(10 ** 5000)]
for rnd in range(2):
    for n in BAD_NUMBERS:
        r = raises(RangeError, keys.get_key, n)
        check(r is True, "get_key(%s...): %s" % (str(n)[:12] if abs(n) < 10 ** 40 else "huge", r))
        r = raises(RangeError, keys.get_key, accidentals=n)
        check(r is True, "get_key(accidentals=...): %s" % (r,))
# still fine after the refusals
check(tuple(keys.get_key(-7)) == ("Cb", "ab") and tuple(keys.get_key(7)) == ("C#", "a#"), "ends")
check(keys.get_notes("F") == ["F", "G", "A", "Bb", "C", "D", "E"], "F after refusals")

# ---------------------------------------------------------------- diatonic steps
FUNCS = [intervals.second, intervals.third, intervals.fourth, intervals.fifth, intervals.sixth, intervals.seventh]
SPELLINGS = ["", "#", "b", "##", "bb", "#b", "b#b", "#" * 50, "b" * 1001]
for k in MAJOR + MINOR:
    ns = keys.get_notes(k)
    by_letter = dict((n[0], n) for n in ns)
    for letter in LETTERS:
        for sp in SPELLINGS:
            note = letter + sp
            for step, f in enumerate(FUNCS, start=1):
                want = by_letter[LETTERS[(LETTERS.index(letter) + step) % 7]]
                got = f(note, k)
                check(got == want, "%s(%r, %r) = %r, want %r" % (f.__name__, note[:6], k, got, want))
            if sp in ("", "#"):
                for step, f in enumerate(FUNCS, start=1):
                    want = by_letter[LETTERS[(LETTERS.index(letter) + step) % 7]]
                    got = f(key=k, note=MyStr(note))
                    check(got == want, "%s(kw %r, %r) = %r" % (f.__name__, note, k, got))
                    got = intervals.interval(k, note, step)
                    check(got == want, "interval(%r, %r, %d) = %r" % (k, note, step, got))
    check(keys.get_notes(k) == ns, "%s unchanged after steps" % k)

if failures:
    print("PROPERTY C04 VIOLATED (%d of %d checks):" % (len(failures), count[0]))
    for m in failures[:25]:
        print("  " + m)
    sys.exit(1)
print("ok: %d checks" % count[0])
sys.exit(0)
