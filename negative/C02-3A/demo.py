import mingus, os; assert os.path.realpath(mingus.__file__).startswith(os.path.realpath(os.path.dirname(__file__)))
import itertools
import sys

from mingus.core import intervals, notes

LETTERS = "CDEFGAB"
NATURAL = {"C": 0, "D": 2, "E": 4, "F": 5, "G": 7, "A": 9, "B": 11}

# constructor name -> (letters up, semitones up)
CONSTRUCTORS = {
    "minor_unison": (0, 11),
    "major_unison": (0, 0),
    "augmented_unison": (0, 1),
    "minor_second": (1, 1),
    "major_second": (1, 2),
    "minor_third": (2, 3),
    "major_third": (2, 4),
    "minor_fourth": (3, 4),
    "major_fourth": (3, 5),
    "perfect_fourth": (3, 5),
    "minor_fifth": (4, 6),
    "major_fifth": (4, 7),
    "perfect_fifth": (4, 7),
    "minor_sixth": (5, 8),
    "major_sixth": (5, 9),
    "minor_seventh": (6, 10),
    "major_seventh": (6, 11),
}
assert len(CONSTRUCTORS) == 17


def pc(name):
    """Independent pitch class of a valid name."""
    v = NATURAL[name[0]]
    for ch in name[1:]:
        v += 1 if ch == "#" else -1
    return v % 12


def fail(msg):
    print("PROPERTY VIOLATED: " + msg)
    sys.exit(1)


def all_names():
    tails = [""]
    for n in (1, 2, 3):
        tails += ["".join(t) for t in itertools.product("#b", repeat=n)]
    tails += [
        "#" * 6, "b" * 6, "#" * 7, "b" * 7, "#" * 11, "b" * 11, "#" * 12, "b" * 12,
        "#" * 13, "b" * 25, "#b" * 10, "b#" * 9 + "b", "#" * 18, "b" * 18,
        "#" * 100, "b" * 101, "##b##b##", "bbbb#", "####b",
    ]
    return [l + t for l in LETTERS for t in tails]


def check_constructors(names):
    count = 0
    for rnd in range(2):  # twice: results must not depend on call history
        for cname, (steps, semis) in CONSTRUCTORS.items():
            fn = getattr(intervals, cname)
            for i, name in enumerate(names):
                if (i + rnd) % 5 == 0:
                    res = fn(note=name)
                else:
                    res = fn(name)
                count += 1
                where = "%s(%r) -> %r" % (cname, name, res)
                if not isinstance(res, str) or not res:
                    fail(where + ": not a non-empty string")
                want_letter = LETTERS[(LETTERS.index(name[0]) + steps) % 7]
                if res[0] != want_letter:
                    fail(where + ": letter should be " + want_letter)
                acc = res[1:]
                if acc.strip("#") and acc.strip("b"):
                    fail(where + ": mixes sharps and flats / bad characters")
                if len(acc) > 6:
                    fail(where + ": more than six accidentals")
                if not notes.is_valid_note(res):
                    fail(where + ": library says result is not valid")
                if (pc(res) - pc(name)) % 12 != semis:
                    fail(where + ": wrong semitone distance (independent)")
                if intervals.measure(name, res) != semis:
                    fail(where + ": wrong semitone distance (measure)")
    return count


def check_measure(names):
    count = 0
    for a in names:
        pa = pc(a)
        if notes.note_to_int(a) != pa:
            fail("note_to_int(%r) = %r, want %r" % (a, notes.note_to_int(a), pa))
        for b in names:
            d = (pc(b) - pa) % 12
            m = intervals.measure(a, b)
            count += 1
            if m != d or isinstance(m, bool):
                fail("measure(%r, %r) = %r, want %r" % (a, b, m, d))
            perfect = d in (0, 5, 7)
            perfect_no4 = d in (0, 7)
            imperfect = d in (3, 4, 8, 9)
            checks = [
                ("is_perfect_consonant", intervals.is_perfect_consonant(a, b), perfect),
                ("is_perfect_consonant/True", intervals.is_perfect_consonant(a, b, True), perfect),
                ("is_perfect_consonant/False", intervals.is_perfect_consonant(a, b, False), perfect_no4),
                ("is_perfect_consonant/kw", intervals.is_perfect_consonant(note1=a, note2=b, include_fourths=False), perfect_no4),
                ("is_imperfect_consonant", intervals.is_imperfect_consonant(a, b), imperfect),
                ("is_consonant", intervals.is_consonant(a, b), perfect or imperfect),
                ("is_consonant/False", intervals.is_consonant(a, b, include_fourths=False), perfect_no4 or imperfect),
                ("is_dissonant", intervals.is_dissonant(a, b), not (perfect or imperfect)),
                ("is_dissonant/True", intervals.is_dissonant(a, b, True), not (perfect_no4 or imperfect)),
                ("is_dissonant/kwFalse", intervals.is_dissonant(note1=a, note2=b, include_fourths=False), not (perfect or imperfect)),
            ]
            for label, got, want in checks:
                if bool(got) != want:
                    fail("%s(%r, %r) = %r, want %r (measure %d)" % (label, a, b, got, want, d))
    return count


def main():
    names = all_names()
    for n in names:
        if not notes.is_valid_note(n):
            fail("is_valid_note(%r) is false for a valid name" % n)
    n1 = check_constructors(names)
    n2 = check_measure(names)
    # a few well known spellings
    known = [
        ("minor_seventh", "Cb", "Bbb"), ("major_third", "C", "E"), ("minor_third", "F", "Ab"),
        ("major_seventh", "B#", "A##"), ("perfect_fifth", "B", "F#"), ("perfect_fourth", "F", "Bb"),
        ("minor_second", "E", "F"), ("augmented_unison", "Cb", "C"), ("minor_unison", "C#", "C"),
        ("major_sixth", "Gb", "Eb"), ("minor_fifth", "B", "F"), ("minor_fourth", "C", "Fb"),
    ]
    for cname, arg, want in known:
        got = getattr(intervals, cname)(arg)
        if got != want:
            fail("%s(%r) = %r, want %r" % (cname, arg, got, want))
    print("ok: %d names, %d constructor calls, %d ordered pairs" % (len(names), n1, n2))
    sys.exit(0)


if __name__ == "__main__":
    main()
