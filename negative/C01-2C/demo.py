import mingus, os; assert os.path.realpath(mingus.__file__).startswith(os.path.realpath(os.path.dirname(__file__)))
"""Direct check of property C01 (note names and pitch classes agree for every
spelling) through the public API of mingus.core.notes.

Exit status 0 when the statement holds on all cases, 1 with a message otherwise.
"""
import itertools
import random
import sys

from mingus.core import notes
from mingus.core.mt_exceptions import FormatError, NoteFormatError, RangeError

NATURAL = {"C": 0, "D": 2, "E": 4, "F": 5, "G": 7, "A": 9, "B": 11}
SHARP_OK = set(NATURAL) | set(l + "#" for l in NATURAL)
FLAT_OK = set(NATURAL) | set(l + "b" for l in NATURAL)

failures = []
checked = [0]


def fail(msg):
    failures.append(msg)
    if len(failures) > 25:
        finish()


def finish():
    if failures:
        print("C01 VIOLATED (%d problems, %d cases)" % (len(failures), checked[0]))
        for f in failures[:25]:
            print("  -", f)
        sys.exit(1)
    print("C01 holds on %d cases" % checked[0])
    sys.exit(0)


def call(func, *args, **kwargs):
    """Return ('ok', value) or ('err', exception)."""
    try:
        return "ok", func(*args, **kwargs)
    except Exception as e:  # noqa
        return "err", e


def expect(desc, func, args, want, kwargs=None):
    checked[0] += 1
    kind, got = call(func, *args, **(kwargs or {}))
    if kind != "ok":
        fail("%s raised %s: %.80s" % (desc, type(got).__name__, got))
        return None
    if want is not None and got != want:
        fail("%s returned %.60r, expected %.60r" % (desc, got, want))
    return got


def expect_error(desc, func, args, exc, kwargs=None):
    checked[0] += 1
    kind, got = call(func, *args, **(kwargs or {}))
    if kind == "ok":
        fail("%s returned %.60r instead of raising %s" % (desc, got, exc.__name__))
    elif not isinstance(got, exc):
        fail("%s raised %s instead of %s" % (desc, type(got).__name__, exc.__name__))


def short(name):
    return name if len(name) < 30 else "%s...(len %d)" % (name[:20], len(name))


def spec_pc(name):
    return (NATURAL[name[0]] + name[1:].count("#") - name[1:].count("b")) % 12


def check_name(name):
    """Everything the statement says about one well-formed name."""
    d = short(name)
    letter = name[0]
    net = name[1:].count("#") - name[1:].count("b")
    pc = spec_pc(name)

    got = expect("is_valid_note(%r)" % d, notes.is_valid_note, (name,), None)
    if got is not True:
        fail("is_valid_note(%r) is %r, expected True" % (d, got))
    expect("note_to_int(%r)" % d, notes.note_to_int, (name,), pc)

    for fname, step in (("augment", 1), ("diminish", -1)):
        res = expect("%s(%r)" % (fname, d), getattr(notes, fname), (name,), None)
        if res is None:
            continue
        if not isinstance(res, str) or not res or res[0] != letter:
            fail("%s(%r) = %r does not keep the letter" % (fname, d, short(str(res))))
            continue
        if set(res[1:]) - set("#b"):
            fail("%s(%r) = %r is not a note name" % (fname, d, short(res)))
            continue
        if spec_pc(res) != (pc + step) % 12:
            fail("%s(%r) = %r moves the pitch class by the wrong amount" % (fname, d, short(res)))
        expect("note_to_int(%s(%r))" % (fname, d), notes.note_to_int, (res,), (pc + step) % 12)

    want = letter + ("#" * net if net > 0 else "b" * (-net))
    expect("remove_redundant_accidentals(%r)" % d, notes.remove_redundant_accidentals, (name,), want)

    res = expect("reduce_accidentals(%r)" % d, notes.reduce_accidentals, (name,), None)
    if res is not None:
        if not isinstance(res, str) or res not in (SHARP_OK | FLAT_OK):
            fail("reduce_accidentals(%r) = %r has more than one accidental" % (d, short(str(res))))
        else:
            if spec_pc(res) != pc:
                fail("reduce_accidentals(%r) = %r changes the pitch class" % (d, res))
            if len(res) == 2 and net > 0 and res[1] != "#":
                fail("reduce_accidentals(%r) = %r: net raise must use a sharp" % (d, res))
            if len(res) == 2 and net < 0 and res[1] != "b":
                fail("reduce_accidentals(%r) = %r: net lowering must use a flat" % (d, res))


# ---------------------------------------------------------------- well-formed
names = []
for k in range(0, 6):  # all 2^k orderings up to length 5
    for acc in itertools.product("#b", repeat=k):
        for letter in "CDEFGAB":
            names.append(letter + "".join(acc))
rng = random.Random(20240101)
for length in (6, 7, 9, 11, 12, 13, 23, 24, 25, 40, 97, 300):
    for letter in "CDEFGAB":
        names.append(letter + "".join(rng.choice("#b") for _ in range(length)))
for letter in "CDEFGAB":
    names.append(letter + "#" * 12)
    names.append(letter + "b" * 12)
    names.append(letter + "#" * 25 + "b" * 13)
    names.append(letter + "b#" * 50)
names.append("B" + "b" * 2000)
names.append("E" + "#" * 3001)
names.append("G" + "".join(rng.choice("#b") for _ in range(20000)))
names.append("A" + "#b" * 3000 + "b")

for n in names:
    check_name(n)
# the same objects used again (a cache must not change the answers)
for n in names[:200]:
    check_name(n)
# keyword form
for n in ("C", "Bb", "F##", "Gb#b", "E#"):
    expect("note_to_int(note=%r)" % n, notes.note_to_int, (), spec_pc(n), {"note": n})
    expect("is_valid_note(note=%r)" % n, notes.is_valid_note, (), True, {"note": n})
    expect("reduce_accidentals(note=%r)" % n, notes.reduce_accidentals, (), None, {"note": n})
    expect("remove_redundant_accidentals(note=%r)" % n, notes.remove_redundant_accidentals, (), None, {"note": n})
    expect("augment(note=%r)" % n, notes.augment, (), None, {"note": n})
    expect("diminish(note=%r)" % n, notes.diminish, (), None, {"note": n})

# ---------------------------------------------------------------- enharmonic
pool = names[: 7 * 31] + names[-30:]
for _ in range(600):
    a, b = rng.choice(pool), rng.choice(pool)
    want = spec_pc(a) == spec_pc(b)
    got = expect("is_enharmonic(%r, %r)" % (short(a), short(b)), notes.is_enharmonic, (a, b), None)
    if got is not None and bool(got) != want:
        fail("is_enharmonic(%r, %r) = %r, expected %r" % (short(a), short(b), got, want))
for a, b, want in (("C#", "Db", True), ("B#", "C", True), ("Cb", "B", True), ("E", "Fb", True),
                   ("C", "D", False), ("F#", "G", False), ("A", "A", True), ("A", "Abb#", False)):
    got = expect("is_enharmonic(%r, %r)" % (a, b), notes.is_enharmonic, (a, b), None)
    if got is not None and bool(got) != want:
        fail("is_enharmonic(%r, %r) = %r, expected %r" % (a, b, got, want))
got = expect("is_enharmonic(note1=, note2=)", notes.is_enharmonic, (), None, {"note1": "Gb", "note2": "F#"})
if got is not None and not got:
    fail("is_enharmonic(note1='Gb', note2='F#') is false")

# ---------------------------------------------------------------- numbers -> names
for pc in range(12):
    for style, allowed in (("#", SHARP_OK), ("b", FLAT_OK)):
        for form in ("pos", "kw"):
            if form == "pos":
                res = expect("int_to_note(%d, %r)" % (pc, style), notes.int_to_note, (pc, style), None)
            else:
                res = expect("int_to_note(note_int=%d, accidentals=%r)" % (pc, style), notes.int_to_note,
                             (), None, {"note_int": pc, "accidentals": style})
            if res is None:
                continue
            if res not in allowed:
                fail("int_to_note(%d, %r) = %r is not in the %r style" % (pc, style, res, style))
                continue
            expect("note_to_int(int_to_note(%d, %r))" % (pc, style), notes.note_to_int, (res,), pc)
    res = expect("int_to_note(%d)" % pc, notes.int_to_note, (pc,), None)
    if res is not None:
        if res not in SHARP_OK:
            fail("int_to_note(%d) = %r is not in the sharp style" % (pc, res))
        else:
            expect("note_to_int(int_to_note(%d))" % pc, notes.note_to_int, (res,), pc)

bad_ints = [-1, -2, -11, -12, -13, 12, 13, 23, 24, 100, 255, 256, -256, 123123, -123,
            2 ** 31, 2 ** 63, -2 ** 63, 2 ** 64 + 3, 10 ** 30, -10 ** 30,
            10 ** 4299, 10 ** 4300, 10 ** 5000, -(10 ** 5000), 1 << 40000]
for i in bad_ints:
    d = str(i) if abs(i) < 10 ** 12 else "<int of %d bits>" % i.bit_length()
    expect_error("int_to_note(%s)" % d, notes.int_to_note, (i,), RangeError)
    expect_error("int_to_note(%s, 'b')" % d, notes.int_to_note, (i, "b"), RangeError)
    expect_error("int_to_note(%s, '#')" % d, notes.int_to_note, (i, "#"), RangeError)
for style in ("x", "", "##", "bb", "B", "#b", " #", "# ", "sharp", "flat", "%s", "{}", "{0}", "\n", "%", None, 0, 1):
    for pc in (0, 1, 6, 11):
        expect_error("int_to_note(%d, %r)" % (pc, style), notes.int_to_note, (pc, style), FormatError)
    expect_error("int_to_note(3, accidentals=%r)" % (style,), notes.int_to_note, (3,), FormatError,
                 {"accidentals": style})

# ---------------------------------------------------------------- malformed strings
malformed = [
    "H", "c", "d", "a", "b", "g", "h", "X", "asdasd", "C###f", "E*", "C#x", "Cx#", "Cx", "xC", "C ", " C", "C# ",
    " C#", "C\n", "C#\n", "\nC", "C\t", "C\r\n", "C{", "C}", "C{}", "{}", "{0}", "C%s", "C%d", "%s", "%", "%%",
    "C%", "C%(x)s", "#", "b#", "bb", "##", "#C", "bC", "4", "C4", "C-4", "C#4", "C#-4", "Cis", "Ces", "CC", "Cc", "CB",
    "AB", "BB", "CD", "C#D", "cb", "c#", "C\x00", "\x00", "C#\x00b", "C##B", "C#B#", "Cn", "C=", "C+", "C-", "Cbb-",
    "C♯", "C♭", "C♮", "Ｃ", "Ｃ#", "C＃", "С", "C'", "C,", "C.", "Do", "do", "Re",
    "C #", "C# b", "C#b b", "C/E", "Cm", "CM", "Cmaj7", "C7", "Am", "Bbm", "0", "-1", "None", "True", "C" * 5,
    "C" + "#" * 200 + "x", "C" + "#" * 200 + "x" + "b" * 200, "x" + "#" * 50, "G" + "b#" * 3000 + " ",
    "C" + "#b" * 3000 + "\n", "%" * 500, "{" * 500, "I", "@", "[", "`", "G#A", "A##é",
]
for s in malformed:
    d = short(s)
    got = expect("is_valid_note(%r)" % d, notes.is_valid_note, (s,), None)
    if got is not False and got is not None:
        fail("is_valid_note(%r) is %r, expected False" % (d, got))
    expect_error("note_to_int(%r)" % d, notes.note_to_int, (s,), NoteFormatError)
    expect_error("reduce_accidentals(%r)" % d, notes.reduce_accidentals, (s,), NoteFormatError)
expect_error("note_to_int(note='H#')", notes.note_to_int, (), NoteFormatError, {"note": "H#"})
expect_error("reduce_accidentals(note='C#x')", notes.reduce_accidentals, (), NoteFormatError, {"note": "C#x"})
# well-formed names are still fine after the malformed ones
for n in names[:100]:
    check_name(n)

finish()
