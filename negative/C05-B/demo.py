import mingus, os; assert os.path.realpath(mingus.__file__).startswith(os.path.realpath(os.path.dirname(__file__)))
"""Direct check of property C05 (scales realise their step pattern; recognition is exact)
through the public API only.  Exit 0 when it holds, 1 with a message otherwise."""
import random
import sys

from mingus.core import scales
from mingus.core.keys import keys as KEY_PAIRS

SEMI = {"C": 0, "D": 2, "E": 4, "F": 5, "G": 7, "A": 9, "B": 11}
LETTERS = "CDEFGAB"
failures = []
ncases = [0]


def pc(note):
    return (SEMI[note[0]] + note.count("#") - note.count("b")) % 12


def fail(msg):
    failures.append(msg)
    if len(failures) > 20:
        finish()


def finish():
    if failures:
        print("C05 VIOLATED (%d problems, first ones):" % len(failures))
        for f in failures[:20]:
            print("  " + f)
        sys.exit(1)
    print("C05 holds on %d cases" % ncases[0])
    sys.exit(0)


def steps_up(lst):
    return [(pc(b) - pc(a)) % 12 for a, b in zip(lst, lst[1:])]


def steps_down(lst):
    return [(pc(a) - pc(b)) % 12 for a, b in zip(lst, lst[1:])]


MAJOR_TONICS = [p[0] for p in KEY_PAIRS]
MINOR_TONICS = [p[1][0].upper() + p[1][1:] for p in KEY_PAIRS]
ANY = [l + a for l in LETTERS for a in ("", "#", "b")] + ["C##", "Dbb", "F##", "Bbb"]
CHROM_KEYS = [k for p in KEY_PAIRS for k in p]

NAT_MINOR = (2, 1, 2, 2, 1, 2, 2)
PATTERNS = {
    "Ionian": ((2, 2, 1, 2, 2, 2, 1), ANY),
    "Dorian": ((2, 1, 2, 2, 2, 1, 2), ANY),
    "Phrygian": ((1, 2, 2, 2, 1, 2, 2), ANY),
    "Lydian": ((2, 2, 2, 1, 2, 2, 1), ANY),
    "Mixolydian": ((2, 2, 1, 2, 2, 1, 2), ANY),
    "Aeolian": ((2, 1, 2, 2, 1, 2, 2), ANY),
    "Locrian": ((1, 2, 2, 1, 2, 2, 2), ANY),
    "Major": ((2, 2, 1, 2, 2, 2, 1), MAJOR_TONICS),
    "HarmonicMajor": ((2, 2, 1, 2, 1, 3, 1), MAJOR_TONICS),
    "NaturalMinor": (NAT_MINOR, MINOR_TONICS),
    "HarmonicMinor": ((2, 1, 2, 2, 1, 3, 1), MINOR_TONICS),
    "MelodicMinor": ((2, 1, 2, 2, 2, 2, 1), MINOR_TONICS),
    "Bachian": ((2, 1, 2, 2, 2, 2, 1), MINOR_TONICS),
    "MinorNeapolitan": ((1, 2, 2, 2, 1, 3, 1), MINOR_TONICS),
    "Chromatic": ((1,) * 12, CHROM_KEYS),
    "WholeTone": ((2,) * 6, ANY),
    "Octatonic": ((2, 1) * 4, ANY),
}
assert len(PATTERNS) == 17
MAX_OCT = 3

for cname, (pattern, tonics) in sorted(PATTERNS.items()):
    cls = getattr(scales, cname)
    for t in tonics:
        for n in range(1, MAX_OCT + 1):
            ncases[0] += 1
            tag = "%s(%r, %d)" % (cname, t, n)
            s = cls(t, n)
            asc = s.ascending()
            desc = s.descending()
            tonic = t if cname != "Chromatic" else t[0].upper() + t[1:]
            if not isinstance(asc, list) or not isinstance(desc, list):
                fail(tag + ": note lists are not lists")
                continue
            # ascending pattern repeated n times
            if steps_up(asc) != list(pattern) * n:
                fail(tag + ": ascending steps %r" % (steps_up(asc),))
            if asc[0] != tonic or asc[-1] != tonic:
                fail(tag + ": ascending does not begin/end on tonic: %r" % (asc,))
            if desc[0] != tonic or desc[-1] != tonic:
                fail(tag + ": descending does not begin/end on tonic: %r" % (desc,))
            if len(pattern) == 7:
                i0 = LETTERS.index(tonic[0])
                want = [LETTERS[(i0 + i) % 7] for i in range(7 * n + 1)]
                if [x[0] for x in asc] != want:
                    fail(tag + ": ascending letters not consecutive: %r" % (asc,))
                if [x[0] for x in desc] != want[::-1]:
                    fail(tag + ": descending letters not consecutive: %r" % (desc,))
            # descending form
            if cname == "MelodicMinor":
                if desc != scales.NaturalMinor(t, n).descending():
                    fail(tag + ": descending is not natural minor: %r" % (desc,))
                if steps_down(desc) != list(NAT_MINOR[::-1]) * n:
                    fail(tag + ": descending steps %r" % (steps_down(desc),))
            elif cname == "MinorNeapolitan":
                nat = scales.NaturalMinor(t, n).descending()
                if len(desc) != len(nat):
                    fail(tag + ": descending length")
                else:
                    for i, (x, y) in enumerate(zip(desc, nat)):
                        second = (len(nat) - 1 - i) % 7 == 1
                        if second:
                            if x[0] != y[0] or pc(x) != (pc(y) - 1) % 12:
                                fail(tag + ": descending second not lowered: %r" % (desc,))
                        elif x != y:
                            fail(tag + ": descending differs from natural minor: %r" % (desc,))
                if steps_down(desc) != [2, 2, 1, 2, 2, 2, 1] * n:
                    fail(tag + ": descending steps %r" % (steps_down(desc),))
            elif cname == "Chromatic":
                # spelled with flats on the way down: the reverse in pitch
                if [pc(x) for x in desc] != [pc(x) for x in reversed(asc)]:
                    fail(tag + ": descending is not the reverse (pitch): %r" % (desc,))
            else:
                if desc != asc[::-1]:
                    fail(tag + ": descending is not the exact reverse: %r / %r" % (asc, desc))
            # degrees, length
            if len(s) != len(asc):
                fail(tag + ": len %r" % (len(s),))
            rdesc = desc[::-1]
            for k in range(1, len(asc)):
                if s.degree(k) != asc[k - 1] or s.degree(k, "a") != asc[k - 1]:
                    fail(tag + ": degree(%d,'a') = %r" % (k, s.degree(k, "a")))
                if s.degree(k, "d") != rdesc[k - 1]:
                    fail(tag + ": degree(%d,'d') = %r" % (k, s.degree(k, "d")))
            # results are independent lists
            asc.append("X")
            desc.append("X")
            if s.ascending()[-1] != tonic or s.descending()[-1] != tonic:
                fail(tag + ": returned lists are shared")

# equality follows the note lists
objs = []
for cname, (pattern, tonics) in sorted(PATTERNS.items()):
    for t in tonics[:6]:
        for n in (1, 2):
            objs.append(getattr(scales, cname)(t, n))
rnd = random.Random(5)
pairs = [(rnd.choice(objs), rnd.choice(objs)) for _ in range(600)]
pairs += [(scales.Major("Bb"), scales.Ionian("Bb")), (scales.NaturalMinor("E"), scales.Aeolian("E")),
          (scales.MelodicMinor("A"), scales.Bachian("A")), (scales.Major("C", 2), scales.Major("C", 1)),
          (scales.HarmonicMinor("A"), scales.HarmonicMinor("A"))]
pairs += [(o, o) for o in objs[:40]]
for a, b in pairs:
    ncases[0] += 1
    want = a.ascending() == b.ascending() and a.descending() == b.descending()
    if (a == b) is not want or (a != b) is want:
        fail("equality of %s/%d and %s/%d: == %r, != %r, lists equal %r" % (a.name, a.octaves, b.name, b.octaves, a == b, a != b, want))

# recognition against a brute-force specification
FAMILY = {"major": ["Major", "HarmonicMajor"],
          "minor": ["NaturalMinor", "HarmonicMinor", "MelodicMinor", "Bachian", "MinorNeapolitan"]}
CANDS = []
for maj, mino in KEY_PAIRS:
    for cname in FAMILY["major"]:
        s = getattr(scales, cname)(maj)
        CANDS.append((s.name, set(s.ascending()), set(s.descending())))
    mt = mino[0].upper() + mino[1:]
    for cname in FAMILY["minor"]:
        s = getattr(scales, cname)(mt)
        CANDS.append((s.name, set(s.ascending()), set(s.descending())))
assert len(CANDS) == 15 * 7 and len(set(c[0] for c in CANDS)) == 105


def spec(notes):
    ns = set(notes)
    return sorted(name for name, a, d in CANDS if ns <= a or ns <= d)


rnd = random.Random(99)
pool = [l + a for l in LETTERS for a in ("", "#", "b")] + ["F##", "C##", "G##", "Bbb", "Ebb", "Abb"]
note_sets = [[], ["A", "Bb", "E", "F#", "G"], ["C"], ["C", "C"], ["H"], ["E#"], ["Fb"]]
for name, a, d in CANDS:
    for src in (a, d):
        src = sorted(src)
        for k in (2, 4, 6, 7):
            note_sets.append(rnd.sample(src, k))
for i in range(300):
    note_sets.append([rnd.choice(pool) for _ in range(rnd.randint(1, 6))])
for container in (list, tuple, set):
    note_sets.append(container(["C", "E", "G"]))
for ns in note_sets:
    ncases[0] += 1
    got = scales.determine(ns)
    if not isinstance(got, list):
        fail("determine(%r) is not a list" % (ns,))
        continue
    if sorted(got) != spec(ns):
        fail("determine(%r) = %r, expected (any order) %r" % (ns, got, spec(ns)))
if sorted(scales.determine(["A", "Bb", "E", "F#", "G"])) != sorted(["G melodic minor", "G Bachian", "D harmonic major"]):
    fail("documented example of determine")

finish()
