import mingus, os; assert os.path.realpath(mingus.__file__).startswith(os.path.realpath(os.path.dirname(__file__)))
import itertools
import random
import sys

from mingus.containers.bar import Bar
from mingus.containers.composition import Composition
from mingus.containers.instrument import Guitar, Instrument, MidiInstrument, Piano
from mingus.containers.mt_exceptions import InstrumentRangeError
from mingus.containers.note import Note
from mingus.containers.note_container import NoteContainer
from mingus.containers.track import Track

CASES = [0]


class Failure(Exception):
    pass


def check(cond, msg):
    if not cond:
        raise Failure(msg)


def close(a, b):
    return abs(a - b) <= 1e-9 * max(1.0, abs(a), abs(b))


def content_of(notes):
    """A comparable picture of what is stored at an entry."""
    if notes is None:
        return None
    check(isinstance(notes, NoteContainer), "entry content %r is not a NoteContainer" % (notes,))
    return tuple((n.name, n.octave) for n in notes.notes)


def expected_content(item):
    if item is None:
        return None
    if isinstance(item, NoteContainer):
        return content_of(item)
    return content_of(NoteContainer(item))


def entries(track):
    """All entries of a track through the bars, as (value, content)."""
    out = []
    for bar in track:
        for entry in bar:
            beat, dur, notes = entry
            out.append((dur, content_of(notes)))
    return out


def entries_by_get_notes(track):
    return [(dur, content_of(notes)) for beat, dur, notes in track.get_notes()]


def picture(track):
    return [[(e[1], content_of(e[2])) for e in bar] for bar in track.bars]


def bars_ok(track, where):
    for i, bar in enumerate(track.bars[:-1]):
        check(bar.is_full(), "%s: bar %d of %d is not full" % (where, i, len(track.bars)))
    check(track.test_integrity() is True, "%s: test_integrity() is not True" % where)
    check(len(track) == len(track.bars), "%s: len(track) != number of bars" % where)
    for i in range(len(track.bars)):
        check(track[i] is track.bars[i], "%s: track[%d] is not its bar" % (where, i))


def run_ops(track, ops, where):
    """ops: (how, item, value) with how in 'pos', 'kw', 'plus', 'bar'.

    Checks every clause of the accumulation part of the statement.
    """
    CASES[0] += 1
    accepted = []
    accepted.extend(entries(track))
    for step, (how, item, val) in enumerate(ops):
        w = "%s step %d %r" % (where, step, (how, item, val))
        before = picture(track)
        flat_before = entries(track)
        nbars = len(track.bars)
        last = track.bars[-1] if nbars else None
        last_full = last.is_full() if last is not None else None
        last_key = last.key if last is not None else None
        last_meter = last.meter if last is not None else None

        if how == "bar":
            r = track.add_bar(item) if val else track + item
            check(r is track, w + ": add_bar did not return the track")
            check(len(track.bars) == nbars + 1 and track.bars[-1] is item, w + ": bar not appended")
            accepted.extend((e[1], content_of(e[2])) for e in item)
            continue

        want = expected_content(item)
        inst = track.instrument
        playable = True
        if inst is not None and item is not None:
            playable = inst.can_play_notes(NoteContainer(item) if not isinstance(item, NoteContainer) else item)
        try:
            if how == "pos":
                r = track.add_notes(item, val) if val is not None else track.add_notes(item)
            elif how == "kw":
                r = track.add_notes(note=item, duration=val)
            else:
                r = track + item
        except InstrumentRangeError:
            check(not playable, w + ": range error for a playable item")
            check(picture(track) == before, w + ": refused (range) item changed the track")
            check(len(track.bars) == nbars, w + ": refused (range) item changed the bar count")
            continue
        check(playable, w + ": out-of-range item did not raise InstrumentRangeError")
        check(r is True or r is False, w + ": result %r is not a bool" % (r,))
        eff = 4 if val is None else val
        if r:
            accepted.append((eff, want))
        flat_after = entries(track)
        check(flat_after == accepted, w + ": entries %r != accepted %r" % (flat_after, accepted))
        if not r:
            check(flat_after == flat_before, w + ": rejected item changed the contents")
            check(picture(track)[:nbars] == before, w + ": rejected item changed a bar")
        # a new bar only when the last one was full, inheriting key and meter
        grown = len(track.bars) - nbars
        if nbars == 0:
            check(grown <= 1, w + ": more than one bar opened")
        else:
            check(grown in (0, 1), w + ": bar count moved by %d" % grown)
            if grown:
                check(last_full, w + ": new bar although the last one was not full")
                nb = track.bars[-1]
                check(nb.key == last_key and nb.key.key == last_key.key, w + ": key not inherited")
                check(tuple(nb.meter) == tuple(last_meter), w + ": meter not inherited")
                check(close(nb.length, last.length), w + ": bar length not inherited")
        if r:
            lb = track.bars[-1]
            check(len(lb) >= 1 and lb[-1][1] == eff and content_of(lb[-1][2]) == want,
                  w + ": accepted item is not the last entry of the last bar")
        bars_ok(track, w)

    got = entries(track)
    check(got == accepted, where + ": final entries differ from accepted")
    check(entries_by_get_notes(track) == accepted, where + ": get_notes() differs from accepted")
    check(close(sum(1.0 / d for d, _ in got), sum(1.0 / d for d, _ in accepted)),
          where + ": sum of entry lengths != sum of accepted lengths")
    bars_ok(track, where)
    return accepted


INSTRUMENTS = [lambda: None, Instrument, Piano, Guitar, MidiInstrument, lambda: MidiInstrument("Cello")]
VALUES = [1, 2, 4, 8, 16, 32, 3, 6, 12, 5, 7, 8 / 3.0, 16 / 3.0, 4.0, 0.5, None]
METERS = [(4, 4), (3, 4), (6, 8), (2, 2), (5, 4), (7, 8), (2, 4), (12, 8), (1, 1)]
KEYS = ["C", "G", "F#", "Bb", "a", "e", "Eb", "c#"]


def random_item(rng):
    k = rng.randrange(10)
    if k < 3:
        return None
    if k == 3:
        return rng.choice(["C", "E-4", "G#-5", "Bb-4", "F-6", "E-3", "E-7"])
    if k == 4:
        return Note(rng.choice("CDEFGAB"), rng.randint(4, 6))
    if k == 5:
        return NoteContainer(rng.sample(["C-4", "E-4", "G-4", "B-4", "D-5", "F#-5"], rng.randint(1, 4)))
    if k == 6:
        return rng.sample(["C", "E", "G", "B", "D"], rng.randint(1, 3))
    if k == 7:
        return [Note("A", 4), Note("C", 5)]
    if k == 8:  # out of range for piano / guitar / midi, sometimes for all
        return rng.choice(["C-0", "E-0", "D-3", "C-9", "F-8", "A-12", Note("C", 9), NoteContainer(["C-4", "C-10"])])
    return NoteContainer()  # an empty container is still an item


def random_sequences():
    for seed in range(260):
        rng = random.Random(seed)
        track = Track(rng.choice(INSTRUMENTS)())
        if rng.random() < 0.6:
            track.add_bar(Bar(rng.choice(KEYS), rng.choice(METERS)))
        ops = []
        for _ in range(rng.randint(5, 45)):
            roll = rng.random()
            if roll < 0.04:
                b = Bar(rng.choice(KEYS), rng.choice(METERS))
                # only append a bar when it keeps the statement's premise (sequence of adds)
                ops.append(("bar_if_full", b, rng.random() < 0.5))
                continue
            item = random_item(rng)
            val = rng.choice(VALUES)
            how = rng.choice(["pos", "kw", "pos"])
            if val is None and isinstance(item, (str, Note, NoteContainer)) and rng.random() < 0.7:
                how = "plus"
            ops.append((how, item, val))
        # resolve bar_if_full lazily: run in chunks
        chunk = []
        for op in ops:
            if op[0] == "bar_if_full":
                run_ops(track, chunk, "random seed %d" % seed)
                chunk = []
                if len(track.bars) == 0 or track.bars[-1].is_full():
                    run_ops(track, [("bar", op[1], op[2])], "random seed %d add_bar" % seed)
            else:
                chunk.append(op)
        run_ops(track, chunk, "random seed %d" % seed)


def exhaustive_sequences():
    alphabet = [(item, val) for item in (None, "C", ["E", "G"]) for val in (1, 2, 4, 8)]
    n = 0
    for meter in [(4, 4), (3, 4), (6, 8)]:
        for length in (1, 2, 3):
            for seq in itertools.product(alphabet, repeat=length):
                n += 1
                if length == 3 and n % 5:
                    continue
                track = Track()
                track.add_bar(Bar("D", meter))
                run_ops(track, [("pos", i, v) for i, v in seq], "exhaustive %r %r" % (meter, seq))


def long_sequence():
    track = Track(Piano())
    ops = []
    rng = random.Random(99)
    for i in range(1500):
        ops.append(("pos", rng.choice([None, "C-4", "G-5", "C-0"]), rng.choice([4, 8, 16, 2, 3, 6])))
    run_ops(track, ops, "long")


def instrument_ranges():
    for make in INSTRUMENTS[1:]:
        inst = make()
        lo, hi = int(inst.range[0]), int(inst.range[1])
        for with_bar in (False, True):
            track = Track(inst)
            if with_bar:
                track.add_bar(Bar("F", (3, 4)))
            CASES[0] += 1
            w = "instrument %r" % (inst,)
            # rests are fine
            check(track.add_notes(None, 4) is True, w + ": rest refused")
            for n, ok in [(lo, True), (hi, True), ((lo + hi) // 2, True), (hi + 1, False), (hi + 14, False)] + (
                [(lo - 1, False)] if lo > 0 else []
            ):
                for form in (lambda x: Note(x), lambda x: NoteContainer(Note(x)), lambda x: [Note(x)],
                             lambda x: "%s-%d" % (Note(x).name, Note(x).octave)):
                    item = form(n)
                    before = picture(track)
                    if ok:
                        # make room: the statement is about range, not about fit
                        r = track.add_notes(item, 8)
                        check(r is True, w + ": in-range %r refused" % (item,))
                        check(entries(track)[-1] == (8, expected_content(item)), w + ": in-range item not stored")
                    else:
                        for _ in range(2):  # refused calls repeated
                            try:
                                track.add_notes(item, 8)
                            except InstrumentRangeError:
                                pass
                            else:
                                raise Failure(w + ": out-of-range %r accepted" % (item,))
                            check(picture(track) == before, w + ": refused note changed the track")
            bars_ok(track, w)
    # rests without an instrument
    t = Track()
    check(t.add_notes(None) is True and entries(t) == [(4, None)], "rest on a bare track")
    # a custom range
    inst = Instrument()
    inst.set_range(("C-3", "C-5"))
    t = Track(inst)
    check(t.add_notes("C-3", 2) is True and t.add_notes("C-5", 2) is True, "custom range bounds")
    for bad in ("B-2", "C#-5"):
        try:
            t.add_notes(bad, 2)
        except InstrumentRangeError:
            pass
        else:
            raise Failure("custom range accepted %s" % bad)
    check(entries(t) == [(2, (("C", 3),)), (2, (("C", 5),))], "custom range contents")


def flatten(chords, duration):
    for c in chords:
        if isinstance(c, list):
            for x in flatten(c, duration * 2):
                yield x
        else:
            yield c, duration


CHORD_LISTS = [
    ["C", ["Am", "Dm"], "G7", "C#"],
    ["C", None, "F", None],
    [["C", None], ["G7", ["Am", None]], "Dm7"],
    [[["C", "F"], ["G", None]], "Am", [None, None], ["E7", "Am"]],
    [None],
    [],
    ["Cmaj7", "Cmaj7", "Cmaj7", ["Cmaj7", "Cmaj7"]],
    [["Am", "Dm", "G7"], "C"],
    ["Ebm7", ["F#", [None, ["Bb7", "C"]]], "Gsus4"],
    [[[["C", "D", "E", "F", "G", "A", "B", None]]]],
]


def from_chords_cases():
    for ci, chords in enumerate(CHORD_LISTS * 2):
        for duration in (1, 2, 4):
            for meter in (None, (4, 4), (3, 4), (6, 8), (5, 4), (2, 4)):
                for make in (lambda: None, Piano, MidiInstrument):
                    CASES[0] += 1
                    w = "from_chords %r dur %r meter %r" % (chords, duration, meter)
                    track = Track(make())
                    if meter is not None:
                        track.add_bar(Bar("G", meter))
                    barlen = 1.0 if meter is None else meter[0] / float(meter[1])
                    leaves = list(flatten(chords, duration))
                    # the statement promises one split across a bar line, so stay where one is enough
                    if any(1.0 / d > barlen + 1e-9 for _, d in leaves):
                        continue
                    arg = chords if ci < len(CHORD_LISTS) else [list(c) if isinstance(c, list) else c for c in chords]
                    if ci >= len(CHORD_LISTS):
                        r = track.from_chords(chords=arg, duration=duration)
                    else:
                        r = track.from_chords(arg, duration) if duration != 1 else track.from_chords(arg)
                    check(r is track, w + ": from_chords did not return the track")
                    got = [(bi, e[1], content_of(e[2])) for bi, bar in enumerate(track.bars) for e in bar]
                    pos = 0
                    for chord, d in leaves:
                        want = None if chord is None else content_of(NoteContainer().from_chord(chord))
                        check(pos < len(got), w + ": item %r missing" % (chord,))
                        bi, gd, gc = got[pos]
                        check(gc == want, w + ": item %r stored as %r" % (chord, gc))
                        if close(1.0 / gd, 1.0 / d):
                            pos += 1
                            continue
                        check(pos + 1 < len(got), w + ": second piece of %r missing" % (chord,))
                        bi2, gd2, gc2 = got[pos + 1]
                        check(gc2 == want, w + ": second piece of %r stored as %r" % (chord, gc2))
                        check(bi2 == bi + 1, w + ": pieces of %r not across a bar line" % (chord,))
                        check(close(1.0 / gd + 1.0 / gd2, 1.0 / d), w + ": pieces of %r do not add up" % (chord,))
                        pos += 2
                    check(pos == len(got), w + ": extra entries")
                    check(close(sum(1.0 / g[1] for g in got), sum(1.0 / d for _, d in leaves)),
                          w + ": total length differs from the requested lengths")
                    bars_ok(track, w)
                    if meter is not None:
                        for b in track.bars:
                            check(tuple(b.meter) == meter and b.key.key == "G", w + ": key/meter not inherited")


def composition_cases():
    rng = random.Random(7)
    for case in range(60):
        CASES[0] += 1
        w = "composition case %d" % case
        comp = Composition()
        twin = Composition()
        comp.set_title("100%% {x}\nñ %s", "sub {0}")
        check(len(comp) == 0 and comp == twin, w + ": empty compositions")
        tracks = []
        for i in range(rng.randint(1, 5)):
            t, t2 = Track(), Track()
            for _ in range(rng.randint(0, 3)):
                n, v = rng.choice(["C", "E", "G", None]), rng.choice([2, 4])
                t.add_notes(n, v)
                t2.add_notes(n, v)
            check(t == t2, w + ": equally built tracks differ")
            if rng.random() < 0.5:
                comp.add_track(t)
                twin + t2
            else:
                comp + t
                twin.add_track(track=t2)
            tracks.append(t)
            check(len(comp) == len(tracks), w + ": len")
            check(all(comp[j] is tracks[j] for j in range(len(tracks))), w + ": indexing")
            check(comp[-1] is t, w + ": negative indexing")
            check(list(comp.selected_tracks) == [len(tracks) - 1], w + ": selection after add_track")
            check(comp == twin and not (comp != twin), w + ": equality after add_track")
        for _ in range(rng.randint(1, 6)):
            if rng.random() < 0.6:
                sel = sorted(rng.sample(range(len(tracks)), rng.randint(0, len(tracks))))
                comp.selected_tracks = list(sel)
                twin.selected_tracks = list(sel)
            sel = list(comp.selected_tracks)
            note = rng.choice(["C", "F#", Note("A", 3), NoteContainer(["C", "E"])])
            before = [entries(t) for t in tracks]
            if rng.random() < 0.5:
                comp.add_note(note)
                twin.add_note(note=note)
            else:
                comp + note
                twin + note
            for j, t in enumerate(tracks):
                if j in sel:
                    check(entries(t) == before[j] + [(4, expected_content(note))], w + ": selected track %d missed the note" % j)
                else:
                    check(entries(t) == before[j], w + ": unselected track %d changed" % j)
                bars_ok(t, w)
            check(list(comp.selected_tracks) == sel, w + ": selection changed by add_note")
            check(comp == twin, w + ": equality after add_note")
        # equality follows contents
        comp.selected_tracks = [0]
        comp.add_note("B")
        check(comp != twin and not (comp == twin), w + ": compositions with different contents are equal")
        twin.selected_tracks = [0]
        twin.add_note("B")
        check(comp == twin, w + ": compositions with equal contents differ")
        twin.add_track(Track())
        check(comp != twin, w + ": compositions with a different number of tracks are equal")
        check(len(twin) == len(comp) + 1, w + ": len after another track")
    # tracks: equality follows contents
    a, b = Track(), Track(Piano())
    check(a == b, "empty tracks differ")
    a + "C"
    check(a != b, "track with a note equals an empty one")
    b + "C"
    check(a == b, "tracks with the same note differ")
    b.add_notes(None, 8)
    check(a != b, "track with an extra rest is equal")
    a.add_notes(None, 4)
    check(a != b, "rests of different values compare equal")
    # the same track twice in a composition
    c = Composition()
    t = Track()
    c + t
    c + t
    check(len(c) == 2 and c[0] is t and c[1] is t, "same track twice")
    c.add_note("C")
    check(entries(t) == [(4, (("C", 4),))], "same track twice: one selected index adds once")
    # the same container twice on one track
    nc = NoteContainer(["C", "E"])
    t = Track()
    run_ops(t, [("plus", nc, None), ("pos", nc, 8), ("kw", nc, 8)], "same container")


def main():
    try:
        random_sequences()
        exhaustive_sequences()
        long_sequence()
        instrument_ranges()
        from_chords_cases()
        composition_cases()
    except Failure as e:
        print("PROPERTY VIOLATED: %s" % e)
        return 1
    print("ok, %d cases" % CASES[0])
    return 0


if __name__ == "__main__":
    sys.exit(main())
