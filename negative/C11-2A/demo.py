import mingus, os; assert os.path.realpath(mingus.__file__).startswith(os.path.realpath(os.path.dirname(__file__)))
import random
import sys

from mingus.containers import Note, NoteContainer, Bar, Track
from mingus.core import intervals

LETTERS = "CDEFGAB"
NATURAL = {"C": 0, "D": 2, "E": 4, "F": 5, "G": 7, "A": 9, "B": 11}
MAJOR = [0, 2, 4, 5, 7, 9, 11]
ACCS = ["", "#", "b", "##", "bb"]
NAMES = [l + a for l in LETTERS for a in ACCS]
SHORTHANDS = [a + str(n) for a in ACCS for n in range(1, 8)]
assert len(SHORTHANDS) == 35

failures = []
checked = [0]


def fail(msg):
    failures.append(msg)
    if len(failures) > 20:
        report()


def report():
    for f in failures:
        print("FAIL:", f)
    sys.exit(1)


def size(sh):
    acc = sh[:-1]
    return MAJOR[int(sh[-1]) - 1] + acc.count("#") - acc.count("b")


def pitch(name, octave):
    return octave * 12 + NATURAL[name[0]] + name.count("#") - name.count("b")


def expected_letter(name, sh, up):
    steps = int(sh[-1]) - 1
    i = LETTERS.index(name[0])
    return LETTERS[(i + steps) % 7] if up else LETTERS[(i - steps) % 7]


def aug(name):
    return name[:-1] if name.endswith("b") else name + "#"


def dim(name):
    return name[:-1] if name.endswith("#") else name + "b"


IN_RANGE = [s for s in SHORTHANDS if 0 <= size(s) <= 11]

# ---- 1. single notes: all names x octaves x shorthands x directions ----------
for name in NAMES:
    for octave in range(0, 10):
        for sh in IN_RANGE:
            for up in (True, False):
                before = pitch(name, octave)
                if not up and before - size(sh) < 24:
                    # stay clear of the floor; octave 0 is handled separately
                    continue
                n = Note(name, octave)
                if int(n) != before:
                    fail("int(Note(%r,%r)) = %r" % (name, octave, int(n)))
                n.transpose(sh, up)
                checked[0] += 1
                want = before + size(sh) if up else before - size(sh)
                if int(n) != want or pitch(n.name, n.octave) != want:
                    fail("%s-%d %s up=%s -> %r (pitch %d, wanted %d)" % (name, octave, sh, up, n, int(n), want))
                if n.name[0] != expected_letter(name, sh, up):
                    fail("%s-%d %s up=%s -> letter %s" % (name, octave, sh, up, n.name))
                if type(n.octave) is not int or type(n.name) is not str:
                    fail("types after transpose: %r %r" % (n.name, n.octave))
                # and back again
                n.transpose(sh, not up)
                if (n.name, n.octave) != (name, octave):
                    fail("%s-%d %s up=%s then back -> %r" % (name, octave, sh, up, n))

# keyword arguments, and the core function agrees with the Note method
for name in NAMES:
    for sh in IN_RANGE:
        for up in (True, False):
            n = Note(name, 5)
            n.transpose(interval=sh, up=up)
            m = Note(name, 5)
            m.transpose(sh, up)
            if (n.name, n.octave) != (m.name, m.octave):
                fail("keyword call differs for %s %s %s" % (name, sh, up))
            core = intervals.from_shorthand(name, sh, up)
            if core != n.name or intervals.from_shorthand(note=name, interval=sh, up=up) != core:
                fail("core from_shorthand(%r,%r,%r) = %r, note says %r" % (name, sh, up, core, n.name))
            checked[0] += 1

# ---- 2. octave changes never go below zero -----------------------------------
for name in NAMES:
    for octave in range(0, 6):
        for diff in (-7, -3, -1, 0, 1, 2):
            n = Note(name, octave)
            n.change_octave(diff)
            checked[0] += 1
            if n.octave != max(0, octave + diff) or n.name != name:
                fail("change_octave(%d) on %s-%d -> %r" % (diff, name, octave, n))
    n = Note(name, 1)
    n.octave_down()
    n.octave_down()
    n.octave_down()
    if n.octave != 0:
        fail("octave_down below zero: %r" % n)
    n.octave_up()
    if n.octave != 1:
        fail("octave_up: %r" % n)

# ---- 3. containers -----------------------------------------------------------
rng = random.Random(20260928)
DURATIONS = [1, 2, 4, 8, 16, 32]


def random_track():
    t = Track()
    for _ in range(rng.randint(1, 5)):
        b = Bar("C", rng.choice([(4, 4), (3, 4), (6, 8), (5, 4)]))
        while not b.is_full():
            d = rng.choice(DURATIONS)
            kind = rng.random()
            if kind < 0.2:
                ok = b.place_rest(d)
            else:
                k = 1 if kind < 0.6 else rng.randint(2, 4)
                ns = []
                for _ in range(k):
                    ns.append(Note(rng.choice(NAMES), rng.randint(3, 7), velocity=rng.randint(1, 127), channel=rng.randint(0, 15)))
                ok = b.place_notes(NoteContainer(ns), d)
            if not ok:
                continue
        t.add_bar(b)
    return t


def snapshot(t):
    """[(bar index, beat, duration, None | [(name, octave, velocity, channel)...])]"""
    out = []
    for i, b in enumerate(t.bars):
        for beat, dur, nc in b.bar:
            if nc is None:
                out.append((i, beat, dur, None))
            else:
                out.append((i, beat, dur, [(n.name, n.octave, n.velocity, n.channel) for n in nc.notes]))
    return out


def bar_state(t):
    return [(b.meter, b.length, b.current_beat, b.key.key, len(b.bar)) for b in t.bars]


def apply_expected(snap, op, sh=None, up=True):
    res = []
    for i, beat, dur, notes in snap:
        if notes is None:
            res.append((i, beat, dur, None))
            continue
        new = []
        for name, octave, vel, ch in notes:
            if op == "augment":
                new.append((aug(name), octave, vel, ch))
            elif op == "diminish":
                new.append((dim(name), octave, vel, ch))
            else:
                n = Note(name, octave)
                n.transpose(sh, up)
                new.append((n.name, n.octave, vel, ch))
        res.append((i, beat, dur, new))
    return res


def compare(tag, got, want):
    checked[0] += 1
    if len(got) != len(want):
        fail("%s: number of entries changed %d -> %d" % (tag, len(want), len(got)))
        return
    for g, w in zip(got, want):
        if g[:3] != w[:3]:
            fail("%s: position/duration changed %r -> %r" % (tag, w[:3], g[:3]))
        if (g[3] is None) != (w[3] is None):
            fail("%s: rest changed %r -> %r" % (tag, w, g))
        elif g[3] is not None:
            if sorted(g[3]) != sorted(w[3]):
                fail("%s: notes %r, wanted %r" % (tag, g[3], w[3]))


for trial in range(60):
    t = random_track()
    state0 = bar_state(t)
    snap0 = snapshot(t)
    cur = snap0
    steps = []
    for step in range(rng.randint(1, 6)):
        op = rng.choice(["transpose", "transpose", "augment", "diminish"])
        if op == "transpose":
            sh = rng.choice(IN_RANGE)
            up = rng.choice([True, False])
            # stay away from the floor
            low = min(pitch(nm, o) for e in cur if e[3] for nm, o, _, _ in e[3]) if any(e[3] for e in cur) else 99
            if not up and low - size(sh) < 24:
                up = True
            if step % 2:
                t.transpose(sh, up)
            else:
                t.transpose(interval=sh, up=up)
            cur = apply_expected(cur, "transpose", sh, up)
            steps.append((sh, up))
        elif op == "augment":
            t.augment()
            cur = apply_expected(cur, "augment")
            steps.append("aug")
        else:
            t.diminish()
            cur = apply_expected(cur, "diminish")
            steps.append("dim")
        compare("track trial %d after %r" % (trial, steps), snapshot(t), cur)
        if bar_state(t) != state0:
            fail("track trial %d: bar state changed after %r" % (trial, steps))
    # pitches moved by the semitone sum of the steps
    delta = 0
    for s in steps:
        if s == "aug":
            delta += 1
        elif s == "dim":
            delta -= 1
        else:
            delta += size(s[0]) if s[1] else -size(s[0])
    for e0, e1 in zip(snap0, snapshot(t)):
        if e0[3] is None:
            continue
        p0 = sorted(pitch(nm, o) + delta for nm, o, _, _ in e0[3])
        p1 = sorted(pitch(nm, o) for nm, o, _, _ in e1[3])
        if p0 != p1:
            fail("track trial %d: pitches %r, wanted %r after %r" % (trial, p1, p0, steps))
    # augment then diminish is the identity on names; up then down restores all
    before = snapshot(t)
    t.augment()
    t.diminish()
    compare("track trial %d augment+diminish" % trial, snapshot(t), before)
    # (names that have piled up many accidentals get respelled on the way,
    # so the round trip is only checked for ordinary names)
    if all(len(nm) <= 3 for e in before if e[3] for nm, _, _, _ in e[3]):
        sh = rng.choice(IN_RANGE)
        t.transpose(sh)
        t.transpose(sh, False)
        compare("track trial %d up+down %s" % (trial, sh), snapshot(t), before)
    fresh = random_track()
    before = snapshot(fresh)
    for sh in rng.sample(IN_RANGE, 4):
        fresh.transpose(sh)
        compare("fresh track %d up %s" % (trial, sh), snapshot(fresh), apply_expected(before, "transpose", sh, True))
        fresh.transpose(sh, False)
        compare("fresh track %d up+down %s" % (trial, sh), snapshot(fresh), before)
        fresh.transpose(sh, up=False)
        compare("fresh track %d down %s" % (trial, sh), snapshot(fresh), apply_expected(before, "transpose", sh, False))
        fresh.transpose(sh, True)
        compare("fresh track %d down+up %s" % (trial, sh), snapshot(fresh), before)

# bars and note containers on their own
for trial in range(60):
    t = random_track()
    b = t.bars[0]
    one = Track()
    one.add_bar(b)
    before = snapshot(one)
    sh = rng.choice(IN_RANGE)
    up = rng.choice([True, False])
    b.transpose(sh, up)
    compare("bar trial %d %s %s" % (trial, sh, up), snapshot(one), apply_expected(before, "transpose", sh, up))
    b.transpose(sh, not up)
    compare("bar trial %d back" % trial, snapshot(one), before)
    b.augment()
    compare("bar trial %d augment" % trial, snapshot(one), apply_expected(before, "augment"))
    b.diminish()
    compare("bar trial %d augment+diminish" % trial, snapshot(one), before)
    b.diminish()
    compare("bar trial %d diminish" % trial, snapshot(one), apply_expected(before, "diminish"))
    b.augment()
    compare("bar trial %d diminish+augment" % trial, snapshot(one), before)

    k = rng.randint(1, 5)
    nc = NoteContainer([Note(rng.choice(NAMES), rng.randint(3, 7)) for _ in range(k)])
    names0 = [(n.name, n.octave) for n in nc.notes]
    nc.transpose(sh, up)
    want = []
    for nm, o in names0:
        x = Note(nm, o)
        x.transpose(sh, up)
        want.append((x.name, x.octave))
    checked[0] += 1
    if sorted((n.name, n.octave) for n in nc.notes) != sorted(want):
        fail("container %r %s %s -> %r" % (names0, sh, up, nc))
    nc.transpose(sh, not up)
    if sorted((n.name, n.octave) for n in nc.notes) != sorted(names0):
        fail("container %r %s there and back -> %r" % (names0, sh, nc))
    nc.augment()
    if sorted((n.name, n.octave) for n in nc.notes) != sorted((aug(nm), o) for nm, o in names0):
        fail("container augment %r -> %r" % (names0, nc))
    nc.diminish()
    if sorted((n.name, n.octave) for n in nc.notes) != sorted(names0):
        fail("container augment+diminish %r -> %r" % (names0, nc))

# a long track
t = Track()
for i in range(400):
    t.add_notes(NoteContainer([Note(NAMES[i % len(NAMES)], 3 + i % 4)]) if i % 5 else None, 4)
before = snapshot(t)
t.transpose("b3")
compare("long track b3", snapshot(t), apply_expected(before, "transpose", "b3", True))
t.transpose("b3", False)
compare("long track back", snapshot(t), before)
t.augment()
t.diminish()
compare("long track augment+diminish", snapshot(t), before)

if failures:
    report()
print("ok: %d checks" % checked[0])
sys.exit(0)
