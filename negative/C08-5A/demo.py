import mingus, os; assert os.path.realpath(mingus.__file__).startswith(os.path.realpath(os.path.dirname(__file__)))
"""Direct check of property C08 (diatonic harmony) through the public API.

Exit status 0 when the statement holds on every case tried, 1 (with a message)
otherwise.
"""
import sys

from mingus.core import chords, keys, notes, progressions

FAILS = []
CASES = [0]


def check(cond, msg):
    CASES[0] += 1
    if not cond:
        FAILS.append(msg)
        if len(FAILS) > 25:
            finish()


def finish():
    if FAILS:
        print("C08 demo: %d failure(s) in %d cases" % (len(FAILS), CASES[0]))
        for f in FAILS[:25]:
            print("  - " + f)
        sys.exit(1)
    print("C08 demo: property holds on %d cases" % CASES[0])
    sys.exit(0)


# ---------------------------------------------------------------- oracle
LETTERS = "CDEFGAB"
NATURAL = {"C": 0, "D": 2, "E": 4, "F": 5, "G": 7, "A": 9, "B": 11}
MAJOR = [0, 2, 4, 5, 7, 9, 11]
MINOR = [0, 2, 3, 5, 7, 8, 10]


def pitch(note):
    return (NATURAL[note[0]] + note.count("#") - note[1:].count("b")) % 12


def spell(letter, wanted):
    d = ((wanted - NATURAL[letter] + 6) % 12) - 6
    return letter + ("#" * d if d > 0 else "b" * -d)


def key_notes(key):
    tonic = key[0].upper() + key[1:]
    pattern = MAJOR if key[0].isupper() else MINOR
    start = LETTERS.index(tonic[0])
    return [spell(LETTERS[(start + d) % 7], pitch(tonic) + pattern[d]) for d in range(7)]


def stack(ns, degree, size):
    return [ns[(degree + 2 * k) % 7] for k in range(size)]


MAJOR_KEYS = list(keys.major_keys)
MINOR_KEYS = list(keys.minor_keys)
ALL_KEYS = MAJOR_KEYS + MINOR_KEYS
assert len(ALL_KEYS) == 30

FUNCTIONS = ["tonic", "supertonic", "mediant", "subdominant", "dominant", "submediant", "subtonic"]
UPPER = ["I", "II", "III", "IV", "V", "VI", "VII"]
CANON = ["I", "ii", "iii", "IV", "V", "vi", "vii"]
SUFFIXES = sorted(chords.chord_shorthand)
PLAIN_SUFFIXES = [s for s in SUFFIXES if s not in ("", "7")]

# ------------------------------------------------ 1. chords denote stacks of thirds
for key in ALL_KEYS:
    ns = key_notes(key)
    check(keys.get_notes(key) == ns, "get_notes(%r) = %r, expected %r" % (key, keys.get_notes(key), ns))
    all3 = chords.triads(key)
    all4 = chords.sevenths(key)
    check(all3 == [stack(ns, d, 3) for d in range(7)], "triads(%r) wrong: %r" % (key, all3))
    check(all4 == [stack(ns, d, 4) for d in range(7)], "sevenths(%r) wrong: %r" % (key, all4))
    for d in range(7):
        for size, tail in ((3, ""), (4, "7")):
            want = stack(ns, d, size)
            check(set(want) <= set(ns), "chord outside key")
            names = [FUNCTIONS[d] + tail, UPPER[d] + tail, UPPER[d].lower() + tail]
            for name in names:
                fn = getattr(chords, name, None)
                if fn is None:
                    # i, iv, v do not exist as aliases in the library
                    check(name.rstrip("7") in ("i", "iv", "v"), "missing chords.%s" % name)
                    continue
                got = fn(key)
                check(got == want, "chords.%s(%r) = %r, expected %r" % (name, key, got, want))
                check(fn(key=key) == want, "chords.%s(key=%r) differs" % (name, key))
            for text in (UPPER[d] + tail, UPPER[d].lower() + tail):
                got = progressions.to_chords(text, key)
                check(got == [want], "to_chords(%r, %r) = %r, expected %r" % (text, key, got, [want]))
                got = progressions.to_chords([text], key)
                check(got == [want], "to_chords([%r], %r) = %r" % (text, key, got))

# results are fresh lists: mutating one answer must not leak into the next
for key in ("C", "f#", "Cb"):
    a = chords.triads(key)
    a[0].append("X")
    a.append("Y")
    check(chords.triads(key) == [stack(key_notes(key), d, 3) for d in range(7)], "triads(%r) leaked a mutation" % key)
    b = chords.tonic7(key)
    b[:] = []
    check(chords.I7(key) == stack(key_notes(key), 0, 4), "tonic7(%r) leaked a mutation" % key)
    c = progressions.to_chords(["I", "V7"], key)
    c[0][0] = "Z"
    check(progressions.to_chords(["I", "V7"], key) == [stack(key_notes(key), 0, 3), stack(key_notes(key), 4, 4)],
          "to_chords leaked a mutation in %r" % key)

# whole progressions, mixed case, many keys
for key in ALL_KEYS:
    ns = key_notes(key)
    prog = ["I", "vi", "ii7", "V7", "iii", "IV7", "vii", "I7"]
    want = [stack(ns, 0, 3), stack(ns, 5, 3), stack(ns, 1, 4), stack(ns, 4, 4), stack(ns, 2, 3),
            stack(ns, 3, 4), stack(ns, 6, 3), stack(ns, 0, 4)]
    check(progressions.to_chords(prog, key) == want, "to_chords(progression, %r) wrong" % key)
    check(progressions.to_chords(progression=prog, key=key) == want, "to_chords(keywords) wrong in %r" % key)
check(progressions.to_chords(["I", "V7"]) == [["C", "E", "G"], ["G", "B", "D", "F"]], "default key")

# ------------------------------------------------ 2. accidental prefixes
for key in ALL_KEYS:
    ns = key_notes(key)
    for d in range(7):
        for tail, size in (("", 3), ("7", 4)):
            base = stack(ns, d, size)
            for acc in range(-3, 4):
                prefix = "#" * acc if acc > 0 else "b" * -acc
                for numeral in (UPPER[d], UPPER[d].lower()):
                    text = prefix + numeral + tail
                    got = progressions.to_chords([text], key)
                    ok = (len(got) == 1 and len(got[0]) == size and all(
                        g[0] == b[0] and pitch(g) == (pitch(b) + acc) % 12 for g, b in zip(got[0], base)))
                    check(ok, "to_chords([%r], %r) = %r; base %r shifted by %d expected" % (text, key, got, base, acc))
# every extra accidental moves every note one semitone further
for key in ("C", "Gb", "c#"):
    for numeral in ("I", "iv", "VII7"):
        prev = progressions.to_chords([numeral], key)[0]
        for n in range(1, 4):
            up = progressions.to_chords(["#" * n + numeral], key)[0]
            check([pitch(x) for x in up] == [(pitch(x) + n) % 12 for x in prev], "sharp steps %r %r" % (numeral, key))
            down = progressions.to_chords(["b" * n + numeral], key)[0]
            check([pitch(x) for x in down] == [(pitch(x) - n) % 12 for x in prev], "flat steps %r %r" % (numeral, key))

# ------------------------------------------------ 3. chord suffixes
SHAPES = {"M": [0, 4, 7], "m": [0, 3, 7], "dim": [0, 3, 6], "aug": [0, 4, 8], "m7": [0, 3, 7, 10],
          "M7": [0, 4, 7, 11], "dom7": [0, 4, 7, 10], "dim7": [0, 3, 6, 9], "m7b5": [0, 3, 6, 10],
          "sus4": [0, 5, 7], "sus2": [0, 2, 7], "6": [0, 4, 7, 9], "m6": [0, 3, 7, 9], "9": [0, 4, 7, 10, 2]}
for ki, key in enumerate(ALL_KEYS):
    ns = key_notes(key)
    for d in range(7):
        root = ns[d]
        for si, suffix in enumerate(PLAIN_SUFFIXES):
            if (ki + d + si) % 3 and key not in ("C", "a", "F#", "eb"):
                continue  # a third of the grid outside four fully covered keys
            want = chords.chord_shorthand[suffix](root)
            for numeral in (UPPER[d], UPPER[d].lower()):
                got = progressions.to_chords([numeral + suffix], key)
                check(got == [want], "to_chords([%r], %r) = %r, expected %r" % (numeral + suffix, key, got, [want]))
            check(chords.from_shorthand(root + suffix) == want, "from_shorthand(%r)" % (root + suffix))
            check(want[0] == root, "suffix chord %r not on the root %r" % (want, root))
            if suffix in SHAPES:
                check([(pitch(x) - pitch(root)) % 12 for x in want] == SHAPES[suffix],
                      "shape of %s%s: %r" % (root, suffix, want))
    # prefix and suffix combined
    for acc in (-2, -1, 1, 3):
        prefix = "#" * acc if acc > 0 else "b" * -acc
        for suffix in ("m7", "dim7", "M", "sus4", "7b9"):
            base = chords.chord_shorthand[suffix](ns[4])
            got = progressions.to_chords([prefix + "V" + suffix], key)
            ok = len(got) == 1 and len(got[0]) == len(base) and all(
                g[0] == b[0] and pitch(g) == (pitch(b) + acc) % 12 for g, b in zip(got[0], base))
            check(ok, "to_chords([%r], %r) = %r" % (prefix + "V" + suffix, key, got))

# ------------------------------------------------ 4. unrecognised numerals
for bad in ("Q", "IIII", "VIII", "", "X7", "7", "m7", "IVI", "VV", "IIV", "H{0}", "%s", "Ié"[1:], "\nI"):
    check(progressions.to_chords([bad], "C") == [], "to_chords([%r]) should be []" % bad)
    check(progressions.to_chords(bad, "Eb") == [], "to_chords(%r) should be []" % bad)
check(progressions.to_chords(["I", "Q", "V"], "G") == [], "a progression with an unrecognised numeral gives []")
check(progressions.to_chords(["Q"] * 3, "g") == [], "repeated unrecognised numerals")

# ------------------------------------------------ 5. determine is the inverse (major keys)
for key in MAJOR_KEYS:
    ns = key_notes(key)
    batch3, batch4 = [], []
    for d in range(7):
        tri, sev = stack(ns, d, 3), stack(ns, d, 4)
        batch3.append(tri)
        batch4.append(sev)
        for chord, longname, short in ((tri, FUNCTIONS[d], CANON[d]), (sev, FUNCTIONS[d] + " seventh", CANON[d] + "7")):
            before = list(chord)
            got = progressions.determine(chord, key)
            check(isinstance(got, list) and got and got[0] == longname,
                  "determine(%r, %r) = %r, expected %r first" % (chord, key, got, longname))
            got = progressions.determine(chord, key, True)
            check(isinstance(got, list) and got and got[0] == short,
                  "determine(%r, %r, True) = %r, expected %r first" % (chord, key, got, short))
            check(progressions.determine(chord=chord, key=key, shorthand=True) == got, "determine keywords")
            check(chord == before, "determine changed its argument")
            # numeral -> chord -> numeral and chord -> numeral -> chord
            check(progressions.to_chords(got[0], key) == [chord], "to_chords(determine(%r)) in %r" % (chord, key))
            check(progressions.determine(progressions.to_chords(short, key)[0], key, True)[0] == short,
                  "determine(to_chords(%r)) in %r" % (short, key))
            check(progressions.determine(getattr(chords, longname.replace(" seventh", "7"))(key), key)[0] == longname,
                  "determine(chords.%s(%r))" % (longname, key))
    got = progressions.determine(batch3 + batch4, key, True)
    check([g[0] for g in got] == CANON + [c + "7" for c in CANON], "determine(list of chords) in %r: %r" % (key, got))
    got = progressions.determine(batch3, key)
    check([g[0] for g in got] == FUNCTIONS, "determine(list of triads) in %r: %r" % (key, got))

# ------------------------------------------------ 6. parse followed by format
for numeral in UPPER:
    for acc in range(-3, 4):
        prefix = "#" * acc if acc > 0 else "b" * -acc
        for suffix in SUFFIXES:
            text = prefix + numeral + suffix
            parsed = progressions.parse_string(text)
            check(parsed == (numeral, acc, suffix), "parse_string(%r) = %r" % (text, parsed))
            check(progressions.tuple_to_string(parsed) == text, "tuple_to_string(parse_string(%r))" % text)
        low = prefix + numeral.lower()
        check(progressions.parse_string(low) == (numeral, acc, ""), "parse_string(%r)" % low)
check(progressions.parse_string("#b#Im/M7") == ("I", 1, "m/M7"), "mixed prefix")

# ------------------------------------------------ 7. substitutions
def wellformed(text):
    if not isinstance(text, str):
        return False
    roman, acc, suffix = progressions.parse_string(text)
    return roman in UPPER and (suffix in chords.chord_shorthand) and isinstance(acc, int)


def root_pitch(text, key):
    roman, acc, _ = progressions.parse_string(text)
    return (pitch(key_notes(key)[UPPER.index(roman)]) + acc) % 12


def denotes(text, key):
    got = progressions.to_chords([text], key)
    return len(got) == 1 and len(got[0]) >= 2 and all(notes.is_valid_note(n) for n in got[0])


RULES = [progressions.substitute_harmonic, progressions.substitute_minor_for_major,
         progressions.substitute_major_for_minor, progressions.substitute_diminished_for_diminished,
         progressions.substitute_diminished_for_dominant]
SUB_SUFFIXES = ["", "7", "m", "m7", "M", "M7", "dim", "dim7", "dom7", "sus4", "6", "m7b5", "aug", "hendrix", "7b9"]
for ni, numeral in enumerate(UPPER):
    for acc in range(-3, 4):
        prefix = "#" * acc if acc > 0 else "b" * -acc
        for si, suffix in enumerate(SUFFIXES):
            text = prefix + numeral + suffix
            key = MAJOR_KEYS[(ni + acc + si) % 15]
            for position, prog in ((0, [text]), (1, ["I", text, "V7"]), (2, ["IV", "ii", text])):
                if position and suffix not in SUB_SUFFIXES:
                    continue
                before = list(prog)
                for ignore in (False, True):
                    for rule in RULES:
                        res = rule(prog, position, ignore)
                        name = rule.__name__
                        check(prog == before, "%s changed the caller's progression %r" % (name, before))
                        check(isinstance(res, list) and all(wellformed(r) for r in res),
                              "%s(%r, %d, %r) gave %r" % (name, prog, position, ignore, res))
                        check(all(denotes(r, key) for r in res), "%s(%r): %r does not denote chords" % (name, prog, res))
                        if rule is progressions.substitute_harmonic:
                            for r in res:
                                rr, ra, rs = progressions.parse_string(r)
                                a = set(stack(key_notes(key), UPPER.index(numeral), 3))
                                b = set(stack(key_notes(key), UPPER.index(rr), 3))
                                check(len(a & b) == 2 and ra == acc, "harmonic substitute %r of %r" % (r, text))
                            if suffix in ("", "7"):
                                check(bool(res) == (numeral in UPPER), "harmonic substitution of %r empty" % text)
                        elif rule is progressions.substitute_minor_for_major:
                            for r in res:
                                check((root_pitch(r, key) - root_pitch(text, key)) % 12 == 3,
                                      "minor-for-major %r -> %r" % (text, r))
                            if suffix in ("m", "m7") and not ignore:
                                check(len(res) == 1 and progressions.parse_string(res[0])[2] == suffix.replace("m", "M"),
                                      "minor-for-major %r -> %r" % (text, res))
                        elif rule is progressions.substitute_major_for_minor:
                            for r in res:
                                check((root_pitch(r, key) - root_pitch(text, key)) % 12 == 9,
                                      "major-for-minor %r -> %r" % (text, r))
                            if suffix in ("M", "M7") and not ignore:
                                check(len(res) == 1 and progressions.parse_string(res[0])[2] == suffix.replace("M", "m"),
                                      "major-for-minor %r -> %r" % (text, res))
                        elif rule is progressions.substitute_diminished_for_diminished:
                            last = root_pitch(text, key)
                            for r in res:
                                check((root_pitch(r, key) - last) % 12 == 3, "diminished cycle %r -> %r" % (text, res))
                                last = root_pitch(r, key)
                            if suffix in ("dim", "dim7"):
                                check(len(res) == 3 and all(progressions.parse_string(r)[2] == suffix for r in res),
                                      "diminished-for-diminished %r -> %r" % (text, res))
            # the general rule, recursion depth 0..2
            if suffix in SUB_SUFFIXES:
                prog = ["I", text, "V7"]
                before = list(prog)
                sizes = []
                for depth in (0, 1, 2):
                    if depth == 2 and (ni + acc + si) % 4:
                        continue
                    res = progressions.substitute(prog, 1, depth)
                    sizes.append(len(res))
                    check(prog == before, "substitute changed the caller's progression %r" % before)
                    check(isinstance(res, list) and all(wellformed(r) for r in res),
                          "substitute(%r, 1, %d) gave %r" % (prog, depth, res))
                    check(all(denotes(r, key) for r in res[:40]), "substitute(%r, 1, %d): not chords" % (prog, depth))
                check(sizes == sorted(sizes), "deeper recursion lost substitutions for %r" % text)

# documented examples
check(progressions.substitute(["I", "IV", "V", "I"], 0) == ["III", "III7", "VI", "VI7", "I7"], "substitute example")
check(progressions.substitute_minor_for_major(["VI"], 0) == ["I"], "example VI")
check(progressions.substitute_minor_for_major(["Vm"], 0) == ["bVIIM"], "example Vm")
check(progressions.substitute_minor_for_major(["VIm7"], 0) == ["IM7"], "example VIm7")
check(progressions.substitute_major_for_minor(["I"], 0) == ["VI"], "example I")
check(progressions.substitute_major_for_minor(["VM7"], 0) == ["IIIm7"], "example VM7")
check(progressions.substitute_diminished_for_diminished(["VII"], 0) == ["IIdim", "IVdim", "bVIdim"], "cycle from VII")
tup = ("I", "IV", "V")
check(progressions.substitute(tup, 0) == progressions.substitute(list(tup), 0) and tup == ("I", "IV", "V"),
      "substitute on a tuple")
check(progressions.substitute(progression=["I"], substitute_index=0, depth=1)[:5] == ["III", "III7", "VI", "VI7", "I7"],
      "substitute keywords")

# a second sweep over every key, to meet anything that remembers earlier answers
for key in reversed(ALL_KEYS):
    ns = key_notes(key)
    check(chords.triads(key) == [stack(ns, d, 3) for d in range(7)], "second pass triads(%r)" % key)
    check(chords.sevenths(key) == [stack(ns, d, 4) for d in range(7)], "second pass sevenths(%r)" % key)
    check(progressions.to_chords(["bii7", "#IV"], key) ==
          [[notes.diminish(n) for n in stack(ns, 1, 4)], [notes.augment(n) for n in stack(ns, 3, 3)]],
          "second pass to_chords in %r" % key)

finish()
