import mingus, os; assert os.path.realpath(mingus.__file__).startswith(os.path.realpath(os.path.dirname(__file__)))
"""Direct check of property C07 through the public API.

Chord recognition (chords.determine) inverts chord construction
(chords.from_shorthand) in every inversion and in both output forms.
Exit status 0 when the statement holds, 1 (with a message) otherwise.
"""
import random
import sys

from mingus.core import chords, intervals

LETTERS = "CDEFGAB"
ROOTS = [l + a for l in LETTERS for a in ("", "#", "b")]  # the 21 plain roots
DOUBLE = ["C##", "Ebb", "F##", "Bbb", "G##", "Abb", "D##", "Cbb"]
ORDINALS = ["", "first", "second", "third", "fourth", "fifth", "sixth"]

failures = []
counts = {"built": 0, "rotations": 0, "three": 0, "long": 0, "trivial": 0}


def fail(msg):
    failures.append(msg)
    if len(failures) >= 15:
        finish()


def finish():
    if failures:
        for f in failures:
            print("FAIL: " + f)
        print("C07 demo: %d failure(s)" % len(failures))
        sys.exit(1)
    print("C07 demo: property holds (%r)" % (counts,))
    sys.exit(0)


def split_root(name):
    """'Bbm7' -> ('Bb', 'm7')."""
    i = 1
    while i < len(name) and name[i] in "#b":
        i += 1
    return name[:i], name[i:]


def both_forms(notes_in):
    """Call determine in both forms on fresh copies; check the shared clauses.

    Returns (short, long) or None when something already failed.
    """
    try:
        short = chords.determine(list(notes_in), True)
        long_ = chords.determine(list(notes_in), False)
    except Exception as e:  # neither form may raise
        fail("determine(%r) raised %s: %s" % (notes_in, type(e).__name__, e))
        return None
    if not isinstance(short, list) or not isinstance(long_, list):
        fail("determine(%r) did not return lists: %r / %r" % (notes_in, short, long_))
        return None
    if len(short) != len(long_):
        fail("determine(%r): forms differ in length: %r vs %r" % (notes_in, short, long_))
        return None
    return short, long_


def halves(name):
    return name.split("|")


def accepted(name, notes_in):
    """Every half of a returned shorthand name must be constructible, and so
    must the whole name."""
    ok = True
    for part in halves(name) + [name]:
        try:
            built = chords.from_shorthand(part)
        except Exception as e:
            fail("determine(%r) returned %r but from_shorthand(%r) raised %s: %s"
                 % (notes_in, name, part, type(e).__name__, e))
            ok = False
            continue
        if not isinstance(built, list) or not built:
            fail("from_shorthand(%r) gave %r" % (part, built))
            ok = False
    return ok


def same_order(short, long_, notes_in):
    """Position i of the long form talks about the same chord as position i of
    the shorthand form: same root, same kind, for polychords the same text."""
    for s, l in zip(short, long_):
        if "|" in s or "|" in l:
            if s.replace(" polychord", "") != l.replace(" polychord", ""):
                fail("determine(%r): position mismatch %r vs %r" % (notes_in, s, l))
            continue
        root, kind = split_root(s)
        meaning = chords.chord_shorthand_meaning.get(kind)
        if meaning is None:
            fail("determine(%r): shorthand %r has no meaning entry" % (notes_in, s))
            continue
        want = root + meaning
        if not (l == want or l.startswith(want + ",")):
            fail("determine(%r): position mismatch %r vs %r" % (notes_in, s, l))


# ---------------------------------------------------------------- clause 1-3
def check_built(root, sh):
    name = root + sh
    try:
        chord = chords.from_shorthand(name)
    except Exception as e:
        fail("from_shorthand(%r) raised %s: %s" % (name, type(e).__name__, e))
        return
    counts["built"] += 1
    if len(chord) < 3:
        # two-note 'power chord': covered by the trivial clause
        got = chords.determine(list(chord), True), chords.determine(list(chord))
        want = [intervals.determine(chord[0], chord[1])]
        if got[0] != want or got[1] != want or want != ["perfect fifth"]:
            fail("two-note %r: %r" % (chord, got))
        return
    meaning = chords.chord_shorthand_meaning[sh]
    for k in range(len(chord)):
        rot = chord[k:] + chord[:k]
        counts["rotations"] += 1
        forms = both_forms(rot)
        if forms is None:
            continue
        short, long_ = forms
        for n in short:
            accepted(n, rot)
        same_order(short, long_, rot)
        want_long = root + meaning + (", %s inversion" % ORDINALS[k] if k else "")
        hit = False
        for s, l in zip(short, long_):
            if "|" in s:
                continue
            try:
                rebuilt = chords.from_shorthand(s)
            except Exception:
                continue  # already reported by accepted()
            if rebuilt == chord and l == want_long:
                hit = True
                break
        if not hit:
            fail("%s rotation %d %r not recognised: short=%r long=%r (wanted %r)"
                 % (name, k, rot, short, long_, want_long))


# ---------------------------------------------------------------- clause 4
def check_three(a, b, c):
    given = [a, b, c]
    counts["three"] += 1
    forms = both_forms(given)
    if forms is None:
        return
    short, long_ = forms
    same_order(short, long_, given)
    for n in short:
        if not accepted(n, given):
            continue
        built = chords.from_shorthand(n)
        missing = [x for x in given if x not in built]
        if missing:
            fail("determine(%r) returned %r = %r which lacks %r" % (given, n, built, missing))
    if given != [a, b, c]:
        fail("determine mutated its argument: %r" % (given,))


# ---------------------------------------------------------------- clause 5
def check_trivial():
    for form in (False, True):
        if chords.determine([], form) != []:
            fail("determine([]) != []")
        for r in ROOTS + DOUBLE:
            counts["trivial"] += 1
            if chords.determine([r], form) != [r]:
                fail("determine([%r], %r) = %r" % (r, form, chords.determine([r], form)))
    expected = {
        ("C", "E"): "major third", ("C", "Eb"): "minor third", ("C", "G"): "perfect fifth",
        ("C", "F"): "perfect fourth", ("C", "C"): "major unison", ("C", "Cb"): "minor unison",
        ("Cb", "C"): "augmented unison", ("C", "Cbb"): "diminished unison",
        ("C", "E#"): "augmented third", ("C", "Ebb"): "diminished third",
        ("Ab", "G"): "major seventh", ("Cb", "Bb"): "major seventh", ("B", "F"): "minor fifth",
        ("F", "B"): "augmented fourth", ("D", "C"): "minor seventh", ("E", "C"): "minor sixth",
        ("G#", "A"): "minor second", ("Bb", "C#"): "augmented second",
        ("F#", "Eb"): "diminished seventh", ("A", "F#"): "major sixth",
    }
    for (a, b), want in expected.items():
        for form in (False, True):
            counts["trivial"] += 1
            got = chords.determine([a, b], form)
            if got != [want]:
                fail("determine([%r, %r], %r) = %r, wanted [%r]" % (a, b, form, got, want))
    rnd = random.Random(7)
    for _ in range(150):
        a, b = rnd.choice(ROOTS + DOUBLE), rnd.choice(ROOTS + DOUBLE)
        counts["trivial"] += 1
        got = chords.determine([a, b])
        if got != [intervals.determine(a, b)] or not isinstance(got[0], str) or not got[0]:
            fail("determine([%r, %r]) = %r" % (a, b, got))


# ---------------------------------------------------------------- clause 2 on 4-7 notes
def check_long(rnd):
    pool = ROOTS + DOUBLE[:4]
    for n in (4, 5, 6, 7):
        for _ in range(40):
            given = [rnd.choice(pool) for _ in range(n)]
            counts["long"] += 1
            forms = both_forms(given)
            if forms is None:
                continue
            same_order(forms[0], forms[1], given)
            for name in forms[0]:
                accepted(name, given)
    # stacked chords: polychords and slash chords built from shorthand
    for name in ["Dm|G", "F|G7", "Am|G7", "Am7|G7", "C|Dm", "Em|CM", "Abaug|Fm", "A/G", "Am7/G",
                 "CM7|Dm7", "Bb|C7", "F#m|E", "Ebm7|Db7"]:
        given = chords.from_shorthand(name)
        counts["long"] += 1
        forms = both_forms(given)
        if forms is None:
            continue
        same_order(forms[0], forms[1], given)
        for got in forms[0]:
            accepted(got, given)


def main():
    rnd = random.Random(20240607)
    shorthands = sorted(chords.chord_shorthand)
    # a) every shorthand on every plain root plus two sampled double accidentals
    for i, sh in enumerate(shorthands):
        roots = ROOTS + [DOUBLE[i % len(DOUBLE)], DOUBLE[(i + 3) % len(DOUBLE)]]
        for r in roots:
            check_built(r, sh)
    # b) the same call repeated, and the result list abused by the caller in between
    first = chords.determine(["C", "E", "G", "B"], True)
    first.append("garbage")
    del first[0]
    again = chords.determine(["C", "E", "G", "B"], True)
    if "garbage" in again or "CM7" not in again:
        fail("second call on the same chord was influenced by the caller: %r" % (again,))
    # keyword arguments, repeated calls and many distinct inputs in one process
    for name in ("Bbm7", "F#7b9", "EbM13", "Dsus4", "Abdim7", "G6/9", "C#m/M7"):
        chord = chords.from_shorthand(name)
        for form in (False, True):
            before = chords.determine(list(chord), form)
            for a, b, c in [("C", "E", "G#"), ("D", "F", "A"), ("Gb", "Bb", "Db")] * 3:
                chords.determine([a, b, c], form)
            by_kw = chords.determine(chord=list(chord), shorthand=form, no_inversions=False,
                                     no_polychords=False)
            if by_kw != before or chords.determine(list(chord), form) != before:
                fail("determine(%r, %r) is not repeatable: %r vs %r" % (chord, form, before, by_kw))
            if chord != chords.from_shorthand(name):
                fail("determine changed the chord it was given: %r" % (chord,))
    one = ["C"]
    res = chords.determine(one)
    res.append("x")
    if chords.determine(["C"]) != ["C"]:
        fail("determine(['C']) after mutation = %r" % (chords.determine(["C"]),))
    # c) all 21^3 three-note inputs
    for a in ROOTS:
        for b in ROOTS:
            for c in ROOTS:
                check_three(a, b, c)
    check_trivial()
    check_long(rnd)
    finish()


if __name__ == "__main__":
    main()
