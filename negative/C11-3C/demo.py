import mingus, os; assert os.path.realpath(mingus.__file__).startswith(os.path.realpath(os.path.dirname(__file__)))
"""Direct check of property C11 (transposition is semitone-exact and
reversible at every container level) through the public API only."""
import random
import sys

from mingus.containers import Note, NoteContainer, Bar, Track

LETTERS = "CDEFGAB"
NATURAL = {"C": 0, "D": 2, "E": 4, "F": 5, "G": 7, "A": 9, "B": 11}
MAJOR = [0, 2, 4, 5, 7, 9, 11]
ACCS = ["", "#", "##", "b", "bb"]
NAMES = [l + a for l in LETTERS for a in ACCS]
SHORTHANDS = [a + str(n) for n in range(1, 8) for a in ACCS]
assert len(SHORTHANDS) == 35 and len(NAMES) == 35
OCTAVES = list(range(0, 10))

failures = []
checked = [0]


def fail(msg):
    failures.append(msg)
    if len(failures) > 20:
        report()


def report():
    for f in failures[:20]:
        print("FAIL:", f)
    print("%d checks, %d failures" % (checked[0], len(failures)))
    sys.exit(1 if failures else 0)


def size(sh):
    acc = sh[:-1]
    return MAJOR[int(sh[-1]) - 1] + acc.count("#") - acc.count("b")


def pitch(name, octave):
    return octave * 12 + NATURAL[name[0]] + name[1:].count("#") - name[1:].count("b")


def snap_note(n):
    return (n.name, n.octave)


# ---------------------------------------------------------------- notes
IN_RANGE = [sh for sh in SHORTHANDS if 0 <= size(sh) <= 11]
assert len(IN_RANGE) == 31, len(IN_RANGE)

call_styles = [
    lambda n, sh, up: n.transpose(sh, up),
    lambda n, sh, up: n.transpose(sh, up=up),
    lambda n, sh, up: n.transpose(interval=sh, up=up),
    lambda n, sh, up: n.transpose(up=up, interval=sh),
]
k = 0
for name in NAMES:
    for octave in OCTAVES:
        for sh in IN_RANGE:
            for up in (True, False):
                k += 1
                n = Note(name, octave)
                before = int(n)
                if before != pitch(name, octave):
                    fail("int(Note(%r,%r)) = %r" % (name, octave, before))
                if up and k % 3 == 0:
                    n.transpose(sh)  # default direction is up
                else:
                    call_styles[k % 4](n, sh, up)
                checked[0] += 1
                s = size(sh)
                want = before + s if up else before - s
                steps = int(sh[-1]) - 1
                idx = LETTERS.index(name[0])
                want_letter = LETTERS[(idx + steps) % 7] if up else LETTERS[(idx - steps) % 7]
                if not isinstance(n.name, str) or not n.name or n.name[0] != want_letter:
                    fail("%s-%d %s %s: letter %r, wanted %s" % (name, octave, sh, up, n.name, want_letter))
                    continue
                if any(c not in "#b" for c in n.name[1:]):
                    fail("%s-%d %s %s: odd name %r" % (name, octave, sh, up, n.name))
                    continue
                if int(n) != want or pitch(n.name, n.octave) != want:
                    fail(
                        "%s-%d %s %s: pitch %r (%r), wanted %r"
                        % (name, octave, sh, up, int(n), snap_note(n), want)
                    )
                call_styles[(k + 1) % 4](n, sh, not up)
                if snap_note(n) != (name, octave):
                    fail("%s-%d %s %s: round trip gave %r" % (name, octave, sh, up, snap_note(n)))

# a note transposed many times over, and many notes sharing a process
n = Note("Eb", 5)
for i in range(300):
    sh = IN_RANGE[i % len(IN_RANGE)]
    p = int(n)
    n.transpose(sh, i % 2 == 0)
    checked[0] += 1
    if int(n) != (p + size(sh) if i % 2 == 0 else p - size(sh)):
        fail("chain step %d %s: %r" % (i, sh, snap_note(n)))
    n.transpose(sh, i % 2 != 0)
    if snap_note(n) != ("Eb", 5):
        fail("chain step %d %s not undone: %r" % (i, sh, snap_note(n)))

# note-level augment / diminish
for name in NAMES:
    for octave in (0, 3, 4, 8):
        n = Note(name, octave)
        p = int(n)
        n.augment()
        checked[0] += 1
        if int(n) != p + 1 or n.name[0] != name[0] or n.octave != octave:
            fail("augment %s-%d -> %r" % (name, octave, snap_note(n)))
        n.diminish()
        if snap_note(n) != (name, octave):
            fail("augment+diminish %s-%d -> %r" % (name, octave, snap_note(n)))
        n.diminish()
        if int(n) != p - 1 or n.name[0] != name[0] or n.octave != octave:
            fail("diminish %s-%d -> %r" % (name, octave, snap_note(n)))
        n.augment()
        if snap_note(n) != (name, octave):
            fail("diminish+augment %s-%d -> %r" % (name, octave, snap_note(n)))

# octave changes never go below 0
for octave in range(0, 7):
    for diff in range(-9, 5):
        n = Note("F#", octave)
        n.change_octave(diff)
        checked[0] += 1
        if n.octave != max(0, octave + diff) or n.name != "F#":
            fail("change_octave(%d) on octave %d -> %r" % (diff, octave, snap_note(n)))
    n = Note("Ab", octave)
    n.octave_down()
    if n.octave != max(0, octave - 1):
        fail("octave_down on %d -> %d" % (octave, n.octave))
    n.octave_up()
    if n.octave != max(0, octave - 1) + 1:
        fail("octave_up -> %d" % n.octave)
n = Note("C", 2)
for i in range(5):
    n.octave_down()
    if n.octave < 0:
        fail("octave below 0")
if n.octave != 0:
    fail("repeated octave_down -> %d" % n.octave)


# ----------------------------------------------------------- containers
def expected_note(pair, op):
    m = Note(pair[0], pair[1])
    kind = op[0]
    if kind == "transpose":
        m.transpose(op[1], op[2])
        # cross-check against arithmetic as well
        p = pitch(*pair)
        want = p + size(op[1]) if op[2] else p - size(op[1])
        if int(m) != want:
            fail("note %r %r: %r" % (pair, op, snap_note(m)))
    elif kind == "augment":
        m.augment()
    else:
        m.diminish()
    return snap_note(m)


def apply(obj, op, style):
    kind = op[0]
    if kind == "transpose":
        if style % 3 == 0:
            obj.transpose(op[1], op[2])
        elif style % 3 == 1:
            obj.transpose(op[1], up=op[2])
        else:
            obj.transpose(interval=op[1], up=op[2])
    elif kind == "augment":
        obj.augment()
    else:
        obj.diminish()


def snap_nc(nc):
    return [snap_note(x) for x in nc.notes]


def snap_bar(bar):
    return [
        (entry[0], entry[1], None if entry[2] is None else snap_nc(entry[2])) for entry in bar.bar
    ]


def snap_track(track):
    return [(b.current_beat, b.length, b.meter, snap_bar(b)) for b in track.bars]


def expect_bar(snap, op):
    return [
        (beat, dur, None if notes is None else [expected_note(p, op) for p in notes])
        for (beat, dur, notes) in snap
    ]


def random_op(rng):
    r = rng.random()
    if r < 0.6:
        return ("transpose", rng.choice(IN_RANGE), rng.random() < 0.5)
    if r < 0.8:
        return ("augment",)
    return ("diminish",)


def random_notes(rng):
    count = rng.choice([1, 1, 2, 3, 4])
    res = []
    for _ in range(count):
        res.append(Note(rng.choice(NAMES[:20] + ["C", "E", "G", "Bb", "F#"]), rng.randint(1, 7)))
    return res


def random_track(rng):
    t = Track()
    meter = rng.choice([(4, 4), (3, 4), (6, 8), (2, 2)])
    t.add_bar(Bar("C", meter))
    for _ in range(rng.randint(4, 24)):
        dur = rng.choice([1, 2, 4, 8, 16, 4, 8])
        if t.bars[-1].is_full():
            t.add_bar(Bar("C", meter))
        if rng.random() < 0.25:
            ok = t.bars[-1].place_rest(dur)
        else:
            ns = random_notes(rng)
            form = rng.random()
            if form < 0.4:
                ok = t.bars[-1].place_notes(NoteContainer(ns), dur)
            elif form < 0.7:
                ok = t.bars[-1].place_notes(ns, dur)
            else:
                ok = t.bars[-1].place_notes(ns[0], dur)
        if not ok:
            t.add_bar(Bar("C", meter))
    return t


rng = random.Random(11)
for case in range(120):
    t = random_track(rng)
    steps = [random_op(rng) for _ in range(rng.randint(1, 5))]
    for step_no, op in enumerate(steps):
        before = snap_track(t)
        apply(t, op, case + step_no)
        checked[0] += 1
        after = snap_track(t)
        want = [(cb, ln, mt, expect_bar(bs, op)) for (cb, ln, mt, bs) in before]
        if after != want:
            fail("track case %d step %r:\n  before %r\n  after  %r\n  wanted %r" % (case, op, before, after, want))
            break
    # reversibility on the whole track (the statement is about ordinary
    # names; after several augment steps a name may carry more accidentals
    # than the 35 x 35 table covers, so such tracks only get augment/diminish)
    before = snap_track(t)
    sh = rng.choice(IN_RANGE)
    up = rng.random() < 0.5
    ordinary = all(
        len(nm) <= 3 for (_, _, _, bs) in before for (_, _, ns) in bs if ns for (nm, _) in ns
    )
    if ordinary:
        t.transpose(sh, up)
        t.transpose(sh, not up)
        checked[0] += 1
        if snap_track(t) != before:
            fail("track case %d: %s up=%s then back differs" % (case, sh, up))
    t.augment()
    t.diminish()
    if snap_track(t) != before:
        fail("track case %d: augment+diminish differs" % case)
    t.diminish()
    t.augment()
    if snap_track(t) != before:
        fail("track case %d: diminish+augment differs" % case)

    # the same on single bars and on containers
    for b in t.bars[:2]:
        op = random_op(rng)
        before = snap_bar(b)
        beat_before = (b.current_beat, b.length, b.meter)
        apply(b, op, case)
        checked[0] += 1
        if snap_bar(b) != expect_bar(before, op):
            fail("bar case %d %r: %r -> %r" % (case, op, before, snap_bar(b)))
        if (b.current_beat, b.length, b.meter) != beat_before:
            fail("bar case %d %r: beat bookkeeping changed" % (case, op))
        b.augment()
        b.diminish()
        if snap_bar(b) != expect_bar(before, op):
            fail("bar case %d: augment+diminish differs" % case)
        for entry in b.bar:
            if entry[2] is None:
                continue
            nc = entry[2]
            op = random_op(rng)
            before_nc = snap_nc(nc)
            apply(nc, op, case + 1)
            checked[0] += 1
            if snap_nc(nc) != [expected_note(p, op) for p in before_nc]:
                fail("container case %d %r: %r -> %r" % (case, op, before_nc, snap_nc(nc)))
            mid = snap_nc(nc)
            nc.augment()
            nc.diminish()
            if snap_nc(nc) != mid:
                fail("container case %d: augment+diminish differs" % case)

# chord containers, every in-range shorthand, both directions
for chord in ["C", "Am7", "F#dim", "Ebmaj7", "G7", "Bbm", "Dsus4"]:
    for sh in IN_RANGE:
        for up in (True, False):
            nc = NoteContainer().from_chord(chord)
            before = snap_nc(nc)
            ret = nc.transpose(sh, up)
            checked[0] += 1
            if ret is not nc:
                fail("NoteContainer.transpose does not return the container")
            if snap_nc(nc) != [expected_note(p, ("transpose", sh, up)) for p in before]:
                fail("chord %s %s %s: %r" % (chord, sh, up, snap_nc(nc)))
            nc.transpose(sh, not up)
            if snap_nc(nc) != before:
                fail("chord %s %s %s: round trip %r" % (chord, sh, up, snap_nc(nc)))

# a track built from chords (contains split pieces and shared bars)
t = Track().from_chords(["C", ["Am", "Dm"], "G7", None, ["F", ["E7", "Bb"]]], 1)
for sh in IN_RANGE[::3]:
    for up in (True, False):
        before = snap_track(t)
        ret = t.transpose(sh, up)
        checked[0] += 1
        if ret is not t:
            fail("Track.transpose does not return the track")
        want = [(cb, ln, mt, expect_bar(bs, ("transpose", sh, up))) for (cb, ln, mt, bs) in before]
        if snap_track(t) != want:
            fail("from_chords track %s %s" % (sh, up))
        t.transpose(sh, not up)
        if snap_track(t) != before:
            fail("from_chords track %s %s not undone" % (sh, up))

# empty things are fine
Track().transpose("3")
Bar().transpose("b3", False)
NoteContainer().transpose("5")
Track().augment()
Bar().diminish()
NoteContainer().augment()

report()
