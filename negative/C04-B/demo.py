import mingus, os; assert os.path.realpath(mingus.__file__).startswith(os.path.realpath(os.path.dirname(__file__)))
import random
import sys

from mingus.core import intervals, keys, notes
from mingus.core.mt_exceptions import NoteFormatError, RangeError

MAJORS = ["Cb", "Gb", "Db", "Ab", "Eb", "Bb", "F", "C", "G", "D", "A", "E", "B", "F#", "C#"]
MINORS = ["ab", "eb", "bb", "f", "c", "g", "d", "a", "e", "b", "f#", "c#", "g#", "d#", "a#"]
LETTERS = "CDEFGAB"
SHARP_ORDER = ["F#", "C#", "G#", "D#", "A#", "E#", "B#"]
FLAT_ORDER = ["Bb", "Eb", "Ab", "Db", "Gb", "Cb", "Fb"]
MAJOR_STEPS = [2, 2, 1, 2, 2, 2, 1]
MINOR_STEPS = [2, 1, 2, 2, 1, 2, 2]

failures = []
count = [0]


def check(cond, msg):
    count[0] += 1
    if not cond:
        failures.append(msg)


def raises(exc, fn, *args):
    try:
        fn(*args)
    except exc:
        return True
    except Exception as e:  # wrong class
        return False
    return False


def tonic_name(key):
    return key[0].upper() + key[1:]


# --- per key checks -------------------------------------------------------
for idx in range(15):
    for key, steps, mode in ((MAJORS[idx], MAJOR_STEPS, "major"), (MINORS[idx], MINOR_STEPS, "minor")):
        sig = idx - 7
        ns = keys.get_notes(key)
        check(isinstance(ns, list) and len(ns) == 7, "%s: not 7 notes: %r" % (key, ns))
        check(ns[0] == tonic_name(key), "%s: does not start on tonic: %r" % (key, ns))
        start = LETTERS.index(key[0].upper())
        check(
            [n[0] for n in ns] == [LETTERS[(start + i) % 7] for i in range(7)],
            "%s: letters not in order: %r" % (key, ns),
        )
        got_steps = [
            (notes.note_to_int(ns[(i + 1) % 7]) - notes.note_to_int(ns[i])) % 12 for i in range(7)
        ]
        check(got_steps == steps, "%s: step pattern %r" % (key, got_steps))

        # signature
        check(keys.get_key_signature(key) == sig, "%s: signature %r" % (key, keys.get_key_signature(key)))
        acc = keys.get_key_signature_accidentals(key)
        expected_acc = SHARP_ORDER[:sig] if sig > 0 else FLAT_ORDER[: -sig] if sig < 0 else []
        check(list(acc) == expected_acc, "%s: signature accidentals %r" % (key, acc))
        check(len(acc) == abs(sig), "%s: accidental count" % key)
        check(
            sorted(n for n in ns if len(n) > 1) == sorted(acc),
            "%s: accidentals in notes %r differ from signature %r" % (key, ns, acc),
        )
        check(all(len(n) <= 2 for n in ns), "%s: double accidentals %r" % (key, ns))

        # returned list is independent of later calls
        ns.append("X")
        ns[0] = "Y"
        check(keys.get_notes(key)[0] == tonic_name(key) and len(keys.get_notes(key)) == 7,
              "%s: get_notes result aliasing" % key)
        acc.append("X")
        check(list(keys.get_key_signature_accidentals(key)) == expected_acc,
              "%s: get_key_signature_accidentals result aliasing" % key)

        # lookups
        check(keys.is_valid_key(key) is True, "%s: is_valid_key" % key)
        couple = keys.get_key(sig)
        check(tuple(couple) == (MAJORS[idx], MINORS[idx]), "get_key(%d) = %r" % (sig, couple))
        check(key in couple, "%s not in get_key(signature)" % key)
        check(keys.get_key_signature(couple[0]) == sig and keys.get_key_signature(couple[1]) == sig,
              "get_key/get_key_signature not inverse at %d" % sig)

        # key object
        k = keys.Key(key)
        check(k.key == key, "%s: Key.key %r" % (key, k.key))
        check(k.mode == mode, "%s: Key.mode %r" % (key, k.mode))
        check(k.signature == sig, "%s: Key.signature %r" % (key, k.signature))
        symbol = {"#": "sharp ", "b": "flat "}[key[1]] if len(key) > 1 else ""
        check(k.name == "%s %s%s" % (key[0].upper(), symbol, mode), "%s: Key.name %r" % (key, k.name))
        check(k == keys.Key(key) and not (k != keys.Key(key)), "%s: Key equality" % key)
        other = MAJORS[(idx + 1) % 15]
        check(k != keys.Key(other) and not (k == keys.Key(other)), "%s: Key inequality" % key)

    # relatives
    M, m = MAJORS[idx], MINORS[idx]
    check(keys.relative_minor(M) == m, "relative_minor(%s)" % M)
    check(keys.relative_major(m) == M, "relative_major(%s)" % m)
    check(keys.relative_major(keys.relative_minor(M)) == M, "relative round trip %s" % M)
    check(keys.relative_minor(keys.relative_major(m)) == m, "relative round trip %s" % m)
    check(sorted(keys.get_notes(M)) == sorted(keys.get_notes(m)), "relative keys %s/%s note sets differ" % (M, m))
    check(
        (notes.note_to_int(tonic_name(m)) - notes.note_to_int(M)) % 12 == 9,
        "minor tonic of %s not 9 semitones above" % M,
    )
    check(keys.get_notes(m)[0] == keys.get_notes(M)[5], "minor tonic is not sixth degree of %s" % M)
    check(raises(NoteFormatError, keys.relative_major, M) or M in MINORS, "relative_major(%s) accepted" % M)
    check(raises(NoteFormatError, keys.relative_minor, m) or m in MAJORS, "relative_minor(%s) accepted" % m)

check(tuple(keys.get_key()) == ("C", "a"), "get_key() default")
check(keys.get_key_signature() == 0, "get_key_signature() default")
check(keys.get_notes() == list("CDEFGAB"), "get_notes() default")
check(list(keys.get_key_signature_accidentals()) == [], "get_key_signature_accidentals() default")

# --- rejected inputs ---------------------------------------------------------
for n in [-8, 8, -9, 9, 15, -15, 100, -100, 12, 255, -256, 10 ** 6, -(10 ** 6)]:
    check(raises(RangeError, keys.get_key, n), "get_key(%d) not rejected with RangeError" % n)

rnd = random.Random(4)
bad = ["H", "h", "X", "c##", "Cbb", "Fb", "fb", "G#", "D#", "A#", "E#", "B#", "db", "gb", "cb",
       "CC", "C ", " C", "c major", "C#m", "Am", "am", "cB", "Bb ", "#", "b#", "1", "0", "-3",
       "C\n", "do", "Do", "e#", "b#b", "A##", "Ebb", "ABC", "minor", "major", "key", "é", "C♯"]
alphabet = "abcdefgABCDEFG#b hX1"
while len(bad) < 160:
    s = "".join(rnd.choice(alphabet) for _ in range(rnd.randint(1, 4)))
    if s not in MAJORS and s not in MINORS and s not in bad:
        bad.append(s)
for s in bad:
    check(keys.is_valid_key(s) is False, "is_valid_key(%r) accepted" % s)
    check(raises(NoteFormatError, keys.get_key_signature, s), "get_key_signature(%r) not rejected" % s)
    check(raises(NoteFormatError, keys.get_key_signature_accidentals, s),
          "get_key_signature_accidentals(%r) not rejected" % s)
    check(raises(NoteFormatError, keys.get_notes, s), "get_notes(%r) not rejected" % s)
    check(raises(NoteFormatError, keys.Key, s), "Key(%r) not rejected" % s)
    check(raises(NoteFormatError, keys.relative_major, s), "relative_major(%r) not rejected" % s)
    check(raises(NoteFormatError, keys.relative_minor, s), "relative_minor(%r) not rejected" % s)
    check(raises(NoteFormatError, intervals.second, "C", s), "second('C', %r) not rejected" % s)
# asking again after a failure must still be rejected / still work
check(raises(NoteFormatError, keys.get_notes, "H"), "get_notes('H') accepted the second time")
check(keys.get_notes("c") == ["C", "D", "Eb", "F", "G", "Ab", "Bb"], "get_notes('c')")

# --- diatonic steps ---------------------------------------------------------
FUNCS = [intervals.second, intervals.third, intervals.fourth, intervals.fifth, intervals.sixth,
         intervals.seventh]
for key in MAJORS + MINORS:
    ns = keys.get_notes(key)
    by_letter = dict((n[0], n) for n in ns)
    for letter in LETTERS:
        for suffix in ("", "#", "b", "##", "bb", "#b"):
            note = letter + suffix
            for step, fn in enumerate(FUNCS, 1):
                expected = by_letter[LETTERS[(LETTERS.index(letter) + step) % 7]]
                got = fn(note, key)
                check(got == expected, "%s(%r, %r) = %r, expected %r" % (fn.__name__, note, key, got, expected))
                if suffix == "":
                    got = intervals.interval(key, note, step)
                    check(got == expected, "interval(%r, %r, %d) = %r" % (key, note, step, got))
    # the key's note list is not disturbed by interval lookups
    check(keys.get_notes(key) == ns, "%s: notes changed after interval lookups" % key)

if failures:
    print("C04 property violated (%d of %d checks):" % (len(failures), count[0]))
    for f in failures[:25]:
        print("  " + f)
    sys.exit(1)
print("C04 holds: %d checks" % count[0])
sys.exit(0)
