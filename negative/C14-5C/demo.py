import mingus, os; assert os.path.realpath(mingus.__file__).startswith(os.path.realpath(os.path.dirname(__file__)))
"""Direct check of property C14 (tracks and compositions accumulate music
faithfully) through the public API.  Exit 0 when it holds, 1 otherwise."""
import random
import sys

import mingus.core.value as value
from mingus.containers import Bar, Composition, Note, NoteContainer, Track
from mingus.containers.instrument import Guitar, Instrument, MidiInstrument, Piano
from mingus.containers.mt_exceptions import InstrumentRangeError

EPS = 1e-6
CASES = [0]


class Failure(Exception):
    pass


def check(cond, msg, *args):
    if not cond:
        raise Failure(msg % args if args else msg)


def pitch(name, octave):
    base = {"C": 0, "D": 2, "E": 4, "F": 5, "G": 7, "A": 9, "B": 11}[name[0]]
    return octave * 12 + base + name.count("#") - name[1:].count("b")


def contents(nc):
    """Independent description of what an entry holds."""
    if nc is None:
        return None
    return [(n.name, n.octave, n.velocity, n.channel) for n in nc]


def flat(track):
    return [(d, contents(nc)) for (_b, d, nc) in track.get_notes()]


def flat_by_bars(track):
    out = []
    for bar in track:
        for entry in bar:
            out.append((entry[1], contents(entry[2])))
    return out


def total(track):
    return sum(1.0 / e[1] for bar in track.bars for e in bar.bar)


def bar_shape(track):
    return [(id(b), len(b)) for b in track.bars]


# --------------------------------------------------------------------------
# items

NAMES = ["C", "D", "E", "F", "G", "A", "B", "C#", "Eb", "F#", "Bb", "Gb"]


def make_item(rng):
    """Return (item, expected contents without dynamics, pitches)."""
    kind = rng.randrange(7)
    if kind == 0:
        return None, None, []
    if kind == 1:  # bare name -> octave 4
        n = rng.choice(NAMES)
        return n, [(n, 4)], [pitch(n, 4)]
    if kind == 2:  # name with octave
        n, o = rng.choice(NAMES), rng.randrange(0, 10)
        return "%s-%d" % (n, o), [(n, o)], [pitch(n, o)]
    if kind == 3:  # Note object
        n, o = rng.choice(NAMES), rng.randrange(0, 10)
        return Note(n, o), [(n, o)], [pitch(n, o)]
    if kind == 4:  # NoteContainer of explicit notes
        k = rng.randrange(1, 8)
        ps = {}
        for _ in range(k):
            n, o = rng.choice(NAMES), rng.randrange(1, 8)
            ps.setdefault(pitch(n, o), (n, o))
        exp = [ps[p] for p in sorted(ps)]
        return NoteContainer([Note(n, o) for (n, o) in exp]), exp, sorted(ps)
    if kind == 5:  # list of names with octaves
        k = rng.randrange(1, 5)
        ps = {}
        for _ in range(k):
            n, o = rng.choice(NAMES), rng.randrange(2, 7)
            ps.setdefault(pitch(n, o), (n, o))
        exp = [ps[p] for p in sorted(ps)]
        lst = ["%s-%d" % e for e in exp]
        rng.shuffle(lst)
        return lst, exp, sorted(ps)
    # chord container
    sh = rng.choice(["C", "Am", "G7", "Dm7", "F", "Bb", "EM7"])
    nc = NoteContainer().from_chord(sh)
    exp = [(n.name, n.octave) for n in nc]
    return nc, exp, [pitch(*e) for e in exp]


VALUES = [1, 2, 4, 8, 16, 32, 64, value.dots(4), value.dots(2), value.dots(8),
          value.triplet(4), value.triplet(8), 4.0, 2.0, value.dots(4, 2), 3, 6, 12, 5, None]
METERS = [(4, 4), (3, 4), (2, 4), (6, 8), (5, 4), (7, 8), (2, 2), (12, 8), (1, 4), (9, 16)]
KEYS = ["C", "G", "F#", "Bb", "a", "e", "Db"]


def make_instrument(rng, which=None):
    which = rng.randrange(6) if which is None else which
    if which == 0:
        return None, None
    if which == 1:
        ins = Instrument()
    elif which == 2:
        ins = Piano()
    elif which == 3:
        ins = Guitar()
    elif which == 4:
        ins = MidiInstrument(rng.choice(["", "Cello", "weird {0} %s \n \xe9"]))
    else:
        ins = Instrument()
        ins.set_range(rng.choice([("C-3", "C-5"), (Note("A", 2), Note("A", 4)), ("E-4", "E-4")]))
    return ins, (pitch(ins.range[0].name, ins.range[0].octave), pitch(ins.range[1].name, ins.range[1].octave))


def structure_checks(track, own_bars, opened):
    # every bar except the last is full
    for b in track.bars[:-1]:
        check(b.is_full(), "a bar that is not the last one is not full: %r", b)
        check(abs(sum(1.0 / e[1] for e in b.bar) - b.length) < 1e-3 or b.meter == (0, 0),
              "inner bar content does not fill its length: %r", b)
    check(track.test_integrity(), "test_integrity is False")
    # bars opened by the track inherit key and meter of their predecessor
    for i, b in enumerate(track.bars):
        if id(b) in opened and i > 0:
            prev = track.bars[i - 1]
            check(b.meter == prev.meter, "new bar meter %r != %r", b.meter, prev.meter)
            check(b.key == prev.key or b.key.key == prev.key.key, "new bar key differs")
            check(b.length == prev.length, "new bar length differs")
    # entries sit inside their bars, beats ascending
    for b in track.bars:
        last = -1.0
        for e in b.bar:
            check(e[0] > last - 1e-9, "beats not ascending in %r", b)
            last = e[0]
    check(len(track) == len(track.bars), "len(track) != number of bars")
    for i in range(len(track.bars)):
        check(track[i] is track.bars[i], "track[%d] is not its bar", i)
    if track.bars:
        check(track[-1] is track.bars[-1], "track[-1] is not last bar")


def run_sequence(seed):
    rng = random.Random(seed)
    ins, rng_range = make_instrument(rng, seed % 6)
    track = Track(ins) if rng.random() < 0.7 else Track(instrument=ins)
    accepted = []  # (duration, contents without dynamics)
    own_bars = set()
    opened = set()
    if rng.random() < 0.6:
        b = Bar(rng.choice(KEYS), rng.choice(METERS))
        check(track.add_bar(b) is track, "add_bar does not return the track")
        own_bars.add(id(b))
    nops = rng.randrange(5, 40)
    for _step in range(nops):
        if rng.random() < 0.05:
            # add a fresh bar (allowed at any time through the API; only when last is full
            # or the track is empty, so that the 'all but last are full' invariant stays ours)
            if not track.bars or track.bars[-1].is_full():
                b = Bar(rng.choice(KEYS), rng.choice(METERS))
                if rng.random() < 0.5:
                    track.add_bar(b)
                else:
                    check((track + b) is track, "track + bar does not return the track")
                own_bars.add(id(b))
            continue
        item, exp, pitches = make_item(rng)
        dur = rng.choice(VALUES)
        before = flat(track)
        before_total = total(track)
        nbars = len(track.bars)
        last_full = track.bars[-1].is_full() if track.bars else None
        last_bar = track.bars[-1] if track.bars else None
        how = rng.randrange(4)
        use_plus = dur is None and item is not None and not isinstance(item, list) and how == 0
        in_range = True
        if ins is not None and item is not None:
            in_range = all(rng_range[0] <= p <= rng_range[1] for p in pitches)
            if isinstance(ins, Guitar) and len(pitches) > 6:
                in_range = False
        try:
            if use_plus:
                res = track + item
            elif how == 1:
                res = track.add_notes(note=item, duration=dur)
            elif how == 2 and dur is None:
                res = track.add_notes(item)
            else:
                res = track.add_notes(item, dur)
        except InstrumentRangeError:
            check(ins is not None and item is not None, "range error without instrument / for a rest")
            check(not in_range, "range error for in-range item %r on %r", item, ins)
            check(flat(track) == before, "refused (range) item changed the track")
            check(len(track.bars) == nbars, "refused (range) item changed the number of bars")
            # refusing again gives the same
            try:
                track.add_notes(item, dur)
                check(False, "second attempt of out-of-range item was accepted")
            except InstrumentRangeError:
                pass
            check(flat(track) == before, "repeated refused item changed the track")
            continue
        check(in_range, "out-of-range item %r accepted on %r", item, ins)
        check(res is True or res is False, "add_notes returned %r", res)
        # a new bar is opened only when the last one is full (or there is none)
        if len(track.bars) != nbars:
            check(len(track.bars) == nbars + 1, "more than one bar opened")
            check(nbars == 0 or last_full, "bar opened while last bar was not full")
            if nbars:
                check(track.bars[-2] is last_bar, "old last bar replaced")
                opened.add(id(track.bars[-1]))
        else:
            check(not last_full, "last bar full but no new bar opened")
        d = 4 if dur is None else dur
        if res:
            accepted.append((d, exp))
            after = flat(track)
            check(len(after) == len(before) + 1, "accepted item did not add exactly one entry")
            check(after[:-1] == before, "accepted item disturbed earlier entries")
            check(abs(total(track) - before_total - 1.0 / d) < EPS, "length not increased by item length")
        else:
            check(flat(track) == before, "rejected (False) item changed the track contents")
            check(abs(total(track) - before_total) < EPS, "rejected item changed total length")
            # repeated
            check(track.add_notes(item, dur) is False, "repeat of rejected item was accepted")
            check(flat(track) == before, "repeated rejected item changed the track")
        structure_checks(track, own_bars, opened)

    got = flat(track)
    check(got == flat_by_bars(track), "get_notes and bar iteration disagree")
    check(len(got) == len(accepted), "number of entries %d != accepted %d", len(got), len(accepted))
    for (gd, gc), (ad, ac) in zip(got, accepted):
        check(gd == ad, "value %r stored as %r", ad, gd)
        if ac is None:
            check(gc is None, "rest stored as %r", gc)
        else:
            check(gc is not None and [(n, o) for (n, o, _v, _c) in gc] == ac, "contents %r stored as %r", ac, gc)
    check(abs(total(track) - sum(1.0 / d for d, _ in accepted)) < EPS, "sum of entry lengths != accepted lengths")
    CASES[0] += 1
    return track


def dynamics_case():
    t = Track()
    n = Note("C", 4, velocity=33, channel=5)
    nc = NoteContainer([n, Note("E", 4, velocity=90, channel=2)])
    check(t.add_notes(nc, 2) is True, "dynamics container refused")
    check(t.add_notes(n, 4) is True, "dynamics note refused")
    got = flat(t)
    check(got[0] == (2, [("C", 4, 33, 5), ("E", 4, 90, 2)]), "dynamics lost: %r", got[0])
    check(got[1] == (4, [("C", 4, 33, 5)]), "dynamics lost: %r", got[1])
    # same object several times
    check(t.add_notes(nc, 8) and t.add_notes(nc, 8), "reused container refused")
    got = flat(t)
    check(got[2] == got[3] == (8, [("C", 4, 33, 5), ("E", 4, 90, 2)]), "reused container stored wrongly")
    CASES[0] += 1


def rests_and_range_case():
    for ins in (None, Instrument(), Piano(), Guitar(), MidiInstrument("x")):
        t = Track(ins)
        for d in (4, 8, 8, 2, 1):
            check(t.add_notes(None, d) is True, "rest refused with %r", ins)
        check([x[0] for x in flat(t)] == [4, 8, 8, 2, 1], "rests not in order")
        check(all(x[1] is None for x in flat(t)), "rest has contents")
    g = Track(Guitar())
    for item in ("E-3", "E-7", Note("A", 5), ["E-3", "B-3", "E-4"], NoteContainer(["E-3", "E-7"])):
        check(g.add_notes(item, 16) is True, "in-range %r refused by guitar", item)
    for item in ("D#-3", "F-7", Note("C", 0), ["E-3", "F-7"], NoteContainer(["C-1"]),
                 NoteContainer(["E-3", "F-3", "G-3", "A-3", "B-3", "C-4", "D-4"])):
        snap = flat(g)
        try:
            g.add_notes(item, 16)
            check(False, "out-of-range %r accepted by guitar", item)
        except InstrumentRangeError:
            pass
        check(flat(g) == snap and len(g) == 1, "refused item changed guitar track")
    p = Track(Piano())
    for item, ok in (("F-0", True), ("E-0", False), ("B-8", True), ("C-9", False), ("Cb-9", True), ("E#-0", True)):
        snap = flat(p)
        try:
            r = p.add_notes(item, 32)
            check(ok and r is True, "piano accepted %r", item)
        except InstrumentRangeError:
            check(not ok, "piano refused %r", item)
            check(flat(p) == snap, "refused item changed piano track")
    m = Track(MidiInstrument())
    for item, ok in (("C-0", True), ("B-8", True), ("C-9", False), ("Cb-9", True)):
        try:
            r = m.add_notes(item, 32)
            check(ok and r is True, "midi accepted %r", item)
        except InstrumentRangeError:
            check(not ok, "midi refused %r", item)
    CASES[0] += 1


# --------------------------------------------------------------------------
# from_chords

CHORDS = ["C", "Am", "Dm", "G7", "C#", "FM7", "Bb", "Em7", "Ddim", "Asus4", "C/G", "NC"]


def make_chords(rng, depth=0):
    out = []
    for _ in range(rng.randrange(1, 5)):
        r = rng.random()
        if r < 0.2 and depth < 3:
            out.append(make_chords(rng, depth + 1))
        elif r < 0.4:
            out.append(None)
        else:
            out.append(rng.choice(CHORDS))
    return out


def leaves(chords, dur):
    for c in chords:
        if isinstance(c, list):
            for x in leaves(c, dur * 2):
                yield x
        else:
            yield c, dur


def run_from_chords(seed):
    rng = random.Random(1000 + seed)
    meter = rng.choice([(4, 4), (3, 4), (6, 8), (5, 4), (2, 2), (7, 8), (2, 4), (4, 4)])
    length = meter[0] / float(meter[1])
    dur = rng.choice([d for d in (1, 2, 4, 8) if 1.0 / d <= length])
    chords = make_chords(rng)
    ins = rng.choice([None, None, Instrument(), Piano(), MidiInstrument()])
    t = Track(ins)
    key = rng.choice(KEYS)
    if meter != (4, 4) or rng.random() < 0.5:
        t.add_bar(Bar(key, meter))
    else:
        key = "C"
    pre = 0.0
    if rng.random() < 0.4:  # something already there
        t.add_notes("C", 8)
        t.add_notes(None, 16)
        pre = 1 / 8.0 + 1 / 16.0
    npre = len(flat(t))
    if rng.random() < 0.5:
        r = t.from_chords(chords, dur)
    else:
        r = t.from_chords(chords=chords, duration=dur)
    check(r is t, "from_chords does not return the track")
    wanted = list(leaves(chords, dur))
    got = flat(t)[npre:]
    i = 0
    for c, d in wanted:
        exp = None
        if c is not None:
            exp = [(n.name, n.octave) for n in NoteContainer().from_chord(c)]
        check(i < len(got), "chord %r missing (ran out of entries)", c)
        gd, gc = got[i]
        gcn = None if gc is None else [(n, o) for (n, o, _v, _c) in gc]
        check(gcn == exp, "expected %r at position %d, found %r", exp, i, gcn)
        if abs(1.0 / gd - 1.0 / d) < EPS:
            i += 1
            continue
        # split across a bar line: two consecutive pieces with same contents
        check(i + 1 < len(got), "split piece of %r missing", c)
        gd2, gc2 = got[i + 1]
        gcn2 = None if gc2 is None else [(n, o) for (n, o, _v, _c) in gc2]
        check(gcn2 == exp, "second piece of %r has contents %r", c, gcn2)
        check(abs(1.0 / gd + 1.0 / gd2 - 1.0 / d) < EPS, "split pieces %r + %r do not add up to %r", gd, gd2, d)
        i += 2
    check(i == len(got), "extra entries after the chords: %r", got[i:])
    check(abs(total(t) - pre - sum(1.0 / d for _c, d in wanted)) < EPS, "total length of from_chords wrong")
    for b in t.bars[:-1]:
        check(b.is_full(), "from_chords left a non-final bar not full")
    for b in t.bars:
        check(b.meter == meter, "meter not inherited")
        check(b.key.key == t.bars[0].key.key, "key not inherited")
    # split pieces are in different bars: every bar's content does not exceed its length
    for b in t.bars:
        check(sum(1.0 / e[1] for e in b.bar) <= b.length + EPS, "bar overfull")
    CASES[0] += 1


def from_chords_fixed():
    t = Track().from_chords(["C", ["Am", "Dm"], "G7", "C#"], 1)
    check([d for d, _ in flat(t)] == [1, 2, 2, 1, 1], "docstring example durations %r", [d for d, _ in flat(t)])
    check(len(t) == 4, "docstring example bars")
    t = Track().add_bar(Bar("G", (3, 4))).from_chords(["C", None, "F"], 2)
    ds = [(round(1.0 / d, 6), c is None) for d, c in flat(t)]
    check(ds == [(0.5, False), (0.25, True), (0.25, True), (0.5, False)], "3/4 split wrong: %r", ds)
    check(len(t) == 2 and t[1].meter == (3, 4) and t[1].key.key == "G", "3/4 bars wrong")
    # long input
    t = Track().from_chords(["C", "F", None, "G"] * 300, 4)
    check(len(t) == 300 and len(flat(t)) == 1200, "long from_chords wrong")
    check(all(b.is_full() for b in t.bars), "long from_chords bars not full")
    # many distinct chords in one process, twice, each compared with the chord itself
    many = [r + q for r in ("C", "C#", "Db", "D", "Eb", "E", "F", "F#", "G", "Ab", "A", "Bb", "B")
            for q in ("", "m", "7", "m7", "M7", "dim", "aug", "sus4", "6", "9", "m6", "7b5")]
    for _round in range(2):
        t = Track().from_chords(many, 4)
        got = flat(t)
        check(len(got) == len(many), "many chords: %d entries for %d chords", len(got), len(many))
        for sh, (d, c) in zip(many, got):
            exp = [(n.name, n.octave) for n in NoteContainer().from_chord(sh)]
            check(d == 4 and [(n, o) for (n, o, _v, _c) in c] == exp, "chord %r stored as %r", sh, c)
        # changing what is stored does not leak into later uses of the same chord
        for b in t.bars:
            for e in b.bar:
                e[2].add_note("C-8")
                e[2].notes[0].octave = 1
                e[2].notes[0].name = "D"
    # a chord that is not understood places nothing of itself and does not spoil later ones
    for bad in ("H7", "Cfoo{0}%s", "", "C\n", "\xe9"):
        t = Track()
        try:
            t.from_chords(["C", bad, "G"], 4)
            check(False, "bad chord %r accepted", bad)
        except Failure:
            raise
        except Exception:
            pass
        check([c for _d, c in flat(t)] == [contents(NoteContainer().from_chord("C"))], "bad chord %r left %r", bad, flat(t))
    # the same list object used at several places, and an iterator as outer sequence
    inner = ["Am", None]
    t = Track().from_chords(iter([inner, "C", inner, [inner, inner]]), 2)
    ds = [(d, c is None) for d, c in flat(t)]
    check(ds == [(4, False), (4, True), (2, False), (4, False), (4, True), (8, False), (8, True), (8, False), (8, True)],
          "shared sublists: %r", ds)
    # tuning attached (no instrument): every chord and rest placed in order, total length right
    import mingus.extra.tunings as tunings
    t = Track()
    t.set_tuning(tunings.get_tuning("guitar", "standard", 6, 1))
    t.from_chords(["Am", None, ["E", "C"], "G"], 2)
    got = flat(t)
    check([(d, c is None) for d, c in got] == [(2, False), (2, True), (4, False), (4, False), (2, False)], "tuned from_chords: %r", got)
    for sh, (_d, c) in zip(["Am", None, "E", "C", "G"], got):
        if sh is not None:
            want = set(n.name for n in NoteContainer().from_chord(sh))
            check(set(n for (n, _o, _v, _c) in c) == want, "tuned chord %r has names %r", sh, c)
    check(abs(total(t) - 2.0) < EPS and len(t) == 2, "tuned from_chords length")
    CASES[0] += 12


# --------------------------------------------------------------------------
# compositions, equality, indexing

def run_composition(seed):
    rng = random.Random(5000 + seed)
    c = Composition()
    check(len(c) == 0, "new composition not empty")
    tracks = []
    for _ in range(rng.randrange(1, 6)):
        t = Track(rng.choice([None, Instrument(), Piano()]))
        if rng.random() < 0.5:
            c.add_track(t)
        else:
            c + t
        tracks.append(t)
        check(len(c) == len(tracks), "len(composition) wrong")
        check(list(c.selected_tracks) == [len(tracks) - 1], "add_track did not select the new track")
    for i, t in enumerate(tracks):
        check(c[i] is t, "composition[%d] is not its track", i)
    check(c[-1] is tracks[-1], "composition[-1]")
    counts = [0] * len(tracks)
    for _ in range(rng.randrange(1, 12)):
        sel = [i for i in range(len(tracks)) if rng.random() < 0.5]
        rng.shuffle(sel)
        c.selected_tracks = sel
        item = rng.choice(["C", "E-5", Note("G", 4), NoteContainer(["C", "E"]), "A-3"])
        before = [flat(t) for t in tracks]
        if rng.random() < 0.5:
            c.add_note(item)
        else:
            c + item
        for i, t in enumerate(tracks):
            now = flat(t)
            if i in sel:
                counts[i] += 1
                check(len(now) == len(before[i]) + 1 and now[:-1] == before[i], "selected track %d did not get the note", i)
                exp = contents(NoteContainer(item))
                check(now[-1] == (4, exp), "selected track got %r, wanted %r", now[-1], exp)
            else:
                check(now == before[i], "unselected track %d changed", i)
        check(list(c.selected_tracks) == sel, "selection changed by add_note")
    for i, t in enumerate(tracks):
        check(len(flat(t)) == counts[i], "track %d has wrong number of entries", i)
    # equality follows contents
    d = Composition()
    for t in tracks:
        u = Track()
        for dur, cont in flat(t):
            u.add_notes(NoteContainer([Note(n, o) for (n, o, _v, _c) in cont]), dur)
        check(u == t and t == u and not (u != t), "rebuilt track differs")
        d.add_track(u)
    check(c == d and d == c, "compositions with equal tracks differ")
    d[0].add_notes("B", 16) or d[0].add_notes("B", 16)
    check(not (c == d) and c != d, "compositions with different tracks equal")
    e = Composition()
    for t in tracks[:-1]:
        e.add_track(t)
    check((e == c) == (len(tracks) == 0), "shorter composition equals longer one")
    e.add_track(tracks[-1])
    check(e == c, "composition of the same tracks differs")
    c[0] = tracks[-1]
    check(c[0] is tracks[-1], "composition item assignment")
    CASES[0] += 1


def track_equality():
    a, b = Track(), Track(Piano())
    check(a == b and len(a) == 0, "empty tracks differ")
    for t in (a, b):
        t + "C"
        t.add_notes(["E", "G"], 8)
        t.add_notes(None, 8)
    check(a == b, "same contents, tracks differ")
    b.add_notes("C", 2)
    check(a != b and not a == b, "different contents, tracks equal")
    a.add_notes("D", 2)
    check(a != b, "different notes, tracks equal")
    x, y = Track(), Track()
    x.add_notes("C", 4)
    y.add_notes("C", 8)
    check(x != y, "different values, tracks equal")
    x, y = Track(), Track()
    x.add_notes("C", 4)
    y.add_notes(None, 4)
    check(x != y and y != x, "rest equals note")
    bar = Bar()
    bar + "C"
    x = Track()
    x.add_bar(bar)
    y = Track()
    y + "C"
    check(x == y and x[0] is bar and len(x) == 1, "track of one bar")
    nb = Bar("D", (2, 4))
    x[0] = nb
    check(x[0] is nb and x != y, "track item assignment")
    CASES[0] += 1


def main():
    try:
        for s in range(360):
            run_sequence(s)
        dynamics_case()
        rests_and_range_case()
        for s in range(200):
            run_from_chords(s)
        from_chords_fixed()
        for s in range(80):
            run_composition(s)
        track_equality()
    except Failure as e:
        print("PROPERTY VIOLATED: %s" % e)
        return 1
    print("ok: %d cases" % CASES[0])
    return 0


if __name__ == "__main__":
    sys.exit(main())
