import mingus, os; assert os.path.realpath(mingus.__file__).startswith(os.path.realpath(os.path.dirname(__file__)))
import io
import random
import sys
import tempfile
import contextlib

from mingus.containers import Bar, Composition, Note, NoteContainer, Track
from mingus.containers.instrument import MidiInstrument
from mingus.core.keys import major_keys, minor_keys
from mingus.midi import midi_file_in, midi_file_out
from mingus.midi.midi_track import MidiTrack

TMP = tempfile.mkdtemp(prefix="c17demo")
PATH = os.path.join(TMP, "x.mid")
FAILS = []
CASES = [0]


def fail(msg):
    FAILS.append(msg)
    if len(FAILS) > 10:
        finish()


def finish():
    try:
        for f in os.listdir(TMP):
            os.remove(os.path.join(TMP, f))
        os.rmdir(TMP)
    except OSError:
        pass
    if FAILS:
        print("C17 FAILS (%d):" % len(FAILS))
        for f in FAILS:
            print("  " + f)
        sys.exit(1)
    print("C17 holds on %d cases" % CASES[0])
    sys.exit(0)


def ticks_of(value):
    return int(round(288.0 / value))


def flatten(track):
    """[(ticks, frozenset of (midi pitch, channel, velocity))], rests merged,
    trailing rests dropped."""
    out = []
    for bar in track.bars:
        for entry in bar.bar:
            nc = entry[2]
            pitches = frozenset((int(n) + 12, n.channel, n.velocity) for n in (nc or []))
            t = ticks_of(entry[1])
            if not pitches and out and not out[-1][1]:
                out[-1] = (out[-1][0] + t, out[-1][1])
            else:
                out.append((t, pitches))
    while out and not out[-1][1]:
        out.pop()
    return out


def roundtrip(comp, bpm=120, **kw):
    with contextlib.redirect_stdout(io.StringIO()):
        ok = midi_file_out.write_Composition(PATH, comp, bpm, **kw)
        if ok is not True:
            raise AssertionError("write_Composition returned %r" % (ok,))
        return midi_file_in.MIDI_to_Composition(PATH)


def check(comp, bpm, label, uniform=True):
    CASES[0] += 1
    try:
        got, gbpm = roundtrip(comp, bpm)
    except Exception as e:  # noqa
        fail("%s: round trip raised %s: %s" % (label, type(e).__name__, e))
        return
    if gbpm != bpm:
        fail("%s: bpm %r came back as %r" % (label, bpm, gbpm))
    if len(got.tracks) != len(comp.tracks):
        fail("%s: %d tracks came back as %d" % (label, len(comp.tracks), len(got.tracks)))
        return
    for i, (a, b) in enumerate(zip(comp.tracks, got.tracks)):
        fa, fb = flatten(a), flatten(b)
        if fa != fb:
            fail("%s: track %d music differs\n    wrote %r\n    read  %r" % (label, i, fa, fb))
        if a.name != b.name:
            fail("%s: track %d name %r came back as %r" % (label, i, a.name, b.name))
        if hasattr(a.instrument, "instrument_nr") and fa:
            if getattr(b.instrument, "instrument_nr", None) != a.instrument.instrument_nr:
                fail("%s: track %d instrument %r came back as %r" % (
                    label, i, a.instrument.instrument_nr,
                    getattr(b.instrument, "instrument_nr", None)))
        if uniform and fa:
            want = (tuple(a.bars[0].meter), a.bars[0].key.key, a.bars[0].key.mode)
            for j, bar in enumerate(b.bars):
                have = (tuple(bar.meter), bar.key.key, bar.key.mode)
                if have != want:
                    fail("%s: track %d bar %d meter/key %r, wrote %r" % (label, i, j, have, want))
                    break


VALUES = [1, 2, 4, 8, 16, 32, 3, 6, 12, 24, 48, 96, 9, 18, 36, 4.0 / 3, 8.0 / 3, 16.0 / 3, 2.0, 4.0, 8.0]
NAMES = "C C# Db D D# Eb E F F# Gb G G# Ab A A# Bb B Cb E# Fb B#".split()
ALLKEYS = list(major_keys) + list(minor_keys)
METERS = [(4, 4), (3, 4), (2, 4), (6, 8), (5, 4), (2, 2), (7, 8), (12, 8), (3, 8), (4, 4)]


def rnote(rng):
    name = rng.choice(NAMES)
    octave = rng.randint(1, 7)
    n = Note(name, octave)
    n.velocity = rng.randint(1, 127)
    n.channel = rng.randint(0, 15)
    return n


def rtrack(rng, key, meter, nbars, rests=True, chord=4):
    t = Track()
    for _ in range(nbars):
        b = Bar(key, meter)
        guard = 0
        while not b.is_full() and guard < 40:
            guard += 1
            v = rng.choice(VALUES)
            if 1.0 / v > b.space_left() + 1e-9:
                continue
            if rests and rng.random() < 0.25:
                b.place_rest(v)
            else:
                k = rng.randint(1, chord)
                nc = NoteContainer()
                for _ in range(k):
                    nc.add_notes(rnote(rng))
                b.place_notes(nc, v)
        t.add_bar(b)
    return t


# ---------------------------------------------------------------- random music
rng = random.Random(1717)
for case in range(160):
    comp = Composition()
    ntr = rng.randint(1, 4)
    for k in range(ntr):
        key = rng.choice(ALLKEYS)
        meter = rng.choice(METERS)
        t = rtrack(rng, key, meter, rng.randint(1, 5))
        t.name = rng.choice(["lead", "Track %d" % k, "a{b}%s%d", "line1\nline2", "x" * rng.randint(1, 300),
                             "", "100% {0} \\ \"quoted\"", " spaced  out "])
        if rng.random() < 0.7:
            ins = MidiInstrument()
            ins.instrument_nr = rng.randint(0, 127)
            t.instrument = ins
        comp.add_track(t)
    check(comp, rng.randint(4, 1000), "random %d" % case)

# tracks whose bars change meter and key, and bars that are not filled up
# (only the music itself is promised for these)
for case in range(60):
    comp = Composition()
    for k in range(rng.randint(1, 3)):
        t = Track()
        for _ in range(rng.randint(1, 5)):
            one = rtrack(rng, rng.choice(ALLKEYS), rng.choice(METERS), 1)
            bar = one.bars[0]
            if rng.random() < 0.3 and len(bar.bar) > 1:
                bar.remove_last_entry()
            t.add_bar(bar)
        comp.add_track(t)
    check(comp, rng.randint(4, 1000), "mixed %d" % case, uniform=False)

# ------------------------------------------------------- systematic: all keys
for key in ALLKEYS:
    for meter in ((4, 4), (3, 4), (6, 8)):
        comp = Composition()
        t = Track()
        for _ in range(2):
            b = Bar(key, meter)
            b.place_notes("C-4", 4)
            b.place_notes(NoteContainer(["E-4", "G-4"]), 8)
            b.place_rest(8)
            b.place_notes("A-3", 4)
            t.add_bar(b)
        t.name = "key " + key
        comp.add_track(t)
        check(comp, 120, "key %s meter %r" % (key, meter))

# --------------------------------------- systematic: every value, velocities
for v in VALUES:
    comp = Composition()
    t = Track()
    b = Bar("G", (4, 4))
    n = Note("F#", 4)
    n.velocity = 1
    m = Note("A", 5)
    m.velocity = 127
    m.channel = 15
    b.place_notes(NoteContainer([n, m]), v)
    if not b.is_full():
        b.place_notes(n, v)          # the same Note object a second time
    t.add_bar(b)
    t.add_bar(b)                     # the same Bar object twice
    comp.add_track(t)
    comp.add_track(t)                # the same Track object twice
    check(comp, 60, "value %r" % v)

for vel in list(range(1, 128, 7)) + [127]:
    for ch in (0, 1, 9, 15):
        comp = Composition()
        t = Track()
        b = Bar()
        n = Note("C", 4)
        n.velocity = vel
        n.channel = ch
        b.place_notes(n, 2)
        b.place_rest(4)
        b.place_notes(n, 4)
        t.add_bar(b)
        comp.add_track(t)
        check(comp, 120, "vel %d ch %d" % (vel, ch))

# extreme pitches, big chords, a long piece, leading rests, instruments 0..127
comp = Composition()
t = Track()
b = Bar("C", (4, 4))
lo, hi = Note("C", 0), Note("B", 8)
b.place_notes(NoteContainer([lo, hi]), 2)
b.place_notes(NoteContainer([Note(x, o) for x in "CDEFGAB" for o in (2, 3, 4, 5)]), 2)
t.add_bar(b)
comp.add_track(t)
check(comp, 300, "extreme pitches")

comp = Composition()
comp.add_track(rtrack(random.Random(5), "Eb", (4, 4), 120))
comp.add_track(rtrack(random.Random(6), "f#", (3, 4), 90, chord=2))
check(comp, 999, "long piece")

for first in (4, 2, 8, 16):
    comp = Composition()
    t = Track()
    b = Bar("Bb", (4, 4))
    b.place_rest(first)
    b.place_notes("D-4", 4)
    b.place_rest(8)
    b.place_rest(8)
    b.place_notes("F-4", 8)
    t.add_bar(b)
    b = Bar("Bb", (4, 4))
    b.place_notes("D-4", 4)
    b.place_rest(4)
    t.add_bar(b)
    comp.add_track(t)
    check(comp, 88, "leading rest %d" % first)

for nr in range(0, 128):
    comp = Composition()
    t = Track()
    ins = MidiInstrument()
    ins.instrument_nr = nr
    t.instrument = ins
    b = Bar("A", (2, 4))
    b.place_notes("A-4", 4)
    b.place_notes("E-4", 4)
    t.add_bar(b)
    t.name = "instr %d" % nr
    comp.add_track(t)
    check(comp, 120, "instrument %d" % nr)

# keyword arguments, writing twice gives the same file, objects untouched
comp = Composition()
comp.add_track(rtrack(random.Random(9), "D", (4, 4), 3))
before = [flatten(t) for t in comp.tracks]
with contextlib.redirect_stdout(io.StringIO()):
    midi_file_out.write_Composition(file=PATH, composition=comp, bpm=140, repeat=0, verbose=True)
one = open(PATH, "rb").read()
with contextlib.redirect_stdout(io.StringIO()):
    midi_file_out.write_Composition(PATH, comp, 140)
two = open(PATH, "rb").read()
CASES[0] += 1
if one != two:
    fail("writing the same composition twice gave different files")
if before != [flatten(t) for t in comp.tracks]:
    fail("writing changed the composition")
got, gbpm = midi_file_in.MIDI_to_Composition(file=PATH)
if gbpm != 140 or [flatten(t) for t in got.tracks] != before:
    fail("keyword-argument round trip differs")

# ------------------------------------------------------------------ every bpm
comp = Composition()
t = Track()
b = Bar()
b.place_notes("C-4", 4)
t.add_bar(b)
comp.add_track(t)
for bpm in range(4, 1001):
    CASES[0] += 1
    try:
        got, gbpm = roundtrip(comp, bpm)
    except Exception as e:  # noqa
        fail("bpm %d raised %s: %s" % (bpm, type(e).__name__, e))
        continue
    if gbpm != bpm or isinstance(gbpm, bool) or gbpm != int(gbpm):
        fail("bpm %d came back as %r" % (bpm, gbpm))

# ------------------------------------------------------------------------ VLQ
vals = set(range(0, 20000))
for k in (7, 14, 21, 28):
    for d in range(-2000, 2001):
        x = (1 << k) + d
        if 0 <= x < (1 << 28):
            vals.add(x)
r = random.Random(3)
vals.update(r.randrange(0, 1 << 28) for _ in range(20000))
writer = MidiTrack()
for x in sorted(vals):
    enc = writer.int_to_varbyte(x)
    reader = midi_file_in.MidiFile()
    fp = io.BytesIO(bytes(enc) + b"\x55\xaa")
    res = reader.parse_varbyte_as_int(fp)
    if res != (x, len(enc)) or fp.tell() != len(enc):
        fail("VLQ %d -> %r -> %r" % (x, enc, res))
        break
    if x % 97 == 0:
        fp = io.BytesIO(bytes(enc))
        if midi_file_in.MidiFile().parse_varbyte_as_int(fp, False) != x:
            fail("VLQ %d (return_bytes_read=False)" % x)
            break
        if midi_file_in.MidiFile().parse_varbyte_as_int(io.BytesIO(bytes(enc)), return_bytes_read=True)[0] != x:
            fail("VLQ %d (keyword)" % x)
            break
CASES[0] += len(vals)

# ----------------------------------------------------------- not a MIDI file
comp = Composition()
comp.add_track(rtrack(random.Random(11), "C", (4, 4), 2))
comp.add_track(rtrack(random.Random(12), "C", (4, 4), 2))
with contextlib.redirect_stdout(io.StringIO()):
    midi_file_out.write_Composition(PATH, comp, 120)
good = open(PATH, "rb").read()
assert good[:4] == b"MThd"
trk = [i for i in range(len(good) - 3) if good[i:i + 4] == b"MTrk"]
BAD = os.path.join(TMP, "bad.mid")
corrupt = []
for tag in (b"MThx", b"mthd", b"RIFF", b"\x00\x00\x00\x00", b"MTrk", b"XThd", b"MTh{", b"%s%r"):
    corrupt.append(("header tag %r" % tag, tag + good[4:]))
for pos in trk:
    for tag in (b"MTrx", b"MThd", b"mtrk", b"\xff\xff\xff\xff", b"MTr\n"):
        corrupt.append(("track tag %r at %d" % (tag, pos), good[:pos] + tag + good[pos + 4:]))
for fmt in (3, 4, 7, 255, 256, 0x7FFF, 0xFFFF):
    corrupt.append(("format %d" % fmt, good[:8] + bytes([fmt >> 8, fmt & 255]) + good[10:]))
corrupt.append(("text file", b"this is not a midi file at all\n" * 5))
corrupt.append(("empty file", b""))
for rep in range(2):                  # refused calls repeated
    for label, data in corrupt:
        CASES[0] += 1
        with open(BAD, "wb") as f:
            f.write(data)
        try:
            with contextlib.redirect_stdout(io.StringIO()):
                res = midi_file_in.MIDI_to_Composition(BAD)
        except Exception:
            continue
        fail("corrupt file (%s) was returned as music: %r" % (label, res))
# and a good file still reads fine afterwards
got, gbpm = midi_file_in.MIDI_to_Composition(PATH)
if [flatten(t) for t in got.tracks] != [flatten(t) for t in comp.tracks] or gbpm != 120:
    fail("good file after refusals differs")

finish()
