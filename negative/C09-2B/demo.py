import mingus, os; assert os.path.realpath(mingus.__file__).startswith(os.path.realpath(os.path.dirname(__file__)))
"""Direct check of property C09 through the public API of mingus.core.value
and mingus.core.meter.  Exit status 0 when it holds, 1 with a message otherwise."""
import sys
import threading
from fractions import Fraction

from mingus.core import value, meter

failures = []
checked = [0]


def check(cond, msg):
    checked[0] += 1
    if not cond:
        failures.append(msg)


BASES = [0.25, 0.5, 1, 2, 4, 8, 16, 32, 64, 128]
RATIOS = [(3, 2), (5, 4), (7, 4)]
PERTURB = [0.99, 0.9901, 0.993, 0.9975, 0.99999, 1.0, 1.00001, 1.0025, 1.007, 1.0099, 1.01]


def same(result, base, dots, r1, r2):
    return (
        isinstance(result, tuple)
        and len(result) == 4
        and result[0] == base
        and result[1] == dots
        and result[2] == r1
        and result[3] == r2
    )


# ---------------------------------------------------------------- value
check(list(value.base_values) == BASES, "base_values changed: %r" % (value.base_values,))

for b in BASES:
    # dotted values, 0..4 dots, positional and keyword form of nr
    for nr in range(5):
        for built in (value.dots(b, nr), value.dots(b, nr=nr), value.dots(value=b, nr=nr)):
            got = value.determine(built)
            check(same(got, b, nr, 1, 1), "determine(dots(%r, %r)) = %r" % (b, nr, got))
        # the dotted value stands for b's duration times (2 - 2**-nr)
        want = 1.0 / ((1.0 / b) * (2 - 0.5 ** nr))
        check(abs(value.dots(b, nr) - want) <= 1e-12 * want, "dots(%r, %r) = %r" % (b, nr, value.dots(b, nr)))
    check(value.dots(b) == value.dots(b, 1), "dots default nr for %r" % b)
    # float / int spelling of the same base
    got = value.determine(float(b))
    check(same(got, b, 0, 1, 1), "determine(%r) = %r" % (float(b), got))
    # tuplets
    helpers = {(3, 2): value.triplet, (5, 4): value.quintuplet, (7, 4): value.septuplet}
    for (r1, r2) in RATIOS:
        built = value.tuplet(b, r1, r2)
        check(helpers[(r1, r2)](b) == built, "helper %d:%d of %r = %r, tuplet = %r" % (r1, r2, b, helpers[(r1, r2)](b), built))
        check(built == (r1 * b) / float(r2), "tuplet(%r, %r, %r) = %r" % (b, r1, r2, built))
        check(value.tuplet(value=b, rat1=r1, rat2=r2) == built, "tuplet keywords %r %r %r" % (b, r1, r2))
        got = value.determine(built)
        check(same(got, b, 0, r1, r2), "determine(tuplet(%r, %d, %d)) = %r" % (b, r1, r2, got))
        got = value.determine(helpers[(r1, r2)](b))
        check(same(got, b, 0, r1, r2), "determine(helper %d:%d (%r)) = %r" % (r1, r2, b, got))
        # perturbed undotted tuplet
        for p in PERTURB:
            got = value.determine(built * p)
            check(same(got, b, 0, r1, r2), "determine(%r * %r) = %r, want (%r,0,%d,%d)" % (built, p, got, b, r1, r2))
    check(value.septuplet(b, True) == value.tuplet(b, 7, 4), "septuplet(%r, True)" % b)
    check(value.septuplet(b, in_fourths=True) == value.tuplet(b, 7, 4), "septuplet(%r, in_fourths=True)" % b)
    check(value.septuplet(b, False) == value.tuplet(b, 7, 8), "septuplet(%r, False)" % b)
    check(value.septuplet(b, in_fourths=False) == value.tuplet(b, 7, 8), "septuplet(%r, in_fourths=False)" % b)
    # perturbed plain and single-dotted values
    for nr in (0, 1):
        exact = value.dots(b, nr)
        for p in PERTURB:
            got = value.determine(exact * p)
            check(same(got, b, nr, 1, 1), "determine(%r * %r) = %r, want (%r,%d,1,1)" % (exact, p, got, b, nr))

# the same value analysed several times gives the same answer
for v in (4, 6.0, value.dots(8, 3), 0.25, 224):
    check(value.determine(v) == value.determine(v) == value.determine(v), "repeated determine(%r)" % v)

# tuplet helpers equal the general formula on non-base values as well
for v in (3, 5.5, 12, 24.0, value.dots(8), 100, 0.75):
    check(value.triplet(v) == value.tuplet(v, 3, 2), "triplet(%r)" % v)
    check(value.quintuplet(v) == value.tuplet(v, 5, 4), "quintuplet(%r)" % v)
    check(value.septuplet(v) == value.tuplet(v, 7, 4), "septuplet(%r)" % v)
    check(value.septuplet(v, False) == value.tuplet(v, 7, 8), "septuplet(%r, False)" % v)
for (v, r1, r2) in ((8, 9, 8), (4, 11, 8), (16, 13, 8), (2, 6, 4), (0.5, 15, 16)):
    got = value.tuplet(v, r1, r2)
    check(abs(got - Fraction(r1) * Fraction(v) / r2) <= 1e-12 * got, "tuplet(%r, %r, %r) = %r" % (v, r1, r2, got))

# add / subtract
POOL = list(BASES) + [value.dots(4), value.dots(8, 2), value.triplet(8), value.quintuplet(16), value.septuplet(2), 3, 5.5, 100.0]


def close(a, b, tol=1e-9):
    return abs(a - b) <= tol * max(abs(a), abs(b))


for a in POOL:
    for b in POOL:
        s = value.add(a, b)
        check(close(1.0 / s, 1.0 / a + 1.0 / b), "add(%r, %r) = %r" % (a, b, s))
        check(close(s, value.add(b, a)), "add not symmetric for %r, %r" % (a, b))
        check(close(value.subtract(s, b), a), "subtract(add(%r, %r), %r) = %r" % (a, b, b, value.subtract(s, b)))
        check(close(value.subtract(s, a), b), "subtract(add(%r, %r), %r) = %r" % (a, b, a, value.subtract(s, a)))
        if a != b:
            d = value.subtract(a, b)
            check(close(1.0 / d, 1.0 / a - 1.0 / b), "subtract(%r, %r) = %r" % (a, b, d))
            check(close(value.add(d, b), a), "add(subtract(%r, %r), %r) = %r" % (a, b, b, value.add(d, b)))
check(value.add(value1=8, value2=4) == value.add(8, 4), "add keywords")
check(value.subtract(value1=4, value2=8) == value.subtract(4, 8), "subtract keywords")
check(value.subtract(4, 8) == 8, "subtract(4, 8) = %r" % (value.subtract(4, 8),))
check(close(value.dots(4, 2), value.add(value.add(4, 8), 16)), "double dotted quarter as a sum")

# ---------------------------------------------------------------- meter


current = [None]


def run(fn, *args):
    """Call fn(*args); the call in progress is recorded so that the watchdog
    below can name it if it never returns."""
    current[0] = (getattr(fn, "__name__", "?"), args)
    try:
        return ("ok", fn(*args))
    except Exception as e:  # noqa
        return ("exc", e)
    finally:
        current[0] = None


def power_of_two(u):
    """Reference: u is one of 1, 2, 4, 8, ..."""
    if u != u or u in (float("inf"), float("-inf")):
        return False
    f = Fraction(u)
    if f < 1 or f.denominator != 1:
        return False
    n = f.numerator
    return n & (n - 1) == 0


finished = []


def meter_section():
    UNITS = (
        list(range(-20, 70))
        + [2 ** k for k in range(7, 70)]
        + [2 ** k + 1 for k in range(2, 70)]
        + [2 ** k - 1 for k in range(3, 70)]
        + [3 * 2 ** k for k in range(0, 40)]
        + [2 ** 200, 2 ** 200 + 2, 2 ** 1000, 2 ** 1000 - 2 ** 900, 10 ** 30, -(2 ** 80), 2 ** 5000, 2 ** 5000 + 2 ** 4000]
        + [float(2 ** k) for k in range(0, 64)]
        + [0.0, -0.0, 0.5, 0.25, 0.125, 1.5, 2.5, 3.0, 4.000000000000001, 3.9999999999999996, 7.5, 6.0, 12.0, 1e-300, 5e-324, 1e300,
           2.0 ** 1000, 2.0 ** 1023, 1.7976931348623157e308, 2.0 ** 53 + 2, 2.0 ** 60 * 3, -1.0, -2.0, -4.0, -0.5, -8.5, 1e16, 4.5, 1.0000000000000002, 0.9999999999999999,
           float("inf"), float("-inf"), float("nan")]
        + [True, False]
    )
    COUNTS = list(range(-9, 40)) + [99, 100, 101, 2 ** 70, 2 ** 70 + 1, 3 * 2 ** 70, 3 * 2 ** 70 + 3, -(2 ** 70), 10 ** 25 + 5]

    for u in UNITS:
        kind, got = run(meter.valid_beat_duration, u)
        check(kind == "ok", "valid_beat_duration(%r): %s %r" % (u, kind, got))
        if kind == "ok":
            check(bool(got) == power_of_two(u) and isinstance(got, bool), "valid_beat_duration(%r) = %r" % (u, got))

    some_units = UNITS[::7] + [1, 2, 4, 8, 16, 2.0, 8.0, 0, -4, 3, 0.5, float("nan"), float("inf")]
    for c in COUNTS:
        for u in some_units:
            for container in (tuple, list):
                m = container((c, u))
                valid = c > 0 and power_of_two(u)
                for (name, fn, want) in (
                    ("is_valid", meter.is_valid, valid),
                    ("is_simple", meter.is_simple, valid),
                    ("is_compound", meter.is_compound, valid and c % 3 == 0 and c >= 6),
                    ("is_asymmetrical", meter.is_asymmetrical, valid and c % 2 == 1),
                ):
                    kind, got = run(fn, m)
                    check(kind == "ok", "%s(%r): %s %r" % (name, m, kind, got))
                    if kind == "ok":
                        check(got is want or (got == want and isinstance(got, bool)), "%s(%r) = %r, want %r" % (name, m, got, want))
    check(meter.is_valid(meter=(4, 4)) is True, "is_valid keyword")
    check(meter.is_compound(meter=(6, 8)) is True, "is_compound keyword")
    check(meter.is_asymmetrical(meter=(7, 8)) is True, "is_asymmetrical keyword")
    check(meter.is_simple(meter=(3, 4)) is True, "is_simple keyword")
    check(meter.valid_beat_duration(duration=16) is True, "valid_beat_duration keyword")
    check(meter.is_valid(meter.common_time) and meter.is_valid(meter.cut_time), "named meters")
    finished.append(True)



worker = threading.Thread(target=meter_section)
worker.daemon = True
worker.start()
worker.join(120)
if worker.is_alive():
    print("C09 does NOT hold: meter predicate did not terminate: %r" % (current[0],))
    sys.stdout.flush()
    os._exit(1)
check(finished == [True], "the meter section of the demo crashed")

if failures:
    print("C09 does NOT hold: %d of %d checks failed" % (len(failures), checked[0]))
    for f in failures[:25]:
        print("  " + f)
    sys.exit(1)
print("C09 holds on %d checks" % checked[0])
sys.exit(0)
