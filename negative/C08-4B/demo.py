import mingus, os; assert os.path.realpath(mingus.__file__).startswith(os.path.realpath(os.path.dirname(__file__)))
import sys

from mingus.core import chords, keys, notes, progressions as P

FAILS = []
COUNT = [0]


def check(cond, msg):
    COUNT[0] += 1
    if not cond:
        FAILS.append(msg)


MAJOR = [c[0] for c in keys.keys]
MINOR = [c[1] for c in keys.keys]
ALL_KEYS = MAJOR + MINOR
NUMS = ["I", "II", "III", "IV", "V", "VI", "VII"]
FUNCS = ["tonic", "supertonic", "mediant", "subdominant", "dominant", "submediant", "subtonic"]
LOWER_ALIASES = {"II": "ii", "III": "iii", "VI": "vi", "VII": "vii"}
EXPECTED_SHORT = ["I", "ii", "iii", "IV", "V", "vi", "vii"]
LETTERS = "CDEFGAB"
MAJOR_STEPS = [0, 2, 4, 5, 7, 9, 11]
MINOR_STEPS = [0, 2, 3, 5, 7, 8, 10]
SUFFIXES = sorted(chords.chord_shorthand)


def pc(note):
    return notes.note_to_int(note) % 12


def prefix(acc):
    return "b" * -acc if acc < 0 else "#" * acc


def root_pc(numeral_string, key="C"):
    """Pitch class of the root the numeral string denotes in key."""
    c = P.to_chords([numeral_string], key)
    assert c and c[0], numeral_string
    return pc(c[0][0])


def well_formed(s):
    if not isinstance(s, str):
        return False
    (roman, acc, suff) = P.parse_string(s)
    if roman not in NUMS or suff not in chords.chord_shorthand:
        return False
    res = P.to_chords([s], "C")
    return len(res) == 1 and len(res[0]) >= 2


# ---- 1. diatonic chords in all 30 keys ---------------------------------
for key in ALL_KEYS:
    scale = keys.get_notes(key)
    tonic_name = key[0].upper() + key[1:]
    steps = MAJOR_STEPS if key in MAJOR else MINOR_STEPS
    check(scale[0] == tonic_name, "scale of %r starts on %r" % (key, scale[0]))
    check(
        [n[0] for n in scale] == [LETTERS[(LETTERS.index(tonic_name[0]) + i) % 7] for i in range(7)],
        "letters of key %r: %r" % (key, scale),
    )
    check(
        [(pc(n) - pc(tonic_name)) % 12 for n in scale] == steps,
        "steps of key %r: %r" % (key, scale),
    )
    all_tri = chords.triads(key)
    all_sev = chords.sevenths(key)
    check(len(all_tri) == 7 and len(all_sev) == 7, "seven chords in %r" % key)
    for d in range(7):
        tri = [scale[d], scale[(d + 2) % 7], scale[(d + 4) % 7]]
        sev = tri + [scale[(d + 6) % 7]]
        check(all_tri[d] == tri, "triads(%r)[%d] = %r" % (key, d, all_tri[d]))
        check(all_sev[d] == sev, "sevenths(%r)[%d] = %r" % (key, d, all_sev[d]))
        check(chords.triad(scale[d], key) == tri, "triad(%r, %r)" % (scale[d], key))
        check(chords.seventh(scale[d], key) == sev, "seventh(%r, %r)" % (scale[d], key))
        num = NUMS[d]
        names = [(FUNCS[d], tri), (FUNCS[d] + "7", sev), (num, tri), (num + "7", sev)]
        if num in LOWER_ALIASES:
            names += [(LOWER_ALIASES[num], tri), (LOWER_ALIASES[num] + "7", sev)]
        for (fname, want) in names:
            got = getattr(chords, fname)(key)
            check(got == want, "chords.%s(%r) = %r, want %r" % (fname, key, got, want))
            check(isinstance(got, list), "chords.%s(%r) is a list" % (fname, key))
        for text in (num, num.lower()):
            check(P.to_chords(text, key) == [tri], "to_chords(%r, %r)" % (text, key))
            check(P.to_chords([text], key) == [tri], "to_chords([%r], %r)" % (text, key))
            check(P.to_chords(text + "7", key) == [sev], "to_chords(%r, %r)" % (text + "7", key))
            check(P.to_chords([text + "7"], key=key) == [sev], "to_chords([%r], key=%r)" % (text + "7", key))
    # a whole progression at once, results independent of each other
    prog = ["I", "iv", "V7", "vi7", "I"]
    got = P.to_chords(prog, key)
    check(
        got == [all_tri[0], all_tri[3], all_sev[4], all_sev[5], all_tri[0]],
        "progression in %r: %r" % (key, got),
    )
    check(prog == ["I", "iv", "V7", "vi7", "I"], "to_chords left its argument alone")
    got[0].append("x")
    check(chords.tonic(key) == all_tri[0] and P.to_chords("I", key) == [all_tri[0]],
          "results are not aliased to internal state in %r" % key)

# ---- 2. prefixes -3..+3 -------------------------------------------------
for key in ["C", "F#", "Cb", "Eb", "a", "d#", "ab", "C#", "g"]:
    for d in range(7):
        for seventh in ("", "7"):
            base = P.to_chords(NUMS[d] + seventh, key)[0]
            for acc in range(-3, 4):
                for text in (NUMS[d], NUMS[d].lower()):
                    s = prefix(acc) + text + seventh
                    got = P.to_chords(s, key)
                    ok = (
                        len(got) == 1
                        and len(got[0]) == len(base)
                        and all(g[0] == b[0] for g, b in zip(got[0], base))
                        and all((pc(g) - pc(b)) % 12 == acc % 12 for g, b in zip(got[0], base))
                        and all(notes.is_valid_note(g) for g in got[0])
                    )
                    check(ok, "to_chords(%r, %r) = %r, base %r" % (s, key, got, base))

# ---- 3. all chord suffixes ----------------------------------------------
for key in ["C", "Gb", "B", "f#", "bb", "A"]:
    scale = keys.get_notes(key)
    for d in range(7):
        for suff in SUFFIXES:
            if suff in ("", "7"):
                continue
            want = chords.chord_shorthand[suff](scale[d])
            for text in (NUMS[d], NUMS[d].lower()):
                got = P.to_chords(text + suff, key)
                check(got == [want], "to_chords(%r, %r) = %r, want %r" % (text + suff, key, got, [want]))
    # suffix and prefix together
    for (s, d, suff, acc) in [("bIIdim7", 1, "dim7", -1), ("#ivm7", 3, "m7", 1), ("bbVIIM7", 6, "M7", -2),
                              ("##Idom7", 0, "dom7", 2), ("bvim7b5", 5, "m7b5", -1), ("###V13", 4, "13", 3)]:
        want = chords.chord_shorthand[suff](scale[d])
        got = P.to_chords(s, key)[0]
        check(
            len(got) == len(want)
            and all(g[0] == w[0] and (pc(g) - pc(w)) % 12 == acc % 12 for g, w in zip(got, want)),
            "to_chords(%r, %r) = %r" % (s, key, got),
        )

# ---- 4. unrecognised numerals -> [] --------------------------------------
for bad in ["X", "IIII", "VV", "IVI", "", "bb", "#", "7", "m7", "C", "viii", "iiii7", "{I}", "%s", "I\n"[1:] + "\nI",
            "éI", "VIII7", "IIV"]:
    for key in ["C", "eb"]:
        check(P.to_chords(bad, key) == [], "to_chords(%r, %r) should be []" % (bad, key))
        check(P.to_chords([bad], key) == [], "to_chords([%r], %r) should be []" % (bad, key))
        check(P.to_chords(["I", bad, "V"], key) == [], "to_chords(['I', %r, 'V'], %r) should be []" % (bad, key))
for _ in range(3):
    check(P.to_chords("Q") == [], "repeated refused call")
check(P.to_chords("I") == [["C", "E", "G"]], "after refused calls")

# ---- 5. chord -> function in every major key -----------------------------
for key in MAJOR:
    tri = chords.triads(key)
    sev = chords.sevenths(key)
    for d in range(7):
        got = P.determine(tri[d], key)
        check(isinstance(got, list) and got[:1] == [FUNCS[d]], "determine(%r, %r) = %r" % (tri[d], key, got))
        got = P.determine(tri[d], key, True)
        check(isinstance(got, list) and got[:1] == [EXPECTED_SHORT[d]], "determine(%r, %r, True) = %r" % (tri[d], key, got))
        got = P.determine(sev[d], key)
        check(got[:1] == [FUNCS[d] + " seventh"], "determine(%r, %r) = %r" % (sev[d], key, got))
        got = P.determine(sev[d], key, shorthand=True)
        check(got[:1] == [EXPECTED_SHORT[d] + "7"], "determine(%r, %r, True) = %r" % (sev[d], key, got))
        # inverse: numeral -> chord -> numeral -> chord
        for chord in (tri[d], sev[d]):
            short = P.determine(chord, key, True)[0]
            check(P.to_chords(short, key) == [chord], "round trip %r in %r via %r" % (chord, key, short))
            check(P.determine(P.to_chords(short, key)[0], key, True)[0] == short, "round trip %r in %r" % (short, key))
        check(tri[d] == chords.triads(key)[d] and sev[d] == chords.sevenths(key)[d], "determine left chord alone")
    got = P.determine([tri[0], sev[4]], key, True)
    check([g[0] for g in got] == ["I", "V7"], "determine of a list of chords in %r: %r" % (key, got))

# ---- 6. parse then format ------------------------------------------------
for num in NUMS:
    for suff in SUFFIXES:
        for acc in range(-3, 4):
            s = prefix(acc) + num + suff
            parsed = P.parse_string(s)
            check(parsed == (num, acc, suff), "parse_string(%r) = %r" % (s, parsed))
            check(P.tuple_to_string(parsed) == s, "tuple_to_string(parse_string(%r))" % s)
check(P.parse_string("bIM7") == ("I", -1, "M7") and P.parse_string("I") == ("I", 0, ""), "documented parse examples")
check(P.parse_string("vii7") == ("VII", 0, "7"), "lower case numerals are read as upper case")

# ---- 7. substitutions -----------------------------------------------------
RULES = [P.substitute_harmonic, P.substitute_minor_for_major, P.substitute_major_for_minor,
         P.substitute_diminished_for_diminished, P.substitute_diminished_for_dominant]


def diatonic_triad(roman, acc, key):
    return P.to_chords([P.tuple_to_string((roman, acc, ""))], key)[0]


sub_inputs = [prefix(a) + n + s for n in NUMS for s in SUFFIXES for a in range(-3, 4)]
for idx, s in enumerate(sub_inputs):
    (roman, acc, suff) = P.parse_string(s)
    prog = ["I", s, "V"]
    snapshot = list(prog)
    for ignore in (False, True):
        for rule in RULES:
            res = rule(prog, 1, ignore) if idx % 2 else rule(prog, substitute_index=1, ignore_suffix=ignore)
            check(isinstance(res, list) and all(well_formed(r) for r in res),
                  "%s(%r, ignore=%r) = %r not well formed" % (rule.__name__, s, ignore, res))
        check(prog == snapshot, "rule changed the progression for %r" % s)

        res = P.substitute_harmonic(prog, 1, ignore)
        for r in res:
            (r2, a2, s2) = P.parse_string(r)
            for key in ("C", "Ab"):
                shared = set(diatonic_triad(roman, acc, key)) & set(diatonic_triad(r2, a2, key))
                check(len(shared) == 2, "harmonic substitute %r for %r shares %r in %s" % (r, s, shared, key))
            check(s2 in ("", "7"), "harmonic substitute %r for %r keeps triad/seventh" % (r, s))
        if suff in ("", "7") or ignore:
            check(len(res) >= 1, "harmonic substitute for %r expected" % s)
        else:
            check(res == [], "harmonic substitute for %r not expected: %r" % (s, res))

        res = P.substitute_minor_for_major(prog, 1, ignore)
        for r in res:
            check((root_pc(r) - root_pc(P.tuple_to_string((roman, acc, "")))) % 12 == 3,
                  "minor for major: %r -> %r is not a minor third up" % (s, r))
            check(P.parse_string(r)[2] in ("M", "M7", ""), "minor for major suffix: %r -> %r" % (s, r))
        if suff in ("m", "m7") or (suff == "" and roman in ("II", "III", "VI")):
            check(len(res) == 1, "minor for major: %r -> %r" % (s, res))

        res = P.substitute_major_for_minor(prog, 1, ignore)
        for r in res:
            check((root_pc(r) - root_pc(P.tuple_to_string((roman, acc, "")))) % 12 == 9,
                  "major for minor: %r -> %r is not a major sixth up" % (s, r))
            check(P.parse_string(r)[2] in ("m", "m7", ""), "major for minor suffix: %r -> %r" % (s, r))
        if suff in ("M", "M7") or (suff == "" and roman in ("I", "IV", "V")):
            check(len(res) == 1, "major for minor: %r -> %r" % (s, res))

        res = P.substitute_diminished_for_diminished(prog, 1, ignore)
        last = root_pc(P.tuple_to_string((roman, acc, "")))
        for r in res:
            check((root_pc(r) - last) % 12 == 3, "diminished cycle: %r -> %r" % (s, res))
            last = root_pc(r)
        if suff in ("dim", "dim7") or (suff == "" and roman == "VII"):
            check(len(res) == 3 and all(P.parse_string(r)[2] == (suff or "dim") for r in res),
                  "diminished for diminished: %r -> %r" % (s, res))
    check(prog == snapshot, "rules changed the progression for %r" % s)

# recursion depth 0..2 of the general substitute()
for key_i, s in enumerate(sub_inputs[::5] + NUMS + [n + "7" for n in NUMS] + ["bVIIdim7", "#IVm7", "bbIIIM", "###Vdim"]):
    prog = (s, "IV", "V") if key_i % 3 == 0 else [s, "IV", "V"]
    snapshot = tuple(prog)
    previous = None
    for depth in (0, 1, 2):
        res = P.substitute(prog, 0, depth) if key_i % 2 else P.substitute(prog, substitute_index=0, depth=depth)
        check(isinstance(res, list) and all(well_formed(r) for r in res),
              "substitute(%r, depth=%d) not well formed: %r" % (s, depth, [r for r in res if not well_formed(r)][:5]))
        if previous is not None:
            check(set(previous) <= set(res) and len(res) >= len(previous),
                  "substitute(%r) depth %d does not include depth %d" % (s, depth, depth - 1))
        previous = res
        check(tuple(prog) == snapshot, "substitute changed the progression for %r" % s)
    check(P.substitute(prog, 0, 2) == previous, "substitute(%r, depth 2) repeated" % s)

check(P.substitute_minor_for_major(["VI"], 0) == ["I"], "documented example VI")
check(P.substitute_minor_for_major(["Vm"], 0) == ["bVIIM"], "documented example Vm")
check(P.substitute_minor_for_major(["VIm7"], 0) == ["IM7"], "documented example VIm7")
check(P.substitute_major_for_minor(["I"], 0) == ["VI"], "documented example I")
check(P.substitute_major_for_minor(["VM7"], 0) == ["IIIm7"], "documented example VM7")
check(sorted(P.substitute_diminished_for_diminished(["VII"], 0)) == sorted(["IIdim", "IVdim", "bVIdim"]),
      "minor-third cycle from VII")
check(sorted(P.substitute_harmonic(["I"], 0)) == ["III", "VI"], "documented table I")

if FAILS:
    print("C08 does NOT hold: %d of %d checks failed" % (len(FAILS), COUNT[0]))
    for f in FAILS[:25]:
        print("  -", f)
    sys.exit(1)
print("C08 holds on %d checks" % COUNT[0])
sys.exit(0)
