import mingus, os; assert os.path.realpath(mingus.__file__).startswith(os.path.realpath(os.path.dirname(__file__)))
"""Direct check of property C06 (chord shorthand builds the chord its formula
prescribes) through the public API only.  Exit 0 = holds, 1 = violated."""
import sys

from mingus.core import chords
from mingus.core.mt_exceptions import FormatError, NoteFormatError

LETTERS = "CDEFGAB"
NATURAL = {"C": 0, "D": 2, "E": 4, "F": 5, "G": 7, "A": 9, "B": 11}

# interval name -> (letter steps above the root, semitones above the root)
IV = {
    "m2": (1, 1), "M2": (1, 2), "A2": (1, 3),
    "m3": (2, 3), "M3": (2, 4),
    "P4": (3, 5), "A4": (3, 6),
    "d5": (4, 6), "P5": (4, 7), "A5": (4, 8),
    "M6": (5, 9),
    "d7": (6, 9), "m7": (6, 10), "M7": (6, 11),
}

# shorthand -> formula (notes after the root, in order)
FORMULA = {
    "m": "m3 P5", "M": "M3 P5", "": "M3 P5", "dim": "m3 d5",
    "aug": "M3 A5", "+": "M3 A5",
    "7#5": "M3 A5 m7", "M7+5": "M3 A5 m7", "m7+": "M3 A5 m7",
    "M7+": "M3 A5 M7", "7+": "M3 A5 M7",
    "sus47": "P4 P5 m7", "7sus4": "P4 P5 m7",
    "sus4": "P4 P5", "sus": "P4 P5", "sus2": "M2 P5",
    "11": "P5 m7 P4", "add11": "P5 m7 P4",
    "sus4b9": "P4 P5 m2", "susb9": "P4 P5 m2",
    "m7": "m3 P5 m7", "M7": "M3 P5 M7", "7": "M3 P5 m7", "dom7": "M3 P5 m7",
    "m7b5": "m3 d5 m7", "dim7": "m3 d5 d7",
    "m/M7": "m3 P5 M7", "mM7": "m3 P5 M7",
    "m6": "m3 P5 M6", "M6": "M3 P5 M6", "6": "M3 P5 M6",
    "6/7": "M3 P5 M6 m7", "67": "M3 P5 M6 m7",
    "6/9": "M3 P5 M6 M2", "69": "M3 P5 M6 M2",
    "9": "M3 P5 m7 M2", "add9": "M3 P5 m7 M2",
    "7b9": "M3 P5 m7 m2", "7#9": "M3 P5 m7 A2",
    "M9": "M3 P5 M7 M2", "m9": "m3 P5 m7 M2",
    "7#11": "M3 P5 m7 A4",
    "m11": "m3 P5 m7 P4", "M11": "M3 P5 M7 M2 P4",
    "M13": "M3 P5 M7 M2 M6", "m13": "m3 P5 m7 M2 M6",
    "13": "M3 P5 m7 M2 M6", "add13": "M3 P5 m7 M2 M6",
    "7b5": "M3 d5 m7",
    "hendrix": "M3 P5 m7 m3", "7b12": "M3 P5 m7 m3",
    "5": "P5",
}

BUILDERS = {
    "minor_triad": "m", "major_triad": "M", "diminished_triad": "dim",
    "augmented_triad": "aug", "augmented_minor_seventh": "7#5",
    "augmented_major_seventh": "M7+", "suspended_seventh": "sus47",
    "suspended_fourth_triad": "sus4", "suspended_triad": "sus",
    "suspended_second_triad": "sus2", "eleventh": "11",
    "suspended_fourth_ninth": "sus4b9", "minor_seventh": "m7",
    "major_seventh": "M7", "dominant_seventh": "7",
    "minor_seventh_flat_five": "m7b5", "half_diminished_seventh": "m7b5",
    "diminished_seventh": "dim7", "minor_major_seventh": "mM7",
    "minor_sixth": "m6", "major_sixth": "M6", "dominant_sixth": "67",
    "sixth_ninth": "69", "dominant_ninth": "9", "dominant_flat_ninth": "7b9",
    "dominant_sharp_ninth": "7#9", "major_ninth": "M9", "minor_ninth": "m9",
    "lydian_dominant_seventh": "7#11", "minor_eleventh": "m11",
    "major_eleventh": "M11", "major_thirteenth": "M13",
    "minor_thirteenth": "m13", "dominant_thirteenth": "13",
    "dominant_flat_five": "7b5", "hendrix_chord": "hendrix",
}

failures = []


def fail(msg):
    failures.append(msg)
    if len(failures) > 20:
        finish()


def finish():
    if failures:
        for f in failures:
            print("VIOLATION:", f)
        sys.exit(1)
    print("C06 holds on %d checks" % checks[0])
    sys.exit(0)


checks = [0]


def pitch(note):
    assert note and note[0] in NATURAL, note
    assert all(c in "#b" for c in note[1:]), note
    return (NATURAL[note[0]] + note.count("#") - note.count("b")) % 12


def minimal_spelling(letter, pc):
    d = (pc - NATURAL[letter]) % 12
    if d > 6:
        d -= 12
    return letter + ("#" * d if d >= 0 else "b" * -d)


def conforms(root, formula, chord, exact):
    """None when chord is [root] + formula notes, else a description."""
    want = formula.split()
    if not isinstance(chord, list):
        return "not a list: %r" % (chord,)
    if len(chord) != len(want) + 1:
        return "length %d, expected %d: %r" % (len(chord), len(want) + 1, chord)
    if chord[0] != root:
        return "does not start on the root: %r" % (chord,)
    for name, got in zip(want, chord[1:]):
        steps, semis = IV[name]
        letter = LETTERS[(LETTERS.index(root[0]) + steps) % 7]
        if not isinstance(got, str) or not got or got[0] != letter:
            return "%s should be on letter %s, got %r in %r" % (name, letter, got, chord)
        if any(c not in "#b" for c in got[1:]):
            return "bad note %r in %r" % (got, chord)
        if pitch(got) != (pitch(root) + semis) % 12:
            return "%s should be %d semitones up, got %r in %r" % (name, semis, got, chord)
        if exact and got != minimal_spelling(letter, (pitch(root) + semis) % 12):
            return "%s spelled %r, expected %r" % (
                name, got, minimal_spelling(letter, (pitch(root) + semis) % 12))
    return None


def expected(root, sh):
    out = [root]
    for name in FORMULA[sh].split():
        steps, semis = IV[name]
        letter = LETTERS[(LETTERS.index(root[0]) + steps) % 7]
        out.append(minimal_spelling(letter, (pitch(root) + semis) % 12))
    return out


def raises(exc, f, *a, **k):
    try:
        r = f(*a, **k)
    except exc:
        return True
    except Exception as e:  # noqa
        fail("%r%r raised %s, expected %s" % (getattr(f, "__name__", f), a, type(e).__name__, exc))
        return False
    fail("%r%r returned %r, expected %s" % (getattr(f, "__name__", f), a, r, exc))
    return False


SIMPLE_ACC = ["", "#", "b", "##", "bb"]
WILD_ACC = ["###", "bbb", "#b", "b#", "#######", "bbbbbbbb", "#" * 13, "b#b#b", "#" * 40]
SIMPLE_ROOTS = [l + a for l in LETTERS for a in SIMPLE_ACC]
WILD_ROOTS = [l + a for l in LETTERS for a in WILD_ACC]

# ---- the two tables agree, same meaning -> same chord ------------------
checks[0] += 1
if set(chords.chord_shorthand) != set(chords.chord_shorthand_meaning):
    fail("constructible %r != meaningful %r" % (
        sorted(set(chords.chord_shorthand) ^ set(chords.chord_shorthand_meaning)), "sym diff"))
if set(chords.chord_shorthand) != set(FORMULA):
    fail("shorthand keys differ from the formula table: %r" % sorted(
        set(chords.chord_shorthand) ^ set(FORMULA)))
by_meaning = {}
for k, v in chords.chord_shorthand_meaning.items():
    by_meaning.setdefault(v, []).append(k)
for meaning, ks in by_meaning.items():
    for root in ("C", "F#", "Bbb", "E##", "Gb"):
        built = [chords.from_shorthand(root + k) for k in ks]
        checks[0] += 1
        if any(b != built[0] for b in built):
            fail("same meaning %r, different chords for %r on %s: %r" % (meaning, ks, root, built))

# ---- every shorthand on every root --------------------------------------
for sh in FORMULA:
    for root in SIMPLE_ROOTS + WILD_ROOTS:
        exact = root in SIMPLE_ROOTS
        got = chords.from_shorthand(root + sh)
        checks[0] += 1
        why = conforms(root, FORMULA[sh], got, exact)
        if why:
            fail("from_shorthand(%r): %s" % (root + sh, why))
        # the table entry builds the same chord
        direct = chords.chord_shorthand[sh](root)
        if direct != got:
            fail("chord_shorthand[%r](%r) = %r but from_shorthand gives %r" % (sh, root, direct, got))
        # results are fresh lists: mutating one must not disturb the next call
        got.append("X")
        del got[0]
        again = chords.from_shorthand(root + sh)
        if conforms(root, FORMULA[sh], again, exact):
            fail("second call of from_shorthand(%r) differs: %r" % (root + sh, again))

# ---- named builders ------------------------------------------------------
for fname, sh in BUILDERS.items():
    f = getattr(chords, fname)
    for root in SIMPLE_ROOTS + WILD_ROOTS[::3]:
        checks[0] += 1
        a = f(root)
        b = f(note=root)
        c = chords.from_shorthand(root + sh)
        if not (a == b == c):
            fail("%s(%r) = %r / %r, from_shorthand(%r) = %r" % (fname, root, a, b, root + sh, c))
        why = conforms(root, FORMULA[sh], a, root in SIMPLE_ROOTS)
        if why:
            fail("%s(%r): %s" % (fname, root, why))
        a.reverse()
        if f(root) != c:
            fail("%s(%r) changed after mutating an earlier result" % (fname, root))

# ---- alias spellings -------------------------------------------------------
for sh in FORMULA:
    variants = set()
    if "m" in sh and sh not in ("dim", "dim7", "dom7"):
        for alt in ("min", "mi", "-"):
            variants.add(sh.replace("m", alt))
    if "M" in sh:
        for alt in ("maj", "ma"):
            variants.add(sh.replace("M", alt))
    if "m" in sh and "M" in sh:
        variants.add(sh.replace("m", "min").replace("M", "maj"))
        variants.add(sh.replace("m", "-").replace("M", "ma"))
    for v in variants:
        for root in ("C", "Eb", "F#", "Bbb", "G##", "A", "Db"):
            checks[0] += 1
            got = chords.from_shorthand(root + v)
            if got != expected(root, sh):
                fail("alias %r of %r on %s: %r, expected %r" % (v, sh, root, got, expected(root, sh)))

# ---- slash chords -------------------------------------------------------------
SLASHABLE = [s for s in FORMULA]
BASSES = ["C", "E", "G", "Bb", "F#", "Abb", "D##", "B"]
for i, sh in enumerate(SLASHABLE):
    for j, root in enumerate(("C", "Ab", "F#", "Ebb", "B##")):
        bass = BASSES[(i + j) % len(BASSES)]
        checks[0] += 1
        got = chords.from_shorthand("%s%s/%s" % (root, sh, bass))
        want = [bass] + expected(root, sh)
        if got != want:
            fail("slash %r: %r, expected %r" % ("%s%s/%s" % (root, sh, bass), got, want))
checks[0] += 1
if chords.from_shorthand("Amin7/G") != ["G", "A", "C", "E", "G"]:
    fail("Amin7/G")
if chords.from_shorthand("C", slash="E") != ["E", "C", "E", "G"]:
    fail("slash keyword")
if chords.from_shorthand(shorthand_string="Dbmaj7") != ["Db", "F", "Ab", "C"]:
    fail("keyword shorthand_string")


# ---- polychords ----------------------------------------------------------------
def merged(lower, upper):
    out = list(lower)
    for n in upper:
        if n != out[-1]:
            out.append(n)
    return out


POLY = ["", "m", "7", "M7", "dim7", "sus4", "m/M7", "6/9", "9", "13", "5", "aug", "m7b5", "hendrix"]
for i, x in enumerate(POLY):
    for j, y in enumerate(POLY):
        for rx, ry in (("D", "G"), ("C", "C"), ("F#", "Bb"), ("G", "C"), ("Ebb", "A##")):
            checks[0] += 1
            text = "%s%s|%s%s" % (rx, x, ry, y)
            got = chords.from_shorthand(text)
            want = merged(expected(ry, y), expected(rx, x))
            if got != want:
                fail("polychord %r: %r, expected %r" % (text, got, want))
checks[0] += 3
if chords.from_shorthand("Dm|G") != ["G", "B", "D", "F", "A"]:
    fail("Dm|G")
# upper chord with a bass note, lower chord with a bass note
if chords.from_shorthand("Dm/A|G") != merged(["G", "B", "D"], ["A", "D", "F", "A"]):
    fail("Dm/A|G: %r" % chords.from_shorthand("Dm/A|G"))
if chords.from_shorthand("Dm|G/B") != merged(["B", "G", "B", "D"], ["D", "F", "A"]):
    fail("Dm|G/B: %r" % chords.from_shorthand("Dm|G/B"))
if chords.from_shorthand("Am|Dm|G7") != merged(merged(expected("G", "7"), expected("D", "m")), expected("A", "m")):
    fail("three-part polychord: %r" % chords.from_shorthand("Am|Dm|G7"))
if chords.from_shorthand("Cmaj7|Emin") != merged(expected("E", "m"), expected("C", "M7")):
    fail("aliases inside a polychord")

# ---- NC, lists ------------------------------------------------------------------
checks[0] += 4
if chords.from_shorthand("NC") != []:
    fail("NC")
lst = ["Am", "F#dim7", "NC", "C/E", "Dm|G", "Bbmaj7", "G7#11"]
got = chords.from_shorthand(lst)
want = [chords.from_shorthand(x) for x in lst]
if got != want or not isinstance(got, list):
    fail("list input: %r" % (got,))
if lst != ["Am", "F#dim7", "NC", "C/E", "Dm|G", "Bbmaj7", "G7#11"]:
    fail("list argument was modified")
if chords.from_shorthand([]) != []:
    fail("empty list")
long_list = [r + s for r in SIMPLE_ROOTS for s in ("m7", "", "dim7", "7#11")] * 5
got = chords.from_shorthand(long_list)
if len(got) != len(long_list) or any(g != expected(t[: len(t) - len(s)], s) for g, t, s in zip(
        got, long_list, ["m7", "", "dim7", "7#11"] * (len(long_list) // 4))):
    fail("long list input")

# ---- rejections ---------------------------------------------------------------------
BAD_SHORTHAND = ["Cfoo", "C7b", "Cm7b55", "C mi", "C7 ", "C{0}", "C%s", "C%", "C\n", "Cm\n7",
                 "Csus3", "CM77", "C#5#", "Dbdimm", "E12", "Cmm", "CNC", "C" + "7" * 500,
                 "C##x", "Fadd", "G6/8", "Caug7x", "C\t", "C\x00", "C♯"]
for s in BAD_SHORTHAND:
    checks[0] += 1
    raises((FormatError, NoteFormatError), chords.from_shorthand, s)
BAD_ROOT = ["Hm7", "c", "cm", "xyz", "1", "#C", "bC", " C", "{", "%s", "\n", "nC", "ém",
            "H" * 300, "?", "|C", "/C"]
for s in BAD_ROOT:
    checks[0] += 1
    raises((FormatError, NoteFormatError), chords.from_shorthand, s)
for s in ["C/H", "C/x", "Am7/%", "C/{}", "C/Eb!", "C/e", "Dm|Hm", "Hm|G", "Dm|Gxyz", "Dfoo|G",
          "C/E\n", "Dm|G|zz"]:
    checks[0] += 1
    raises((FormatError, NoteFormatError), chords.from_shorthand, s)
checks[0] += 1
raises((FormatError, NoteFormatError), chords.from_shorthand, ["C", "Hm"])

finish()
