import mingus, os; assert os.path.realpath(mingus.__file__).startswith(os.path.realpath(os.path.dirname(__file__)))
"""Direct check of property C20 (tunings and tablature) through the public API.

Exit status 0 when the statement holds on every case tried, 1 (with a message)
otherwise.
"""
import itertools
import random
import re
import sys

import mingus.extra.tunings as T
import mingus.extra.tablature as tab
from mingus.containers import Bar, Composition, Note, NoteContainer, Track
from mingus.core.mt_exceptions import FingerError, RangeError

CASES = [0]


class Broken(Exception):
    pass


def check(cond, msg):
    CASES[0] += 1
    if not cond:
        raise Broken(msg)


def opens(tuning):
    return [int(x[0]) if isinstance(x, list) else int(x) for x in tuning.tuning]


def plain(tuning):
    return not any(isinstance(x, list) for x in tuning.tuning)


ALL = T.get_tunings()


# --------------------------------------------------------------------------
# 1. fret arithmetic
# --------------------------------------------------------------------------
def part_frets():
    check(len(ALL) >= 70, "only %d tunings registered" % len(ALL))
    for tun in ALL:
        base = opens(tun)
        n = len(base)
        check(tun.count_strings() == n, "count_strings")
        for maxfret in (None, 0, 5, 12, 24, 30):
            for pitch in range(0, 128):
                if maxfret is None:
                    got = tun.find_frets(Note(pitch))
                    mf = 24
                elif pitch % 3 == 0:
                    got = tun.find_frets(note=Note(pitch), maxfret=maxfret)
                    mf = maxfret
                elif pitch % 3 == 1:
                    nt = Note(pitch)
                    got = tun.find_frets("%s-%d" % (nt.name, nt.octave), maxfret)
                    mf = maxfret
                else:
                    got = tun.find_frets(Note(pitch), maxfret)
                    mf = maxfret
                want = [pitch - b if 0 <= pitch - b <= mf else None for b in base]
                if got != want:
                    raise Broken(
                        "find_frets %s/%s pitch %d maxfret %r: %r, expected %r"
                        % (tun.instrument, tun.description, pitch, maxfret, got, want)
                    )
                # the caller owns the list
                got.append("x")
            CASES[0] += 1
        for string in range(n):
            for maxfret in (0, 7, 24):
                for fret in range(0, maxfret + 1):
                    note = tun.get_Note(string, fret, maxfret)
                    if int(note) != base[string] + fret:
                        raise Broken(
                            "get_Note %s string %d fret %d gives %d"
                            % (tun.instrument, string, fret, int(note))
                        )
                for (s, f) in ((string, maxfret + 1), (string, -1), (-1, 0), (n, 0), (n + 3, 2)):
                    try:
                        tun.get_Note(s, f, maxfret)
                    except RangeError:
                        pass
                    else:
                        raise Broken("get_Note(%d, %d, %d) accepted" % (s, f, maxfret))
                    # once more, refused again
                    try:
                        tun.get_Note(string=s, fret=f, maxfret=maxfret)
                    except RangeError:
                        pass
                    else:
                        raise Broken("get_Note(%d, %d, %d) accepted" % (s, f, maxfret))
            CASES[0] += 1
        check(int(tun.get_Note()) == base[0], "get_Note defaults")


# --------------------------------------------------------------------------
# 2. lookup
# --------------------------------------------------------------------------
def part_lookup():
    prefixes = [None, "", "b", "B", "ba", "bass", "Bass guitar", "guitar", "GUITAR", "Guit",
                "guitarr", "Guitarr\u00f3n", "mando", "Mandolin", "mandolin (", "violin", "fiddle",
                "i", "uk", "zz", "ch", "Charango", "charangon", "t", "%s", "{0}", "cello", "c"]
    counts = [None, 3, 4, 5, 6, 7]
    courses = [None, 1, 1.0, 2, 2.0, 3, 1.6, 1.5]
    for (p, ns, nc) in itertools.product(prefixes, counts, courses):
        if p is None:
            res = T.get_tunings(nr_of_strings=ns, nr_of_courses=nc)
        else:
            res = T.get_tunings(p, ns, nc)
        for tun in res:
            ok = True
            if p is not None and not tun.instrument.upper().startswith(p.upper()):
                ok = False
            if ns is not None and tun.count_strings() != ns:
                ok = False
            if nc is not None and tun.count_courses() != nc:
                ok = False
            if not ok:
                raise Broken(
                    "get_tunings(%r, %r, %r) returned %s / %s"
                    % (p, ns, nc, tun.instrument, tun.description)
                )
            if not any(tun is x for x in ALL):
                raise Broken("get_tunings returned an unregistered tuning")
        CASES[0] += 1
    descs = ["", "standard", "Standard tuning", "open", "OPEN G", "drop", "irish", "modal", "f6",
             "g6", '"', "nothing like this", "*dad", "standard 5"]
    for (p, d, ns, nc) in itertools.product(
        ["guitar", "bass", "b", "fiddle", "irish", "banjo", "charangon", "violin", "zz", "m"],
        descs, [None, 4, 5, 6], [None, 1, 2],
    ):
        tun = T.get_tuning(p, d, ns, nc)
        if tun is not None:
            ok = (
                tun.instrument.upper().startswith(p.upper())
                and tun.description.upper().startswith(d.upper())
                and (ns is None or tun.count_strings() == ns)
                and (nc is None or tun.count_courses() == nc)
            )
            if not ok:
                raise Broken(
                    "get_tuning(%r, %r, %r, %r) returned %s / %s"
                    % (p, d, ns, nc, tun.instrument, tun.description)
                )
        CASES[0] += 1
    g = T.get_tuning("Guitar", "Standard", 6, 1)
    check(g is not None and opens(g) == [28, 33, 38, 43, 47, 52], "standard guitar")
    g = T.get_tuning(instrument="guitar", description="standard", nr_of_strings=6, nr_of_courses=2)
    check(g is not None and g.count_courses() == 2, "twelve string guitar")


# --------------------------------------------------------------------------
# 3. fingerings against a brute-force specification
# --------------------------------------------------------------------------
def spec_fingerings(tun, pitches, max_distance, maxfret=24):
    base = opens(tun)
    out = set()
    for strings in itertools.permutations(range(len(base)), len(pitches)):
        frets = [p - base[s] for (s, p) in zip(strings, pitches)]
        if any(f < 0 or f > maxfret for f in frets):
            continue
        fretted = [f for f in frets if f != 0]
        if fretted and not max(fretted) - min(fretted) < max_distance:
            continue
        out.add(tuple(zip(strings, frets)))
    return out


def part_fingerings():
    rnd = random.Random(2020)
    for tun in ALL:
        base = opens(tun)
        for trial in range(5):
            k = rnd.randint(1, min(4, len(base)))
            if trial < 3:
                # something that is likely to be playable
                strings = rnd.sample(range(len(base)), k)
                low = rnd.randint(0, 14)
                pitches = [base[s] + rnd.choice([0, low, low + 1, low + 2, low + 3, low + 5])
                           for s in strings]
            else:
                pitches = [rnd.randint(min(base) - 3, max(base) + 27) for _ in range(k)]
            md = rnd.choice([4, 4, 4, 1, 2, 3, 6, 30])
            form = trial % 4
            if form == 0:
                arg = [Note(p) for p in pitches]
            elif form == 1:
                arg = ["%s-%d" % (Note(p).name, Note(p).octave) for p in pitches]
            elif form == 2:
                arg = tuple(Note(p) for p in pitches)
            else:
                arg = NoteContainer([Note(p) for p in pitches])
                pitches = [int(x) for x in arg]
            if md == 4 and trial % 2:
                got = tun.find_fingering(arg)
            elif trial % 2:
                got = tun.find_fingering(arg, max_distance=md)
            else:
                got = tun.find_fingering(arg, md)
            want = spec_fingerings(tun, pitches, md)
            as_set = set(tuple(tuple(x) for x in f) for f in got)
            where = "%s/%s notes %r max_distance %d" % (tun.instrument, tun.description, pitches, md)
            check(len(as_set) == len(got), "duplicate fingerings for " + where)
            if as_set != want:
                raise Broken("fingerings for %s: %r, expected %r" % (where, sorted(as_set), sorted(want)))
            totals = [sum(f for (_, f) in x) for x in got]
            check(totals == sorted(totals), "fingerings not ordered by total frets for " + where)
            for f in got:
                for ((s, fr), p) in zip(f, pitches):
                    if int(tun.get_Note(s, fr)) != p:
                        raise Broken("fingering does not sound its note: " + where)
    g = T.get_tuning("Guitar", "Standard", 6, 1)
    check(g.find_fingering([]) == [], "no notes")
    check(g.find_fingering(None) == [], "None")
    check(g.find_fingering([Note(p) for p in range(40, 47)]) == [], "seven notes on six strings")
    check(g.find_fingering(["C-0"]) == [], "too low")


# --------------------------------------------------------------------------
# 4. chord fingerings
# --------------------------------------------------------------------------
def ref_fingers_needed(fingering):
    split = False
    indexfinger = False
    minimum = min(finger for finger in fingering if finger)
    result = 0
    for finger in reversed(fingering):
        if finger == 0:
            split = True
        else:
            if not split and finger == minimum:
                if not indexfinger:
                    result += 1
                    indexfinger = True
            else:
                result += 1
    return result


def part_chords():
    guitars = [t for t in T.get_tunings("guitar") if plain(t)]
    guitars += [t for t in T.get_tunings("Baritone guitar") + T.get_tunings("Tenor guitar")
                + T.get_tunings("Requinto") + T.get_tunings("Bass guitar")[:2] if plain(t)]
    check(len(guitars) >= 10, "guitar family")
    shorthands = ["", "m", "7", "m7", "M7", "dim", "aug", "sus4", "6", "m6", "9", "7b5", "5"]
    roots = ["C", "D", "E", "F#", "G", "A", "Bb", "Eb"]
    rnd = random.Random(7)
    combos = [(t, r, s) for t in guitars for r in roots for s in shorthands]
    rnd.shuffle(combos)
    for (tun, root, sh) in combos[:260]:
        base = opens(tun)
        chord = NoteContainer().from_chord(root + sh)
        pcs = set(int(n) % 12 for n in chord)
        (md, mf, fingers) = rnd.choice([(4, 18, 4), (4, 18, 4), (3, 12, 4), (5, 15, 3), (4, 24, 6)])
        if (md, mf, fingers) == (4, 18, 4):
            res = tun.find_chord_fingering(chord)
        else:
            res = tun.find_chord_fingering(chord, max_distance=md, maxfret=mf, max_fingers=fingers)
        where = "%s/%s chord %s%s" % (tun.instrument, tun.description, root, sh)
        for f in res:
            check(len(f) == len(base), "one entry per string: " + where)
            sounding = set()
            for (s, fr) in enumerate(f):
                if fr is None:
                    continue
                if not 0 <= fr <= mf:
                    raise Broken("fret beyond maxfret: %r %s" % (f, where))
                sounding.add((base[s] + fr) % 12)
                if int(tun.get_Note(s, fr)) != base[s] + fr:
                    raise Broken("get_Note disagrees")
            if sounding != pcs:
                raise Broken("%s: fingering %r sounds %r, chord is %r" % (where, f, sounding, pcs))
            fretted = [x for x in f if x]
            if fretted and not max(fretted) - min(fretted) < md:
                raise Broken("%s: fingering %r spans too far" % (where, f))
            if ref_fingers_needed(f) > fingers or T.fingers_needed(f) > fingers:
                raise Broken("%s: fingering %r needs too many fingers" % (where, f))
    g = T.get_tuning("Guitar", "Standard", 6, 1)
    check([0, 0, 2, 2, 1, 0] in g.find_chord_fingering(NoteContainer().from_chord("Am")), "Am")
    check([0, 0, 2, 2, 1, 0] in g.find_chord_fingering(["A", "C", "E"]), "Am from names")


# --------------------------------------------------------------------------
# 5. tablature
# --------------------------------------------------------------------------
STRING_LINE = re.compile(r"^ (\S+) *\|\|(.*)$")


def blocks_of(text):
    """Split the text into blocks of consecutive string lines."""
    blocks = []
    cur = []
    for line in text.split(os.linesep):
        m = STRING_LINE.match(line)
        if m and "*" not in line:
            cur.append(line)
        else:
            if cur:
                blocks.append(cur)
            cur = []
    if cur:
        blocks.append(cur)
    return blocks


def decode_block(lines, tun):
    """Return the list of entries (sorted pitch lists) found in a block."""
    base = opens(tun)
    if len(lines) != len(base):
        raise Broken("%d string lines for %d strings:\n%s" % (len(lines), len(base), "\n".join(lines)))
    if len(set(len(x) for x in lines)) != 1:
        raise Broken("lines of different lengths:\n%s" % "\n".join(lines))
    bodies = []
    for line in lines:
        m = STRING_LINE.match(line)
        start = line.index("||") + 2
        bodies.append((start, line))
    start = bodies[0][0]
    if any(s != start for (s, _) in bodies):
        raise Broken("string lines start at different columns")
    width = len(lines[0])
    digitcols = [any(line[c].isdigit() for line in lines) for c in range(width)]
    for c in range(start):
        digitcols[c] = False
    entries = []
    c = start
    while c < width:
        if not digitcols[c]:
            c += 1
            continue
        e = c
        while e < width and digitcols[e]:
            e += 1
        pitches = []
        for (i, line) in enumerate(lines):
            string = len(lines) - 1 - i
            nums = re.findall(r"\d+", line[c:e])
            if len(nums) > 1:
                raise Broken("two numbers in one entry")
            if nums:
                pitches.append(base[string] + int(nums[0]))
        entries.append(sorted(pitches))
        c = e
    return entries


def random_entry(rnd, tun, maxnotes=3):
    """A playable set of pitches (as a sorted list)."""
    base = opens(tun)
    k = rnd.randint(1, min(maxnotes, len(base)))
    strings = rnd.sample(range(len(base)), k)
    low = rnd.randint(1, 15)
    pitches = set()
    for s in strings:
        pitches.add(base[s] + rnd.choice([0, low, low + 1, low + 2, low + 3]))
    return sorted(pitches)


def random_bar(rnd, tun):
    bar = Bar()
    expected = []
    while not bar.is_full():
        dur = rnd.choice([1, 2, 4, 4, 8, 8])
        if rnd.random() < 0.15:
            if bar.place_rest(dur):
                pass
            continue
        pitches = random_entry(rnd, tun)
        if rnd.random() < 0.5:
            content = NoteContainer([Note(p) for p in pitches])
        else:
            content = NoteContainer(["%s-%d" % (Note(p).name, Note(p).octave) for p in pitches])
        if bar.place_notes(content, dur):
            expected.append(pitches)
    return (bar, expected)


def part_tabs():
    rnd = random.Random(99)
    plain_tunings = [t for t in ALL if plain(t)]
    check(len(plain_tunings) >= 40, "plain tunings")
    guitar = T.get_tuning("Guitar", "Standard", 6, 1)

    # single notes and note containers
    for tun in plain_tunings:
        base = opens(tun)
        for trial in range(3):
            width = rnd.choice([80, 40, 30, 20, 12, 61, 100])
            p = rnd.randint(min(base), max(base) + 24)
            note = Note(p) if trial % 2 else "%s-%d" % (Note(p).name, Note(p).octave)
            if trial == 0:
                text = tab.from_Note(note, width, tun)
            else:
                text = tab.from_Note(note, width=width, tuning=tun)
            blocks = blocks_of(text)
            check(len(blocks) == 1, "from_Note gives one block")
            got = decode_block(blocks[0], tun)
            if got != [[p]]:
                raise Broken("from_Note %s pitch %d width %d decodes to %r:\n%s"
                             % (tun.instrument, p, width, got, text))
        for trial in range(3):
            width = rnd.choice([80, 40, 30, 20, 12, 61, 100])
            pitches = random_entry(rnd, tun, 4)
            if trial == 0:
                arg = NoteContainer([Note(p) for p in pitches])
            elif trial == 1:
                arg = [Note(p) for p in pitches]
            else:
                # notes that carry a string and a fret, as handed out by the tuning
                arg = []
                for p in pitches:
                    spots = [(s, f) for (s, f) in enumerate(tun.find_frets(Note(p))) if f is not None]
                    arg.append(tun.get_Note(*rnd.choice(spots)))
            text = tab.from_NoteContainer(arg, width, tun)
            blocks = blocks_of(text)
            check(len(blocks) == 1, "from_NoteContainer gives one block")
            got = decode_block(blocks[0], tun)
            if got != [pitches]:
                raise Broken("from_NoteContainer %s pitches %r width %d decodes to %r:\n%s"
                             % (tun.instrument, pitches, width, got, text))
    text = tab.from_Note("C-4")
    check(decode_block(blocks_of(text)[0], guitar) == [[48]], "default tuning, default width")

    # bars
    for tun in plain_tunings:
        for trial in range(2):
            width = rnd.choice([40, 44, 50, 60, 72, 80])
            (bar, expected) = random_bar(rnd, tun)
            if trial:
                text = tab.from_Bar(bar, width, tun)
            else:
                text = os.linesep.join(tab.from_Bar(bar, width=width, tuning=tun, collapse=False))
            blocks = blocks_of(text)
            check(len(blocks) == 1, "from_Bar gives one block")
            got = decode_block(blocks[0], tun)
            if got != expected:
                raise Broken("from_Bar %s width %d decodes to %r, expected %r:\n%s"
                             % (tun.instrument, width, got, expected, text))
            # the same bar again gives the same pitches
            again = decode_block(blocks_of(tab.from_Bar(bar, width, tun))[0], tun)
            check(again == expected, "from_Bar twice")

    # tracks
    for trial in range(40):
        tun = rnd.choice(plain_tunings)
        maxwidth = rnd.choice([40, 50, 60, 80, 100, 120, 130, 150, 180])
        track = Track()
        expected = []
        for _ in range(rnd.randint(1, 5)):
            (bar, exp) = random_bar(rnd, tun)
            track.add_bar(bar)
            expected += exp
        if trial % 2:
            text = tab.from_Track(track, maxwidth, tun)
        else:
            track.set_tuning(tun)
            text = tab.from_Track(track, maxwidth=maxwidth)
        got = []
        for block in blocks_of(text):
            got += decode_block(block, tun)
        if got != expected:
            raise Broken("from_Track %s maxwidth %d decodes to %r, expected %r:\n%s"
                         % (tun.instrument, maxwidth, got, expected, text))
        CASES[0] += 1

    # compositions
    for trial in range(30):
        width = rnd.choice([40, 60, 80, 100, 120, 150])
        ntracks = rnd.randint(1, 3)
        nbars = rnd.randint(1, 4)
        comp = Composition()
        if trial % 3 == 0:
            comp.set_title("Caf\u00e9 {0} %s 100%", "sub {title}")
            comp.set_author("N\u00f6body %d", "n@example.org")
        tuns = []
        expected = []
        for _ in range(ntracks):
            tun = rnd.choice(plain_tunings)
            track = Track()
            track.set_tuning(tun)
            exp = []
            for _ in range(nbars):
                (bar, e) = random_bar(rnd, tun)
                track.add_bar(bar)
                exp += e
            comp.add_track(track)
            tuns.append(tun)
            expected.append(exp)
        text = tab.from_Composition(comp, width)
        got = [[] for _ in range(ntracks)]
        for (i, block) in enumerate(blocks_of(text)):
            got[i % ntracks] += decode_block(block, tuns[i % ntracks])
        if got != expected:
            raise Broken("from_Composition width %d decodes to %r, expected %r:\n%s"
                         % (width, got, expected, text))
        CASES[0] += 1

    # entries that cannot be played
    for tun in plain_tunings[::4]:
        base = opens(tun)
        for p in (min(base) - 1, max(base) + 25, 0, 127):
            for _ in range(2):
                try:
                    tab.from_Note(Note(p), 40, tun)
                except RangeError:
                    pass
                else:
                    raise Broken("from_Note accepted pitch %d on %s" % (p, tun.instrument))
                for call in (
                    lambda: tab.from_NoteContainer(NoteContainer([Note(p)]), 40, tun),
                    lambda: tab.from_NoteContainer([Note(p), Note(base[0] + 2)], 40, tun),
                ):
                    try:
                        call()
                    except FingerError:
                        pass
                    else:
                        raise Broken("from_NoteContainer accepted pitch %d on %s" % (p, tun.instrument))
                bar = Bar()
                bar.place_notes(NoteContainer([Note(base[0] + 1)]), 4)
                bar.place_notes(NoteContainer([Note(p)]), 4)
                try:
                    tab.from_Bar(bar, 40, tun)
                except FingerError:
                    pass
                else:
                    raise Broken("from_Bar accepted pitch %d on %s" % (p, tun.instrument))
                track = Track()
                track.add_bar(bar)
                try:
                    tab.from_Track(track, 80, tun)
                except FingerError:
                    pass
                else:
                    raise Broken("from_Track accepted pitch %d on %s" % (p, tun.instrument))
                CASES[0] += 1
        # a stretch no hand can make: same string needed twice / span too wide
        wide = [Note(base[0] + 1), Note(base[0] + 2)] if len(base) == 1 else None
        far = NoteContainer([Note(base[0] + 1), Note(base[-1] + 20)])
        if not tun.find_fingering(far):
            try:
                tab.from_NoteContainer(far, 60, tun)
            except FingerError:
                pass
            else:
                raise Broken("from_NoteContainer accepted an impossible stretch")
            CASES[0] += 1


def main():
    try:
        part_frets()
        part_lookup()
        part_fingerings()
        part_chords()
        part_tabs()
    except Broken as e:
        print("PROPERTY C20 VIOLATED: %s" % e)
        return 1
    print("C20 holds on %d checks" % CASES[0])
    return 0


if __name__ == "__main__":
    sys.exit(main())
