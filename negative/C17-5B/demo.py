import mingus, os; assert os.path.realpath(mingus.__file__).startswith(os.path.realpath(os.path.dirname(__file__)))
"""Direct check of property C17 (MIDI write / read round trip) through the public API."""
import io
import random
import sys
import tempfile
import contextlib

from mingus.containers import Bar, Composition, Note, NoteContainer, Track
from mingus.containers.instrument import MidiInstrument
from mingus.core.keys import major_keys, minor_keys
from mingus.midi import midi_file_in, midi_file_out
from mingus.midi.midi_track import MidiTrack

TMP = tempfile.mkdtemp(prefix="c17demo")
PATH = os.path.join(TMP, "x.mid")
CASES = 0


def fail(msg):
    print("C17 VIOLATED: %s" % msg)
    sys.exit(1)


def quiet_read(path):
    with contextlib.redirect_stdout(io.StringIO()):
        return midi_file_in.MIDI_to_Composition(path)


def flatten(track):
    """[(ticks, frozenset(pitches), frozenset((pitch, channel, velocity)))], rests merged, trailing rests dropped."""
    out = []
    for bar in track.bars:
        for _beat, dur, nc in bar.bar:
            ticks = int(round(288.0 / dur))
            if nc is None or len(nc) == 0:
                if out and not out[-1][1]:
                    out[-1] = (out[-1][0] + ticks, frozenset(), frozenset())
                else:
                    out.append((ticks, frozenset(), frozenset()))
            else:
                out.append(
                    (
                        ticks,
                        frozenset(int(n) for n in nc),
                        frozenset((int(n), n.channel, n.velocity) for n in nc),
                    )
                )
    while out and not out[-1][1]:
        out.pop()
    return out


def check_roundtrip(comp, bpm=120, uniform=None, label="", kw=False):
    """uniform: list of (meter, key) per track when the track is in one meter and key."""
    global CASES
    CASES += 1
    if os.path.exists(PATH):
        os.remove(PATH)
    if kw:
        ok = midi_file_out.write_Composition(file=PATH, composition=comp, bpm=bpm)
    else:
        ok = midi_file_out.write_Composition(PATH, comp, bpm)
    if ok is not True:
        fail("%s: write_Composition returned %r" % (label, ok))
    back, bpm2 = quiet_read(PATH)
    if bpm2 != bpm:
        fail("%s: tempo %r came back as %r" % (label, bpm, bpm2))
    if len(back.tracks) != len(comp.tracks):
        fail("%s: %d tracks came back as %d" % (label, len(comp.tracks), len(back.tracks)))
    for i, (t1, t2) in enumerate(zip(comp.tracks, back.tracks)):
        f1, f2 = flatten(t1), flatten(t2)
        if [(a, b) for a, b, _ in f1] != [(a, b) for a, b, _ in f2]:
            fail("%s: track %d sequence differs\n wrote %r\n read  %r" % (label, i, f1, f2))
        if [c for _, _, c in f1] != [c for _, _, c in f2]:
            fail("%s: track %d channel/velocity differs" % (label, i))
        if t1.name != t2.name:
            fail("%s: track %d name %r came back as %r" % (label, i, t1.name, t2.name))
        if hasattr(t1.instrument, "instrument_nr") and f1:
            if getattr(t2.instrument, "instrument_nr", None) != t1.instrument.instrument_nr:
                fail("%s: track %d instrument differs" % (label, i))
        if uniform is not None and uniform[i] is not None:
            meter, key = uniform[i]
            for b in t2.bars:
                if tuple(b.meter) != tuple(meter):
                    fail("%s: track %d bar meter %r, wrote %r" % (label, i, b.meter, meter))
                if b.key.key != key or b.key.mode != ("minor" if key.islower() else "major"):
                    fail("%s: track %d bar key %r, wrote %r" % (label, i, b.key.key, key))
    return back


ALL_KEYS = list(major_keys) + list(minor_keys)
assert len(ALL_KEYS) == 30
VALUES = [1, 2, 4, 8, 16, 32, 3, 6, 12, 24, 48, 96, 1.5, 64 / 3.0, 288 / 7.0, 288, 144, 72, 36, 18, 9, 4.5]
METERS = [(4, 4), (3, 4), (6, 8), (2, 2), (5, 4), (7, 8), (12, 8), (2, 4), (9, 8), (3, 2)]


def rnd_note(rng):
    n = Note(rng.randrange(0, 116))  # int(note)+12 <= 127
    n.channel = rng.randrange(0, 16)
    n.velocity = rng.randrange(1, 128)
    return n


def rnd_track(rng, meter, key, nbars, rest_p=0.25, name=None, instr=None):
    t = Track()
    if name is not None:
        t.name = name
    if instr is not None:
        mi = MidiInstrument()
        mi.instrument_nr = instr
        t.instrument = mi
    for _ in range(nbars):
        b = Bar(key, meter)
        guard = 0
        while not b.is_full() and guard < 60:
            guard += 1
            v = rng.choice(VALUES)
            if rng.random() < rest_p:
                b.place_rest(v)
            else:
                k = rng.choice([1, 1, 1, 2, 3, 4, 6])
                nc = NoteContainer()
                for _i in range(k):
                    nc.add_note(rnd_note(rng))
                b.place_notes(nc, v)
        t.add_bar(b)
    return t


NAMES = ["Untitled", "", "a", "Piano {0} %s %d", "line1\nline2", "x" * 127, "y" * 128, "z" * 300,
         "tab\there", "100%", "{}", "MTrk", "MThd", "\x00nul", "q" * 20000, " lead ", "%(name)s"]


def main():
    rng = random.Random(1717)

    # 1. variable length quantities: reader inverts writer
    mt = MidiTrack()
    reader = midi_file_in.MidiFile()
    vals = set()
    for k in (0, 7, 14, 21, 28):
        for d in range(-300, 301):
            v = (1 << k) + d
            if 0 <= v < (1 << 28):
                vals.add(v)
    for _ in range(3000):
        vals.add(rng.randrange(0, 1 << 28))
        vals.add(rng.randrange(0, 1 << rng.randrange(1, 29)))
    vals.update(range(0, 20000))
    for v in sorted(vals):
        enc = mt.int_to_varbyte(v)
        if not isinstance(enc, bytes) or not 1 <= len(enc) <= 4:
            fail("int_to_varbyte(%d) -> %r" % (v, enc))
        got = reader.parse_varbyte_as_int(io.BytesIO(enc + b"\x00\x7f"))
        if got != (v, len(enc)):
            fail("VLQ %d -> %r -> %r" % (v, enc, got))
        if reader.parse_varbyte_as_int(io.BytesIO(enc), False) != v:
            fail("VLQ %d (no count)" % v)
        if reader.parse_varbyte_as_int(fp=io.BytesIO(enc), return_bytes_read=False) != v:
            fail("VLQ %d (keywords)" % v)
    global CASES
    CASES += len(vals)

    # 2. tempo, exhaustively for 4..1000
    small = Composition()
    tr = Track()
    b = Bar()
    b.place_notes("C-4", 4)
    b.place_notes("E-4", 4)
    tr.add_bar(b)
    small.add_track(tr)
    for bpm in range(4, 1001):
        check_roundtrip(small, bpm, [((4, 4), "C")], "bpm %d" % bpm, kw=(bpm % 2 == 0))

    # 3. all 30 keys x several meters, uniform tracks
    for key in ALL_KEYS:
        for meter in (METERS[ALL_KEYS.index(key) % len(METERS)], (4, 4), (3, 4)):
            c = Composition()
            c.add_track(rnd_track(rng, meter, key, 3, name="k " + key, instr=rng.randrange(0, 128)))
            check_roundtrip(c, 120, [(meter, key)], "key %s meter %r" % (key, meter))

    # 4. names and instruments
    for i, name in enumerate(NAMES):
        c = Composition()
        c.add_track(rnd_track(rng, (4, 4), "C", 2, name=name, instr=i % 128))
        c.add_track(rnd_track(rng, (3, 4), "eb", 2, name=name[::-1]))
        check_roundtrip(c, 97, [((4, 4), "C"), ((3, 4), "eb")], "name %r" % name[:30])
    for instr in range(128):
        c = Composition()
        c.add_track(rnd_track(rng, (4, 4), "G", 1, name="i%d" % instr, instr=instr))
        check_roundtrip(c, 120, [((4, 4), "G")], "instrument %d" % instr)

    # 5. random compositions, 1..5 tracks, uniform meter/key per track
    for n in range(250):
        c = Composition()
        uni = []
        for _ in range(rng.randrange(1, 6)):
            meter, key = rng.choice(METERS), rng.choice(ALL_KEYS)
            uni.append((meter, key))
            c.add_track(
                rnd_track(rng, meter, key, rng.randrange(1, 6), rest_p=rng.choice([0, 0.2, 0.6]),
                          name=rng.choice(NAMES[:12]), instr=rng.choice([None, rng.randrange(128)]))
            )
        check_roundtrip(c, rng.randrange(4, 1001), uni, "random %d" % n)

    # 6. mixed meters / keys inside a track: only the music is compared
    for n in range(60):
        c = Composition()
        for _ in range(rng.randrange(1, 4)):
            t = Track()
            for _b in range(rng.randrange(1, 5)):
                sub = rnd_track(rng, rng.choice(METERS), rng.choice(ALL_KEYS), 1)
                t.add_bar(sub.bars[0])
            c.add_track(t)
        check_roundtrip(c, rng.randrange(4, 1001), None, "mixed %d" % n)

    # 7. systematic corner cases
    # leading rests, rests across bar lines, rest-only bars in the middle, same bar used twice,
    # same track twice in a composition, a very long track, big chords.
    c = Composition()
    t = Track()
    b1 = Bar("C", (4, 4))
    b1.place_rest(2)
    b1.place_notes(["C-4", "E-4", "G-4"], 4)
    b1.place_rest(4)
    b2 = Bar("C", (4, 4))
    b2.place_rest(1)
    b3 = Bar("C", (4, 4))
    b3.place_rest(4)
    b3.place_notes(NoteContainer(["A-2", "C-8"]), 2)
    b3.place_notes("B-5", 4)
    for bb in (b1, b2, b3, b1, b3):
        t.add_bar(bb)
    c.add_track(t)
    c.add_track(t)
    check_roundtrip(c, 60, [((4, 4), "C")] * 2, "shared bars")

    c = Composition()
    c.add_track(rnd_track(rng, (4, 4), "F#", 400, name="long", instr=5))
    check_roundtrip(c, 333, [((4, 4), "F#")], "long track")

    c = Composition()
    t = Track()
    b = Bar("a", (4, 4))
    big = NoteContainer()
    for p in range(0, 116):
        n = Note(p)
        n.channel = p % 16
        n.velocity = 1 + p
        big.add_note(n)
    b.place_notes(big, 2)
    b.place_notes(big, 2)
    t.add_bar(b)
    c.add_track(t)
    check_roundtrip(c, 4, [((4, 4), "a")], "big chord")

    # velocity and channel extremes
    for vel in (1, 2, 63, 64, 126, 127):
        for ch in (0, 1, 9, 15):
            c = Composition()
            t = Track()
            b = Bar("Cb", (2, 4))
            b.place_notes(Note("C", 4, velocity=vel, channel=ch), 4)
            b.place_notes(NoteContainer([Note("D", 3, velocity=vel, channel=15 - ch), Note("G", 9, velocity=128 - vel, channel=ch)]), 4)
            t.add_bar(b)
            c.add_track(t)
            check_roundtrip(c, 1000, [((2, 4), "Cb")], "vel %d ch %d" % (vel, ch))

    # empty composition: no tracks either way
    check_roundtrip(Composition(), 120, [], "empty composition")

    # 8. files that are not MIDI are rejected
    good_comp = Composition()
    good_comp.add_track(rnd_track(rng, (4, 4), "C", 2))
    midi_file_out.write_Composition(PATH, good_comp, 120)
    with open(PATH, "rb") as f:
        good = f.read()
    assert good[:4] == b"MThd"
    trk = good.index(b"MTrk")
    bad_files = []
    for tag in (b"MThx", b"RIFF", b"mthd", b"\x00\x00\x00\x00", b"MTrk", b"XThd", b"MThD", b"%{}\n"):
        bad_files.append(("header tag %r" % tag, tag + good[4:]))
    for tag in (b"MTrx", b"MThd", b"mtrk", b"\xff\xff\xff\xff", b"XTrk", b"MTrK"):
        bad_files.append(("track tag %r" % tag, good[:trk] + tag + good[trk + 4:]))
    for fmt in (3, 4, 7, 255, 256, 0x7FFF, 0xFFFF):
        bad_files.append(("format %d" % fmt, good[:8] + bytes([fmt >> 8, fmt & 255]) + good[10:]))
    bad_files.append(("text", b"this is not a midi file at all, sorry\n" * 5))
    bad_files.append(("png", b"\x89PNG\r\n\x1a\n" + bytes(range(256))))
    for label, data in bad_files:
        CASES += 1
        for attempt in range(2):  # refused calls repeated
            with open(PATH, "wb") as f:
                f.write(data)
            try:
                res = quiet_read(PATH)
            except Exception:
                continue
            except BaseException as e:
                fail("non-MIDI (%s) ended with %r" % (label, e))
            fail("non-MIDI file (%s) was returned as music: %r" % (label, res))
    # and the good file still reads after the refusals
    with open(PATH, "wb") as f:
        f.write(good)
    back, bpm = quiet_read(PATH)
    if bpm != 120 or len(back.tracks) != 1 or [x[:2] for x in flatten(back.tracks[0])] != [x[:2] for x in flatten(good_comp.tracks[0])]:
        fail("good file no longer reads after refused ones")

    print("C17 holds on %d cases" % CASES)
    sys.exit(0)


if __name__ == "__main__":
    try:
        main()
    except SystemExit:
        raise
    except BaseException as e:
        import traceback

        traceback.print_exc()
        print("C17 demo crashed: %r" % (e,))
        sys.exit(1)
