import mingus, os; assert os.path.realpath(mingus.__file__).startswith(os.path.realpath(os.path.dirname(__file__)))
"""Direct check of property C06 (chord shorthand builds the chord its formula
prescribes on every root) through the public API. Exit 0 = holds, 1 = broken."""
import sys
import itertools

from mingus.core import chords
from mingus.core.mt_exceptions import FormatError, NoteFormatError

LETTERS = "CDEFGAB"
PC = {"C": 0, "D": 2, "E": 4, "F": 5, "G": 7, "A": 9, "B": 11}

# interval name -> (letter steps above the root, semitones above the root)
IV = {
    "m2": (1, 1), "M2": (1, 2), "A2": (1, 3),
    "m3": (2, 3), "M3": (2, 4),
    "P4": (3, 5), "A4": (3, 6),
    "d5": (4, 6), "P5": (4, 7), "A5": (4, 8),
    "M6": (5, 9),
    "d7": (6, 9), "m7": (6, 10), "M7": (6, 11),
}

# chord formulas, written out independently of the library
F = {
    "m": "m3 P5", "M": "M3 P5", "": "M3 P5", "dim": "m3 d5",
    "aug": "M3 A5", "+": "M3 A5",
    "7#5": "M3 A5 m7", "M7+5": "M3 A5 m7", "m7+": "M3 A5 m7",
    "M7+": "M3 A5 M7", "7+": "M3 A5 M7",
    "sus47": "P4 P5 m7", "7sus4": "P4 P5 m7",
    "sus4": "P4 P5", "sus": "P4 P5", "sus2": "M2 P5",
    "11": "P5 m7 P4", "add11": "P5 m7 P4",
    "sus4b9": "P4 P5 m2", "susb9": "P4 P5 m2",
    "m7": "m3 P5 m7", "M7": "M3 P5 M7", "dom7": "M3 P5 m7", "7": "M3 P5 m7",
    "m7b5": "m3 d5 m7", "dim7": "m3 d5 d7",
    "m/M7": "m3 P5 M7", "mM7": "m3 P5 M7",
    "m6": "m3 P5 M6", "M6": "M3 P5 M6", "6": "M3 P5 M6",
    "6/7": "M3 P5 M6 m7", "67": "M3 P5 M6 m7",
    "6/9": "M3 P5 M6 M2", "69": "M3 P5 M6 M2",
    "9": "M3 P5 m7 M2", "add9": "M3 P5 m7 M2",
    "7b9": "M3 P5 m7 m2", "7#9": "M3 P5 m7 A2",
    "M9": "M3 P5 M7 M2", "m9": "m3 P5 m7 M2",
    "7#11": "M3 P5 m7 A4",
    "m11": "m3 P5 m7 P4", "M11": "M3 P5 M7 M2 P4",
    "M13": "M3 P5 M7 M2 M6", "m13": "m3 P5 m7 M2 M6",
    "13": "M3 P5 m7 M2 M6", "add13": "M3 P5 m7 M2 M6",
    "7b5": "M3 d5 m7",
    "hendrix": "M3 P5 m7 m3", "7b12": "M3 P5 m7 m3",
    "5": "P5",
}

NAMED = {
    "minor_triad": "m", "major_triad": "M", "diminished_triad": "dim", "augmented_triad": "aug",
    "minor_sixth": "m6", "major_sixth": "M6", "dominant_sixth": "67", "sixth_ninth": "69",
    "minor_seventh": "m7", "major_seventh": "M7", "dominant_seventh": "7",
    "minor_major_seventh": "mM7", "minor_seventh_flat_five": "m7b5", "half_diminished_seventh": "m7b5",
    "diminished_seventh": "dim7",
    "minor_ninth": "m9", "major_ninth": "M9", "dominant_ninth": "9",
    "dominant_flat_ninth": "7b9", "dominant_sharp_ninth": "7#9",
    "eleventh": "11", "minor_eleventh": "m11", "major_eleventh": "M11",
    "minor_thirteenth": "m13", "major_thirteenth": "M13", "dominant_thirteenth": "13",
    "suspended_triad": "sus", "suspended_second_triad": "sus2", "suspended_fourth_triad": "sus4",
    "suspended_seventh": "sus47", "suspended_fourth_ninth": "sus4b9",
    "augmented_major_seventh": "M7+", "augmented_minor_seventh": "m7+",
    "dominant_flat_five": "7b5", "lydian_dominant_seventh": "7#11", "hendrix_chord": "hendrix",
}

failures = []
count = [0]


def fail(msg):
    failures.append(msg)


def pitch(note):
    return (PC[note[0]] + note.count("#") - note[1:].count("b")) % 12


def well_formed(note):
    return isinstance(note, str) and len(note) >= 1 and note[0] in PC and set(note[1:]) <= set("#b")


def check_formula(what, root, key, got):
    """got must be root followed by the notes the formula of key prescribes."""
    count[0] += 1
    want = F[key].split()
    if not isinstance(got, list):
        return fail("%s: not a list: %r" % (what, got))
    if len(got) != len(want) + 1:
        return fail("%s: %d notes, formula has %d: %r" % (what, len(got), len(want) + 1, got))
    if got[0] != root:
        return fail("%s: starts on %r, not on the root %r" % (what, got[0], root))
    for name, note in zip(want, got[1:]):
        steps, semis = IV[name]
        if not well_formed(note):
            return fail("%s: %r is not a note" % (what, note))
        letter = LETTERS[(LETTERS.index(root[0]) + steps) % 7]
        if note[0] != letter:
            return fail("%s: %s spelled %r, expected letter %s (%r)" % (what, name, note, letter, got))
        if (pitch(note) - pitch(root)) % 12 != semis:
            return fail("%s: %s is %r, wrong distance (%r)" % (what, name, note, got))


def expect_reject(arg):
    count[0] += 1
    try:
        r = chords.from_shorthand(arg)
    except (FormatError, NoteFormatError):
        return
    except Exception as e:  # noqa
        return fail("from_shorthand(%r) raised %s, not a format error" % (arg, type(e).__name__))
    fail("from_shorthand(%r) accepted: %r" % (arg, r))


def merged(lower, upper):
    res = list(lower)
    for n in upper:
        if n != res[-1]:
            res.append(n)
    return res


ACCS = ["", "#", "b", "##", "bb"]
ROOTS = [l + a for l in LETTERS for a in ACCS]
KEYS = sorted(chords.chord_shorthand)
fs = chords.from_shorthand

# -- the two tables have the same keys, and they are the ones known here
if set(chords.chord_shorthand) != set(chords.chord_shorthand_meaning):
    fail("constructible shorthands != shorthands with a meaning: %r" % sorted(
        set(chords.chord_shorthand) ^ set(chords.chord_shorthand_meaning)))
if set(KEYS) != set(F):
    fail("demo formula table out of date: %r" % sorted(set(KEYS) ^ set(F)))
KEYS = [k for k in KEYS if k in F]

# -- every shorthand on every root (plus a few roots with more / mixed accidentals)
extra_roots = ["C###", "Fbbb", "G####", "Bbbbb", "E#b", "Ab#", "D#######", "Cbbbbbbbb"]
for key in KEYS:
    for root in ROOTS + extra_roots:
        check_formula("from_shorthand(%r)" % (root + key), root, key, fs(root + key))
        check_formula("from_shorthand(shorthand_string=%r)" % (root + key), root, key, fs(shorthand_string=root + key))

# -- named builders agree with the shorthand and with the formula
for fname, key in sorted(NAMED.items()):
    f = getattr(chords, fname)
    for root in ROOTS + extra_roots[:4]:
        got = f(root)
        check_formula("%s(%r)" % (fname, root), root, key, got)
        if got != fs(root + key):
            fail("%s(%r) = %r differs from from_shorthand(%r) = %r" % (fname, root, got, root + key, fs(root + key)))
        got.append("junk")  # must not leak into later calls
        if f(note=root) != fs(root + key):
            fail("%s(note=%r) changed after its result was modified" % (fname, root))
for key in KEYS:
    for root in ROOTS[::3]:
        count[0] += 1
        if chords.chord_shorthand[key](root) != fs(root + key):
            fail("chord_shorthand[%r](%r) differs from from_shorthand" % (key, root))

# -- same meaning, same chord
by_meaning = {}
for key, meaning in chords.chord_shorthand_meaning.items():
    by_meaning.setdefault(meaning, []).append(key)
for meaning, ks in sorted(by_meaning.items()):
    for a, b in itertools.combinations(sorted(ks), 2):
        for root in ROOTS:
            count[0] += 1
            if fs(root + a) != fs(root + b):
                fail("%r and %r both mean %r but differ on %s" % (a, b, meaning, root))

# -- alias spellings
for key in KEYS:
    variants = set()
    for m_alias in ("m", "min", "mi", "-"):
        for M_alias in ("M", "maj", "ma"):
            variants.add(key.replace("m", m_alias).replace("M", M_alias))
    variants.discard(key)
    for v in sorted(variants):
        for root in ROOTS[::4]:
            count[0] += 1
            if fs(root + v) != fs(root + key):
                fail("alias %r != %r on %s: %r vs %r" % (v, key, root, fs(root + v), fs(root + key)))

# -- slash chords: bass note, then the chord
BASSES = ["C", "F#", "Bb", "E##", "Abb", "G", "D#b"]
for i, key in enumerate(KEYS):
    for j, root in enumerate(ROOTS):
        if (i + j) % 3:
            continue
        for bass in BASSES[(i + j) % 2::2]:
            count[0] += 1
            got = fs("%s%s/%s" % (root, key, bass))
            if got != [bass] + fs(root + key):
                fail("slash chord %s%s/%s = %r" % (root, key, bass, got))

# -- polychords: Y's notes, then X's notes, immediate repeats dropped
PARTS = ["C", "Gm7", "F#dim7", "Bb6/9", "Ebsus4", "A7#11", "Dm/M7", "E5", "Abmaj7", "B-7", "C/G", "G/B", "Dbhendrix"]
for x in PARTS:
    for y in PARTS:
        count[0] += 1
        got = fs("%s|%s" % (x, y))
        want = merged(fs(y), fs(x))
        if got != want:
            fail("polychord %s|%s = %r, expected %r" % (x, y, got, want))
for x, y, want in [
    ("Dm", "G", ["G", "B", "D", "F", "A"]),       # D of Dm follows D of G: not repeated
    ("G", "C", ["C", "E", "G", "B", "D"]),
    ("C", "C", ["C", "E", "G", "C", "E", "G"]),
    ("Am", "F", ["F", "A", "C", "A", "C", "E"]),
]:
    count[0] += 1
    if fs(x + "|" + y) != want:
        fail("polychord %s|%s = %r, expected %r" % (x, y, fs(x + "|" + y), want))
for key in KEYS:
    for root, other in (("C", "G7"), ("F#", "Bbm"), ("Eb", "Ab6")):
        count[0] += 1
        if fs(root + key + "|" + other) != merged(fs(other), fs(root + key)):
            fail("polychord %s%s|%s wrong" % (root, key, other))
        if fs(other + "|" + root + key) != merged(fs(root + key), fs(other)):
            fail("polychord %s|%s%s wrong" % (other, root, key))

# -- NC, lists
count[0] += 3
if fs("NC") != []:
    fail("NC is not the empty chord: %r" % fs("NC"))
if fs([]) != []:
    fail("empty list does not map to empty list")
lst = ["Am", "C7", "NC", "F#dim7", "Bb/D", "Dm|G", "Cmin7", "Cmaj7"]
got = fs(lst)
if got != [fs(s) for s in lst] or lst != ["Am", "C7", "NC", "F#dim7", "Bb/D", "Dm|G", "Cmin7", "Cmaj7"]:
    fail("list not mapped element-wise: %r" % got)
big = [r + k for r in ROOTS for k in KEYS]
count[0] += 1
if fs(big) != [fs(s) for s in big]:
    fail("long list not mapped element-wise")
got[0].append("junk")
if fs("Am") != ["A", "C", "E"]:
    fail("result of Am changed after an earlier result was modified: %r" % fs("Am"))

# -- a few fixed examples straight from the statement
for sh, want in [
    ("Cm7", ["C", "Eb", "G", "Bb"]),
    ("C7#11", ["C", "E", "G", "Bb", "F#"]),
    ("Cdim7", ["C", "Eb", "Gb", "Bbb"]),
    ("Cbdim7", ["Cb", "Ebb", "Gbb", "Bbbb"]),
    ("F#dim7", ["F#", "A", "C", "Eb"]),
    ("A/G", ["G", "A", "C#", "E"]),
    ("Amin", ["A", "C", "E"]),
    ("Am/M7", ["A", "C", "E", "G#"]),
]:
    count[0] += 1
    if fs(sh) != want:
        fail("%s = %r, expected %r" % (sh, fs(sh), want))

# -- malformed input is refused with the format / note format error (also when repeated)
BAD = [
    "Cxyz", "Cm77", "Cmajor", "Cminor", "CMAJ7", "Cm7 ", "C m7", "C7b55", "Csus3", "Cdim8", "C#mm", "Cq", "C7#", "C13b",
    "Hm7", "cm7", "xyz", " Cm7", "#C", "bB", "1", "m7", "?", "Im7", "nc", "N", "NCm",
    "C{", "C{}", "C{0}", "C%s", "C%", "C%(x)s", "C\n", "Cm7\n", "\nC", "C\tm7", "Cé", "Ém7", "Cm♭7", "♯", "Ω7", "C\x00",
    "C/H", "C/g", "Cm7/X#", "C/G#x", "C/7", "Cxyz/G", "Cm7/G7",
    "C|H", "H|C", "C|Gxyz", "Cxyz|G", "C|g", "C|/G",
    "C" + "x" * 5000, "C" + "7" * 3000, "C" + "#" * 300 + "zz", "Z" * 1000,
]
for s in BAD:
    expect_reject(s)
    expect_reject(s)
count[0] += 1
try:
    r = fs(["Am", "Cxyz", "G"])
    fail("list with an unknown shorthand accepted: %r" % (r,))
except (FormatError, NoteFormatError):
    pass
# refused calls leave nothing behind
for key in KEYS[::5]:
    for root in ROOTS[::6]:
        check_formula("after refusals: from_shorthand(%r)" % (root + key), root, key, fs(root + key))

# -- many distinct roots in one process, then the first ones again
many = [l + a for l in LETTERS for n in range(0, 41) for a in ("#" * n, "b" * n)]
for root in many:
    for key in ("m7", "dim7", "7#11", "M13", "7b5", "aug"):
        check_formula("from_shorthand(%r)" % (root + key), root, key, fs(root + key))
for key in KEYS:
    for root in ROOTS[::2]:
        check_formula("again: from_shorthand(%r)" % (root + key), root, key, fs(root + key))

if failures:
    print("C06 BROKEN: %d failure(s) in %d checks" % (len(failures), count[0]))
    for f in failures[:25]:
        print("  -", f)
    sys.exit(1)
print("C06 holds (%d checks)" % count[0])
sys.exit(0)
