import mingus, os; assert os.path.realpath(mingus.__file__).startswith(os.path.realpath(os.path.dirname(__file__)))
"""Direct check of property C17 (MIDI write / read round trip) through the
public API.  Exits 0 when everything holds, 1 with a message otherwise."""
import io
import random
import sys
import tempfile
import contextlib

from mingus.containers.bar import Bar
from mingus.containers.composition import Composition
from mingus.containers.instrument import MidiInstrument
from mingus.containers.note import Note
from mingus.containers.note_container import NoteContainer
from mingus.containers.track import Track
from mingus.core import keys as corekeys
from mingus.midi import midi_file_in, midi_file_out
from mingus.midi.midi_track import MidiTrack

TMP = tempfile.mkdtemp(prefix="c17demo")
PATH = os.path.join(TMP, "x.mid")
failures = []
ncases = 0


def fail(msg):
    failures.append(msg)
    if len(failures) > 10:
        finish()


def finish():
    try:
        if os.path.exists(PATH):
            os.remove(PATH)
        os.rmdir(TMP)
    except OSError:
        pass
    if failures:
        print("C17 VIOLATED (%d problems, %d cases):" % (len(failures), ncases))
        for f in failures:
            print("  -", f)
        sys.exit(1)
    print("C17 holds on %d cases" % ncases)
    sys.exit(0)


# values whose tick count 288/value is whole
VALUES = [1, 2, 4, 8, 16, 32, 3, 6, 12, 24, 48, 96, 1.5, 4.5, 9, 18, 36, 72, 144, 288, 64 / 3.0 * 1.5,
          8 / 3.0, 16 / 3.0, 4 / 3.0, 2.25]
VALUES = [v for v in VALUES if abs(288.0 / v - round(288.0 / v)) < 1e-9]
METERS = [(4, 4), (3, 4), (6, 8), (2, 2), (5, 4), (7, 8), (2, 4), (12, 8), (1, 1), (9, 16), (3, 2)]
ALLKEYS = list(corekeys.major_keys) + list(corekeys.minor_keys)
assert len(ALLKEYS) == 30


def flatten(track):
    """[(ticks, frozenset(pitches), {pitch: (channel, velocity)})], rests
    merged, trailing rests dropped."""
    out = []
    for bar in track.bars:
        for (beat, value, nc) in bar.bar:
            ticks = int(round(288.0 / value))
            if nc is None or len(nc) == 0:
                if out and not out[-1][1]:
                    out[-1] = (out[-1][0] + ticks, frozenset(), {})
                else:
                    out.append((ticks, frozenset(), {}))
            else:
                dyn = dict((int(n), (n.channel, n.velocity)) for n in nc)
                out.append((ticks, frozenset(dyn), dyn))
    while out and not out[-1][1]:
        out.pop()
    return out


def roundtrip(comp, bpm, how="func", **kw):
    global ncases
    ncases += 1
    sink = io.StringIO()
    with contextlib.redirect_stdout(sink):
        if how == "func":
            ok = midi_file_out.write_Composition(PATH, comp, bpm, **kw)
        elif how == "kw":
            ok = midi_file_out.write_Composition(file=PATH, composition=comp, bpm=bpm, **kw)
        else:
            tracks = tuple(MidiTrack(bpm) for _ in comp.tracks)
            for mt, t in zip(tracks, comp.tracks):
                mt.play_Track(t)
            mf = midi_file_out.MidiFile(list(tracks))
            ok = mf.write_file(PATH)
        if how == "cls":
            res = midi_file_in.MidiFile().MIDI_to_Composition(PATH)
        else:
            res = midi_file_in.MIDI_to_Composition(PATH)
    if ok is not True:
        fail("write returned %r" % (ok,))
    return res


def check(comp, bpm, label, how="func", one_meter_key=None, names=True):
    try:
        back, bpm2 = roundtrip(comp, bpm, how)
    except Exception as e:  # noqa
        fail("%s: exception %s: %s" % (label, type(e).__name__, e))
        return
    if comp.tracks and bpm2 != bpm:  # a file without tracks carries no tempo event
        fail("%s: bpm %r came back as %r" % (label, bpm, bpm2))
    if len(back.tracks) != len(comp.tracks):
        fail("%s: %d tracks came back as %d" % (label, len(comp.tracks), len(back.tracks)))
        return
    for i, (t1, t2) in enumerate(zip(comp.tracks, back.tracks)):
        f1, f2 = flatten(t1), flatten(t2)
        if [(a, b) for a, b, c in f1] != [(a, b) for a, b, c in f2]:
            fail("%s: track %d music differs\n     wrote %r\n     read  %r" % (
                label, i, [(a, sorted(b)) for a, b, c in f1][:12], [(a, sorted(b)) for a, b, c in f2][:12]))
            continue
        if [c for a, b, c in f1] != [c for a, b, c in f2]:
            fail("%s: track %d channel/velocity differs" % (label, i))
        if names and t2.name != t1.name:
            fail("%s: track %d name %r came back as %r" % (label, i, t1.name, t2.name))
        has_notes = any(b for a, b, c in f1)
        if has_notes and hasattr(t1.instrument, "instrument_nr"):
            nr = getattr(t2.instrument, "instrument_nr", None)
            if nr != t1.instrument.instrument_nr:
                fail("%s: track %d instrument %r came back as %r" % (label, i, t1.instrument.instrument_nr, nr))
        if one_meter_key is not None and t1.bars:
            meter, key = one_meter_key[i]
            for j, b in enumerate(t2.bars):
                if tuple(b.meter) != tuple(meter):
                    fail("%s: track %d bar %d meter %r came back as %r" % (label, i, j, meter, b.meter))
                    break
                k = b.key
                if k.key != key or k.mode != corekeys.Key(key).mode:
                    fail("%s: track %d bar %d key %r came back as %r/%r" % (label, i, j, key, k.key, k.mode))
                    break


def random_nc(rng, channel=None):
    n = rng.choice([1, 1, 1, 2, 3, 4, 6])
    nc = NoteContainer()
    for _ in range(n):
        p = rng.randint(0, 115)  # int(note)+12 must be <= 127
        note = Note().from_int(p)
        if rng.random() < 0.3:
            # an enharmonic spelling of the same pitch
            name = note.name
            alt = {"C#": "Db", "D#": "Eb", "F#": "Gb", "G#": "Ab", "A#": "Bb"}.get(name)
            if alt:
                note = Note(alt, note.octave)
        note.velocity = rng.randint(1, 127)
        note.channel = rng.randint(0, 15) if channel is None else channel
        nc.add_note(note)
    return nc


def random_track(rng, nbars, meter, key, rest_p=0.25, change=False):
    t = Track()
    for _ in range(nbars):
        if change and rng.random() < 0.5:
            meter = rng.choice(METERS)
            key = rng.choice(ALLKEYS)
        b = Bar(key, meter)
        tries = 0
        while not b.is_full() and tries < 12:
            tries += 1
            v = rng.choice(VALUES)
            if rng.random() < rest_p:
                if rng.random() < 0.5:
                    b.place_rest(v)
                else:
                    b.place_notes(NoteContainer(), v)
            else:
                b.place_notes(random_nc(rng), v)
        t.add_bar(b)
    return t


def main():
    rng = random.Random(1717)

    # ---- 1. random compositions, one meter and key per track
    for case in range(150):
        comp = Composition()
        ntracks = rng.choice([1, 1, 2, 3, 5])
        mk = []
        for ti in range(ntracks):
            meter = rng.choice(METERS)
            key = rng.choice(ALLKEYS)
            mk.append((meter, key))
            t = random_track(rng, rng.randint(1, 6), meter, key, rest_p=rng.choice([0.0, 0.2, 0.6]))
            if rng.random() < 0.7:
                ins = MidiInstrument()
                ins.instrument_nr = rng.randint(0, 127)
                t.instrument = ins
            if rng.random() < 0.8:
                t.name = "".join(rng.choice("abc XYZ09{}%\n\t\\'\"~!") for _ in range(rng.choice([0, 1, 5, 30, 127, 128, 300])))
            comp.add_track(t)
        check(comp, rng.randint(4, 1000), "random#%d" % case, how=rng.choice(["func", "kw", "cls"]), one_meter_key=mk)

    # ---- 2. tracks changing meter and key on the way
    for case in range(40):
        comp = Composition()
        for ti in range(rng.choice([1, 2])):
            comp.add_track(random_track(rng, rng.randint(2, 6), (4, 4), "C", change=True))
        check(comp, rng.randint(4, 1000), "changing#%d" % case)

    # ---- 3. all 30 keys x a few meters, systematic single-pitch bars
    for key in ALLKEYS:
        for meter in [(4, 4), (3, 4), (6, 8)]:
            t = Track()
            for _ in range(2):
                b = Bar(key, meter)
                while not b.is_full():
                    b.place_notes(Note("A", 4, velocity=64, channel=3), meter[1])
                t.add_bar(b)
            comp = Composition()
            comp.add_track(t)
            check(comp, 120, "key %s meter %r" % (key, meter), one_meter_key=[(meter, key)])

    # ---- 4. every bpm 4..1000
    t = Track()
    b = Bar()
    b.place_notes("C-4", 4)
    t.add_bar(b)
    comp = Composition()
    comp.add_track(t)
    for bpm in range(4, 1001):
        check(comp, bpm, "bpm %d" % bpm)

    # ---- 5. all pitches, velocities and channels
    t = Track()
    for p in range(0, 116):
        n = Note().from_int(p)
        n.velocity = 1 + (p * 7) % 127
        n.channel = p % 16
        t.add_notes(n, 16)
    comp = Composition()
    comp.add_track(t)
    check(comp, 90, "all pitches", one_meter_key=[((4, 4), "C")])
    t = Track()
    for v in range(1, 128):
        t.add_notes(Note("E", 3, velocity=v, channel=v % 16), 8)
    comp = Composition()
    comp.add_track(t)
    check(comp, 333, "all velocities", one_meter_key=[((4, 4), "C")])

    # ---- 6. objects used several times, long input, leading / inner rests, empty things
    nc = random_nc(rng)
    b = Bar("Eb", (4, 4))
    b.place_rest(4)
    b.place_notes(nc, 4)
    b.place_rest(8)
    b.place_rest(8)
    b.place_notes(nc, 4)
    t = Track()
    for _ in range(300):
        t.add_bar(b)
    t.name = "long {0} %s %(x)d\n"
    comp = Composition()
    comp.add_track(t)
    comp.add_track(t)
    check(comp, 200, "shared bar x300 x2 tracks", one_meter_key=[((4, 4), "Eb")] * 2)
    comp = Composition()
    comp.add_track(Track())
    check(comp, 100, "one empty track")
    comp = Composition()
    t = Track()
    t.add_bar(Bar("f#", (3, 4)))
    comp.add_track(t)
    t2 = Track()
    b = Bar("bb", (6, 8))
    b.place_rest(2)
    t2.add_bar(b)
    comp.add_track(t2)
    check(comp, 77, "empty bar / rest only")
    check(Composition(), 60, "no tracks")
    # whole-bar rests between music
    t = Track()
    b1 = Bar("D", (2, 4)); b1.place_notes("D-5", 2)
    br = Bar("D", (2, 4)); br.place_rest(2)
    for bb in (br, b1, br, br, b1, br):
        t.add_bar(bb)
    comp = Composition(); comp.add_track(t)
    check(comp, 141, "bar rests", one_meter_key=[((2, 4), "D")])

    # ---- 7. variable length quantities
    mt = MidiTrack()
    rd = midi_file_in.MidiFile()
    vals = set()
    for k in (0, 7, 8, 14, 21, 28):
        for d in range(-300, 301):
            v = (1 << k) + d
            if 0 <= v < (1 << 28):
                vals.add(v)
    vals.update(range(0, 20000))
    vals.update(range((1 << 28) - 3000, 1 << 28))
    vals.update(rng.randrange(1 << 28) for _ in range(20000))
    global ncases
    for v in sorted(vals):
        ncases += 1
        enc = mt.int_to_varbyte(v)
        fp = io.BytesIO(enc + b"\x7f")
        got = rd.parse_varbyte_as_int(fp)
        if got != (v, len(enc)) or fp.read() != b"\x7f":
            fail("VLQ %d -> %r -> %r" % (v, enc, got))
            break
        got = rd.parse_varbyte_as_int(io.BytesIO(enc), return_bytes_read=False)
        if got != v:
            fail("VLQ %d -> %r -> %r (plain)" % (v, enc, got))
            break
        if not (1 <= len(enc) <= 5) or enc[-1] & 0x80 or any(not (c & 0x80) for c in enc[:-1]):
            fail("VLQ %d malformed %r" % (v, enc))
            break

    # ---- 8. not MIDI
    comp = Composition()
    comp.add_track(random_track(rng, 2, (4, 4), "C"))
    comp.add_track(random_track(rng, 2, (4, 4), "G"))
    midi_file_out.write_Composition(PATH, comp, 120)
    with open(PATH, "rb") as f:
        good = f.read()
    assert good[:4] == b"MThd"
    trk = [i for i in range(len(good)) if good[i:i + 4] == b"MTrk"]
    assert len(trk) >= 2 and trk[0] == 14
    bad = []
    for tag in (b"MThx", b"RIFF", b"mthd", b"\x00\x00\x00\x00", b"MTrk", b"%{}\n"):
        bad.append(("header %r" % tag, tag + good[4:]))
    for tag in (b"MTrx", b"MThd", b"mtrk", b"\xff\xff\xff\xff", b"%{}\n"):
        bad.append(("track0 tag %r" % tag, good[:14] + tag + good[18:]))
        bad.append(("track1 tag %r" % tag, good[:trk[1]] + tag + good[trk[1] + 4:]))
    for fmt in (3, 4, 7, 255, 256, 0x7FFF, 0xFFFF):
        bad.append(("format %d" % fmt, good[:8] + bytes([fmt >> 8, fmt & 255]) + good[10:]))
    bad.append(("empty file", b""))
    bad.append(("text", b"hello world, this is not MIDI\n"))
    for label, data in bad:
        ncases += 1
        with open(PATH, "wb") as f:
            f.write(data)
        sink = io.StringIO()
        try:
            with contextlib.redirect_stdout(sink):
                res = midi_file_in.MIDI_to_Composition(PATH)
        except Exception:
            continue
        fail("not MIDI (%s) was returned as music: %r" % (label, res))
    # formats 0, 1, 2 are possible
    for fmt in (0, 1, 2):
        ncases += 1
        with open(PATH, "wb") as f:
            f.write(good[:8] + bytes([0, fmt]) + good[10:])
        try:
            res = midi_file_in.MIDI_to_Composition(PATH)
            if len(res[0].tracks) != 2:
                fail("format %d: wrong track count" % fmt)
        except Exception as e:
            fail("format %d rejected: %r" % (fmt, e))
    finish()


main()
