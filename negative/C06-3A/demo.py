import mingus, os; assert os.path.realpath(mingus.__file__).startswith(os.path.realpath(os.path.dirname(__file__)))
import sys

from mingus.core import chords, notes
from mingus.core.mt_exceptions import FormatError, NoteFormatError

LETTERS = "CDEFGAB"
PC = {"C": 0, "D": 2, "E": 4, "F": 5, "G": 7, "A": 9, "B": 11}

m3, M3 = (2, 3), (2, 4)
d5, P5, A5 = (4, 6), (4, 7), (4, 8)
M6, d7, m7, M7 = (5, 9), (6, 9), (6, 10), (6, 11)
m2, M2, A2 = (1, 1), (1, 2), (1, 3)
P4, A4 = (3, 5), (3, 6)

MIN, MAJ, DIM, AUG = [m3, P5], [M3, P5], [m3, d5], [M3, A5]
DOM7 = MAJ + [m7]
FORMULA = {
    "m": MIN, "M": MAJ, "": MAJ, "dim": DIM, "aug": AUG, "+": AUG,
    "7#5": AUG + [m7], "M7+5": AUG + [m7], "m7+": AUG + [m7],
    "M7+": AUG + [M7], "7+": AUG + [M7],
    "sus47": [P4, P5, m7], "7sus4": [P4, P5, m7],
    "sus4": [P4, P5], "sus": [P4, P5], "sus2": [M2, P5],
    "11": [P5, m7, P4], "add11": [P5, m7, P4],
    "sus4b9": [P4, P5, m2], "susb9": [P4, P5, m2],
    "m7": MIN + [m7], "M7": MAJ + [M7], "dom7": DOM7, "7": DOM7,
    "m7b5": DIM + [m7], "dim7": DIM + [d7],
    "m/M7": MIN + [M7], "mM7": MIN + [M7],
    "m6": MIN + [M6], "M6": MAJ + [M6], "6": MAJ + [M6],
    "6/7": MAJ + [M6, m7], "67": MAJ + [M6, m7],
    "6/9": MAJ + [M6, M2], "69": MAJ + [M6, M2],
    "9": DOM7 + [M2], "add9": DOM7 + [M2],
    "7b9": DOM7 + [m2], "7#9": DOM7 + [A2],
    "M9": MAJ + [M7, M2], "m9": MIN + [m7, M2],
    "7#11": DOM7 + [A4], "m11": MIN + [m7, P4], "M11": MAJ + [M7, M2, P4],
    "M13": MAJ + [M7, M2, M6], "m13": MIN + [m7, M2, M6],
    "13": DOM7 + [M2, M6], "add13": DOM7 + [M2, M6],
    "7b5": [M3, d5, m7], "hendrix": DOM7 + [m3], "7b12": DOM7 + [m3],
    "5": [P5],
}

NAMED = {
    "m": "minor_triad", "M": "major_triad", "dim": "diminished_triad",
    "aug": "augmented_triad", "m7+": "augmented_minor_seventh",
    "M7+": "augmented_major_seventh", "sus47": "suspended_seventh",
    "sus4": "suspended_fourth_triad", "sus": "suspended_triad",
    "sus2": "suspended_second_triad", "11": "eleventh",
    "sus4b9": "suspended_fourth_ninth", "m7": "minor_seventh",
    "M7": "major_seventh", "7": "dominant_seventh",
    "m7b5": "minor_seventh_flat_five", "dim7": "diminished_seventh",
    "m/M7": "minor_major_seventh", "m6": "minor_sixth", "M6": "major_sixth",
    "6/7": "dominant_sixth", "6/9": "sixth_ninth", "9": "dominant_ninth",
    "7b9": "dominant_flat_ninth", "7#9": "dominant_sharp_ninth",
    "M9": "major_ninth", "m9": "minor_ninth",
    "7#11": "lydian_dominant_seventh", "m11": "minor_eleventh",
    "M11": "major_eleventh", "M13": "major_thirteenth",
    "m13": "minor_thirteenth", "13": "dominant_thirteenth",
    "7b5": "dominant_flat_five", "hendrix": "hendrix_chord",
}

problems = []


def fail(msg):
    problems.append(msg)
    if len(problems) > 20:
        finish()


def finish():
    if problems:
        print("PROPERTY VIOLATED (%d):" % len(problems))
        for p in problems:
            print("  " + p)
        sys.exit(1)
    print("ok: %d checks" % count[0])
    sys.exit(0)


count = [0]


def pitch(note):
    v = PC[note[0]]
    for c in note[1:]:
        v += 1 if c == "#" else -1
    return v % 12


def spell(root, step, semis):
    """Independent oracle: letter `step` letters above, at `semis` semitones."""
    letter = LETTERS[(LETTERS.index(root[0]) + step) % 7]
    d = (pitch(root) + semis - PC[letter]) % 12
    if d > 6:
        d -= 12
    return letter + ("#" * d if d >= 0 else "b" * -d)


def expected(root, key):
    return [root] + [spell(root, s, h) for (s, h) in FORMULA[key]]


def check_eq(what, got, want):
    count[0] += 1
    if got != want or type(got) is not list:
        fail("%s: got %r, expected %r" % (what, got, want))


def check_raises(what, exc, fn, *a, **kw):
    count[0] += 1
    try:
        r = fn(*a, **kw)
    except exc as e:
        if type(e) is not exc:
            fail("%s: raised %r, expected exactly %s" % (what, e, exc.__name__))
        return
    except Exception as e:
        fail("%s: raised %r, expected %s" % (what, e, exc.__name__))
        return
    fail("%s: returned %r, expected %s" % (what, r, exc.__name__))


ROOTS = [l + a for l in LETTERS for a in ("", "#", "b", "##", "bb")]

# 0. key sets
count[0] += 1
if set(chords.chord_shorthand) != set(chords.chord_shorthand_meaning):
    fail("constructible keys differ from keys with a meaning")
count[0] += 1
if set(chords.chord_shorthand) != set(FORMULA):
    fail("key set differs from the demo's formula table: %r"
         % sorted(set(chords.chord_shorthand) ^ set(FORMULA)))

# 1. every key x every root: exact spelling, dict builder and named builder
for key in sorted(FORMULA):
    for root in ROOTS:
        want = expected(root, key)
        check_eq("from_shorthand(%r)" % (root + key), chords.from_shorthand(root + key), want)
        check_eq("chord_shorthand[%r](%r)" % (key, root), chords.chord_shorthand[key](root), want)
        if key in NAMED:
            check_eq("%s(%r)" % (NAMED[key], root), getattr(chords, NAMED[key])(root), want)
            check_eq("%s(note=%r)" % (NAMED[key], root), getattr(chords, NAMED[key])(note=root), want)
check_eq("half_diminished_seventh", chords.half_diminished_seventh("F#"), expected("F#", "m7b5"))

# the statement's own examples
check_eq("Cm7", chords.from_shorthand("Cm7"), ["C", "Eb", "G", "Bb"])
check_eq("C7#11", chords.from_shorthand("C7#11"), ["C", "E", "G", "Bb", "F#"])
check_eq("Cdim7", chords.from_shorthand("Cdim7"), ["C", "Eb", "Gb", "Bbb"])
check_eq("Gbdim7", chords.from_shorthand("Gbdim7"), ["Gb", "Bbb", "Dbb", "Fbb"])

# 1b. unusual roots: letter and semitone distance only
for root in ["C###", "Fbbb", "B####", "C#b", "Eb#", "G" + "#" * 14, "A" + "b" * 25, "D#b#b#"]:
    for key in ["m7", "dim7", "7#11", "aug", "M13", "5", "7#9"]:
        got = chords.from_shorthand(root + key)
        count[0] += 1
        ok = type(got) is list and len(got) == len(FORMULA[key]) + 1 and got[0] == root
        if ok:
            for n, (s, h) in zip(got[1:], FORMULA[key]):
                if not (notes.is_valid_note(n)
                        and n[0] == LETTERS[(LETTERS.index(root[0]) + s) % 7]
                        and pitch(n) == (pitch(root) + h) % 12):
                    ok = False
        if not ok:
            fail("from_shorthand(%r) = %r does not follow the formula" % (root + key, got))

# 2. same meaning => same chord
by_meaning = {}
for key, meaning in chords.chord_shorthand_meaning.items():
    by_meaning.setdefault(meaning, []).append(key)
for meaning, ks in by_meaning.items():
    for root in ["C", "F#", "Bb", "E##", "Abb"]:
        first = chords.from_shorthand(root + ks[0])
        for k in ks[1:]:
            check_eq("same meaning %r: %r vs %r on %r" % (meaning, ks[0], k, root),
                     chords.from_shorthand(root + k), first)

# 3. alias spellings
for key in sorted(FORMULA):
    variants = set()
    for m_alias in ("m", "min", "mi", "-"):
        for M_alias in ("M", "maj", "ma"):
            variants.add(key.replace("m", m_alias).replace("M", M_alias))
    variants.discard(key)
    for v in sorted(variants):
        for root in ("C", "Eb", "A#", "Bbb"):
            check_eq("alias %r" % (root + v), chords.from_shorthand(root + v), expected(root, key))

# 4. slash chords
for key in ["", "m", "m7", "7", "dim7", "6/9", "m/M7", "6/7", "sus4", "M13", "5", "hendrix", "7#11"]:
    for root in ("C", "F#", "Bb", "Gbb"):
        for bass in ("C", "E", "Bb", "G#", "Fbb", "A##", "C#b"):
            check_eq("slash %r" % (root + key + "/" + bass),
                     chords.from_shorthand(root + key + "/" + bass), [bass] + expected(root, key))
check_eq("slash kw", chords.from_shorthand("Cm7", slash="Bb"), ["Bb"] + expected("C", "m7"))
check_eq("kw form", chords.from_shorthand(shorthand_string="Ebmaj7"), expected("Eb", "M7"))


# 5. polychords
def poly(x_notes, y_notes):
    r = list(y_notes)
    for n in x_notes:
        if n != r[-1]:
            r.append(n)
    return r


PARTS = [("C", ""), ("D", "m"), ("G", "7"), ("E", "m7"), ("Bb", "dim7"), ("F#", "M9"),
         ("G", "5"), ("B", "sus4"), ("Ab", "6/9"), ("Db", "m/M7"), ("E", "7#9")]
for (xr, xk) in PARTS:
    for (yr, yk) in PARTS:
        check_eq("poly %r" % (xr + xk + "|" + yr + yk),
                 chords.from_shorthand(xr + xk + "|" + yr + yk),
                 poly(expected(xr, xk), expected(yr, yk)))
check_eq("Dm|G", chords.from_shorthand("Dm|G"), ["G", "B", "D", "F", "A"])
check_eq("Em|C", chords.from_shorthand("Em|C"), ["C", "E", "G", "E", "G", "B"])
check_eq("G5|C", chords.from_shorthand("G5|C"), ["C", "E", "G", "D"])
check_eq("triple poly", chords.from_shorthand("Am|Dm|G7"),
         poly(expected("A", "m"), poly(expected("D", "m"), expected("G", "7"))))
check_eq("poly with slashes", chords.from_shorthand("C/E|G7/B"),
         poly(["E"] + expected("C", ""), ["B"] + expected("G", "7")))
check_eq("poly alias", chords.from_shorthand("Dmin7|Gmaj7"),
         poly(expected("D", "m7"), expected("G", "M7")))

# 6. NC and lists
check_eq("NC", chords.from_shorthand("NC"), [])
check_eq("NC again", chords.from_shorthand("NC"), [])
check_eq("list", chords.from_shorthand(["C", "Dm7", "NC", "G7/B", "Dm|G"]),
         [expected("C", ""), expected("D", "m7"), [], ["B"] + expected("G", "7"),
          ["G", "B", "D", "F", "A"]])
check_eq("empty list", chords.from_shorthand([]), [])
long_list = [r + k for r in ROOTS for k in ("m7", "dim7", "13")]
check_eq("long list", chords.from_shorthand(long_list),
         [expected(r, k) for r in ROOTS for k in ("m7", "dim7", "13")])

# 7. refusals (each twice)
for _ in range(2):
    for bad in ["Cxyz", "Cm8", "C7#12", "Ebfoo", "C{", "C{0}", "C%s", "C%", "C\n", "Cm7\n", "Cé",
                "Cm7 ", "C m7", "CNC", "Cdim77", "F#M7+6", "C" + "x" * 5000, "Cm7|Gxyz", "Cxyz|G",
                "Cxyz/E", "C♯"]:
        check_raises("unknown shorthand %r" % bad[:30], FormatError, chords.from_shorthand, bad)
    for bad in ["Hm7", "h", "cm7", "xyz", "{", "%s", "%", "\n", "ém7", " Cm7", "7", "#C", "m",
                "min7", "|C", "/C", "Q" * 5000, "C/H", "Cm7/x", "C/E%", "C/{", "Cm7|H7", "Hm|C",
                "C/é", "C/e", "1", "NCC"]:
        check_raises("bad root %r" % bad[:30], NoteFormatError, chords.from_shorthand, bad)
    check_raises("list with bad item", FormatError, chords.from_shorthand, ["C", "Cxyz"])
    check_raises("list with bad root", NoteFormatError, chords.from_shorthand, ["C", "Hm"])

# 8. results are independent objects; many distinct inputs in one process
a = chords.from_shorthand("Cm7")
a.append("X")
a[0] = "Q"
check_eq("after mutating an earlier result", chords.from_shorthand("Cm7"), ["C", "Eb", "G", "Bb"])
p = chords.from_shorthand("Dm|G")
p.reverse()
check_eq("after mutating an earlier polychord", chords.from_shorthand("Dm|G"), ["G", "B", "D", "F", "A"])
check_eq("G alone after polychord", chords.from_shorthand("G"), ["G", "B", "D"])
t = chords.minor_triad("C")
t.append("Z")
check_eq("named builder fresh", chords.minor_triad("C"), ["C", "Eb", "G"])
for i in range(1, 400):
    root = "F" + "#" * i
    got = chords.from_shorthand(root + "m")
    count[0] += 1
    if not (got[0] == root and pitch(got[1]) == (pitch(root) + 3) % 12 and got[1][0] == "A"
            and pitch(got[2]) == (pitch(root) + 7) % 12 and got[2][0] == "C"):
        fail("many roots: %r -> %r" % (root[:12], got))
        break
for key in sorted(FORMULA):
    for root in ("C", "Gb"):
        check_eq("re-run %r" % (root + key), chords.from_shorthand(root + key), expected(root, key))

finish()
