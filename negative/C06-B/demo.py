import mingus, os; assert os.path.realpath(mingus.__file__).startswith(os.path.realpath(os.path.dirname(__file__)))
"""Direct check of property C06 (chord shorthand builds exactly the chord its
formula prescribes on every root) through the public API only.

Exit status 0 if the statement holds on all cases, 1 (with messages) otherwise.
"""
import random
import sys

from mingus.core import chords
from mingus.core.mt_exceptions import FormatError, NoteFormatError

LETTERS = "CDEFGAB"
NATURAL = {"C": 0, "D": 2, "E": 4, "F": 5, "G": 7, "A": 9, "B": 11}

# interval name -> (letter steps above the root, semitones above the root)
IV = {
    "m2": (1, 1), "M2": (1, 2), "A2": (1, 3),
    "m3": (2, 3), "M3": (2, 4),
    "P4": (3, 5), "A4": (3, 6),
    "d5": (4, 6), "P5": (4, 7), "A5": (4, 8),
    "M6": (5, 9),
    "d7": (6, 9), "m7": (6, 10), "M7": (6, 11),
}

# meaning -> formula (notes after the root, in order)
MEANING_FORMULA = {
    "minor triad": "m3 P5",
    "major triad": "M3 P5",
    "diminished triad": "m3 d5",
    "augmented triad": "M3 A5",
    "augmented minor seventh": "M3 A5 m7",
    "augmented major seventh": "M3 A5 M7",
    "suspended seventh": "P4 P5 m7",
    "suspended fourth triad": "P4 P5",
    "suspended second triad": "M2 P5",
    "eleventh": "P5 m7 P4",
    "suspended fourth ninth": "P4 P5 m2",
    "minor seventh": "m3 P5 m7",
    "major seventh": "M3 P5 M7",
    "dominant seventh": "M3 P5 m7",
    "half diminished seventh": "m3 d5 m7",
    "diminished seventh": "m3 d5 d7",
    "minor/major seventh": "m3 P5 M7",
    "minor sixth": "m3 P5 M6",
    "major sixth": "M3 P5 M6",
    "dominant sixth": "M3 P5 M6 m7",
    "sixth ninth": "M3 P5 M6 M2",
    "dominant ninth": "M3 P5 m7 M2",
    "dominant flat ninth": "M3 P5 m7 m2",
    "dominant sharp ninth": "M3 P5 m7 A2",
    "major ninth": "M3 P5 M7 M2",
    "minor ninth": "m3 P5 m7 M2",
    "lydian dominant seventh": "M3 P5 m7 A4",
    "minor eleventh": "m3 P5 m7 P4",
    "major eleventh": "M3 P5 M7 M2 P4",
    "major thirteenth": "M3 P5 M7 M2 M6",
    "minor thirteenth": "m3 P5 m7 M2 M6",
    "dominant thirteenth": "M3 P5 m7 M2 M6",
    "dominant flat five": "M3 d5 m7",
    "hendrix chord": "M3 P5 m7 m3",
    "perfect fifth": "P5",
}

# the shorthand keys the documentation of from_shorthand lists, with meanings
EXPECTED_KEYS = {
    "m": "minor triad", "M": "major triad", "": "major triad", "dim": "diminished triad",
    "aug": "augmented triad", "+": "augmented triad", "7#5": "augmented minor seventh",
    "M7+5": "augmented minor seventh", "M7+": "augmented major seventh",
    "m7+": "augmented minor seventh", "7+": "augmented major seventh",
    "sus47": "suspended seventh", "7sus4": "suspended seventh", "sus4": "suspended fourth triad",
    "sus2": "suspended second triad", "sus": "suspended fourth triad", "11": "eleventh",
    "add11": "eleventh", "sus4b9": "suspended fourth ninth", "susb9": "suspended fourth ninth",
    "m7": "minor seventh", "M7": "major seventh", "dom7": "dominant seventh",
    "7": "dominant seventh", "m7b5": "half diminished seventh", "dim7": "diminished seventh",
    "m/M7": "minor/major seventh", "mM7": "minor/major seventh", "m6": "minor sixth",
    "M6": "major sixth", "6": "major sixth", "6/7": "dominant sixth", "67": "dominant sixth",
    "6/9": "sixth ninth", "69": "sixth ninth", "9": "dominant ninth", "add9": "dominant ninth",
    "7b9": "dominant flat ninth", "7#9": "dominant sharp ninth", "M9": "major ninth",
    "m9": "minor ninth", "7#11": "lydian dominant seventh", "m11": "minor eleventh",
    "M11": "major eleventh", "M13": "major thirteenth", "m13": "minor thirteenth",
    "13": "dominant thirteenth", "add13": "dominant thirteenth", "7b5": "dominant flat five",
    "hendrix": "hendrix chord", "7b12": "hendrix chord", "5": "perfect fifth",
}

ROOTS = [l + a for l in LETTERS for a in ("", "#", "b", "##", "bb")]
FAR_ROOTS = ["C###", "Fbbb", "B###", "Ebbb", "G####", "Abbbb"]
SAMPLE_ROOTS = ["C", "F#", "Bb", "E##", "Abb", "B", "Db"]

failures = []
cases = [0]


def fail(msg):
    failures.append(msg)
    if len(failures) <= 25:
        print("FAIL: " + msg)


def check(cond, msg):
    cases[0] += 1
    if not cond:
        fail(msg)


def pitch(note):
    """Pitch class of a note name (letter plus sharps/flats); None if malformed."""
    if not isinstance(note, str) or not note or note[0] not in NATURAL:
        return None
    if any(c not in "#b" for c in note[1:]):
        return None
    return (NATURAL[note[0]] + note.count("#") - note[1:].count("b")) % 12


def matches_formula(chord, root, formula):
    """chord starts on root; every further note sits on the prescribed letter
    at the prescribed semitone distance."""
    if not isinstance(chord, list):
        return False
    steps = [IV[name] for name in formula.split()]
    if len(chord) != len(steps) + 1 or chord[0] != root:
        return False
    base = pitch(root)
    pos = LETTERS.index(root[0])
    for note, (letter_steps, semitones) in zip(chord[1:], steps):
        p = pitch(note)
        if p is None:
            return False
        if note[0] != LETTERS[(pos + letter_steps) % 7]:
            return False
        if p != (base + semitones) % 12:
            return False
    return True


def build(text):
    return chords.from_shorthand(text)


def outcome(text):
    try:
        return ("ok", chords.from_shorthand(text))
    except (FormatError, NoteFormatError) as e:
        return ("rejected", type(e))
    except Exception as e:  # any other exception
        return ("other", type(e))


# 1. key sets ---------------------------------------------------------------
known = set(chords.chord_shorthand)
meant = set(chords.chord_shorthand_meaning)
check(known == meant, "constructible keys != keys with a meaning: %r" % sorted(known ^ meant))
check(known == set(EXPECTED_KEYS), "key set differs from documented set: %r" % sorted(known ^ set(EXPECTED_KEYS)))
for k in sorted(meant & set(EXPECTED_KEYS)):
    check(
        chords.chord_shorthand_meaning[k].strip() == EXPECTED_KEYS[k],
        "meaning of %r is %r" % (k, chords.chord_shorthand_meaning[k]),
    )

# 2. formula on every root ----------------------------------------------------
for k in sorted(known & set(EXPECTED_KEYS)):
    formula = MEANING_FORMULA[EXPECTED_KEYS[k]]
    for root in ROOTS + FAR_ROOTS:
        try:
            got = build(root + k)
        except Exception as e:
            check(False, "%s raised %r" % (root + k, e))
            continue
        check(matches_formula(got, root, formula), "%s -> %r does not match %s" % (root + k, got, formula))
        # the table entry itself builds the same chord
        try:
            via_table = chords.chord_shorthand[k](root)
        except Exception as e:
            via_table = repr(e)
        check(via_table == got, "chord_shorthand[%r](%r) = %r but from_shorthand gives %r" % (k, root, via_table, got))

# a few hand-written expectations from the statement
for text, want in [
    ("Cm7", ["C", "Eb", "G", "Bb"]),
    ("C7#11", ["C", "E", "G", "Bb", "F#"]),
    ("Cdim7", ["C", "Eb", "Gb", "Bbb"]),
    ("Fdim7", ["F", "Ab", "Cb", "Ebb"]),
    ("Cbm7", ["Cb", "Ebb", "Gb", "Bbb"]),
    ("G#M7", ["G#", "B#", "D#", "F##"]),
    ("Amin", ["A", "C", "E"]),
    ("Am/M7", ["A", "C", "E", "G#"]),
    ("A/G", ["G", "A", "C#", "E"]),
    ("Dm|G", ["G", "B", "D", "F", "A"]),
    ("Am7|G7", ["G", "B", "D", "F", "A", "C", "E", "G"]),
]:
    check(outcome(text) == ("ok", want), "%s -> %r, expected %r" % (text, outcome(text), want))

# 3. same meaning -> same chord ----------------------------------------------
by_meaning = {}
for k, m in chords.chord_shorthand_meaning.items():
    by_meaning.setdefault(m, []).append(k)
for m, ks in sorted(by_meaning.items()):
    for root in ROOTS:
        built = [outcome(root + k) for k in ks]
        check(all(b == built[0] and b[0] == "ok" for b in built), "keys %r (%s) differ on %s: %r" % (ks, m, root, built))

# 4. named builder functions ----------------------------------------------------
for m, ks in sorted(by_meaning.items()):
    fname = m.strip().replace(" ", "_").replace("/", "_")
    fn = getattr(chords, fname, None)
    if fn is None:
        check(m.strip() in ("perfect fifth",), "no builder function named %s" % fname)
        continue
    for root in ROOTS:
        try:
            got = fn(root)
        except Exception as e:
            got = repr(e)
        check(got == outcome(root + ks[0])[1], "%s(%r) = %r != from_shorthand(%r)" % (fname, root, got, root + ks[0]))
for root in ROOTS:
    check(chords.minor_seventh_flat_five(root) == build(root + "m7b5"), "minor_seventh_flat_five(%r)" % root)
    check(chords.suspended_triad(root) == build(root + "sus"), "suspended_triad(%r)" % root)

# 5. alias spellings ---------------------------------------------------------------
alias_keys = [k for k in sorted(known) if ("m" in k or "M" in k) and k not in ("dim", "dim7", "dom7")]
for k in alias_keys:
    variants = set()
    for lo in ("min", "mi", "-"):
        for up in ("maj", "ma"):
            variants.add(k.replace("m", lo).replace("M", up))
    for root in SAMPLE_ROOTS:
        want = outcome(root + k)
        for v in sorted(variants):
            check(outcome(root + v) == want and want[0] == "ok", "%s != %s (%r vs %r)" % (root + v, root + k, outcome(root + v), want))

# 6. slash chords ----------------------------------------------------------------------
for k in sorted(known):
    for root in SAMPLE_ROOTS[:4]:
        base = outcome(root + k)
        for bass in ("G", "Bb", "F#", "Ebb", "C##", "A"):
            got = outcome(root + k + "/" + bass)
            check(base[0] == "ok" and got == ("ok", [bass] + base[1]), "%s/%s -> %r, chord is %r" % (root + k, bass, got, base))

# 7. polychords ---------------------------------------------------------------------------
rnd = random.Random(6)
keys_sorted = sorted(known)
for i in range(400):
    x = rnd.choice(ROOTS) + rnd.choice(keys_sorted)
    y = rnd.choice(ROOTS) + rnd.choice(keys_sorted)
    if i % 5 == 0:  # force a shared boundary note: X starts on the last note of Y
        ylast = build(y)[-1]
        x = ylast + rnd.choice(keys_sorted)
    xs, ys = build(x), build(y)
    want = list(ys)
    for n in xs:
        if n != want[-1]:
            want.append(n)
    got = outcome(x + "|" + y)
    check(got == ("ok", want), "%s|%s -> %r, expected %r" % (x, y, got, want))

# 8. NC, lists ---------------------------------------------------------------------------------
check(outcome("NC") == ("ok", []), "NC -> %r" % (outcome("NC"),))
for i in range(40):
    items = [rnd.choice(["NC", rnd.choice(ROOTS) + rnd.choice(keys_sorted)]) for _ in range(rnd.randint(0, 5))]
    try:
        got = chords.from_shorthand(list(items))
    except Exception as e:
        got = repr(e)
    check(got == [build(t) for t in items], "list %r -> %r" % (items, got))
# results are independent lists
a = build("Cm7")
a.append("X")
check(build("Cm7") == ["C", "Eb", "G", "Bb"], "result of a previous call leaked into Cm7")

# 9. rejection -------------------------------------------------------------------------------
for root in SAMPLE_ROOTS:
    for junk in ("xyz", "m8", "q", "M77", "sus5", "7b", "mm", "dimm", "13#", "maj7x", "add", "0", "m7b6", " 7", "7 "):
        got = outcome(root + junk)
        check(got == ("rejected", FormatError), "unknown shorthand %r -> %r" % (root + junk, got))
for bad in ("H", "h7", "c", "cm7", "X#m7", "1", "mC", "#C", "bB7", " C", "?", "Hm7", "Zdim", "/C", "|C", "m", "7"):
    got = outcome(bad)
    check(got == ("rejected", NoteFormatError), "bad root %r -> %r" % (bad, got))
for bad in ("C/H", "Cm7/x", "C/7", "F#m/Gx"):
    got = outcome(bad)
    check(got[0] == "rejected", "bad slash bass %r -> %r" % (bad, got))
# arbitrary strings: either a well-formed chord comes back or the input is
# rejected with FormatError / NoteFormatError
alphabet = "ABCDEFGH#bmM7965su4dimajno-+x |/"
n_arbitrary = 0
while n_arbitrary < 1500:
    s = "".join(rnd.choice(alphabet) for _ in range(rnd.randint(1, 7)))
    parts = s.replace("|", "/").split("/")
    if any(p == "" or p in ("NC", "N.C.") for p in parts):
        continue  # empty root / bass / partner: outside the statement
    n_arbitrary += 1
    got = outcome(s)
    if got[0] == "ok":
        check(isinstance(got[1], list) and all(pitch(n) is not None for n in got[1]), "%r -> %r" % (s, got))
    else:
        check(got[0] == "rejected", "arbitrary string %r -> %r" % (s, got))

if failures:
    print("%d of %d checks FAILED" % (len(failures), cases[0]))
    sys.exit(1)
print("C06 holds on %d checks" % cases[0])
sys.exit(0)
