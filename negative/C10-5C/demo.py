import mingus, os; assert os.path.realpath(mingus.__file__).startswith(os.path.realpath(os.path.dirname(__file__)))
import copy
import itertools
import operator
import random
import sys

from mingus.containers.note import Note
from mingus.containers.mt_exceptions import NoteFormatError
from mingus.core import notes

FAILS = []


def check(cond, msg):
    if not cond:
        FAILS.append(msg)


NATURAL = {"C": 0, "D": 2, "E": 4, "F": 5, "G": 7, "A": 9, "B": 11}
ACCS = ["", "#", "##", "b", "bb"]
NAMES = [l + a for l in "CDEFGAB" for a in ACCS]
OCTAVES = list(range(10))


def expected(name, octave):
    return 12 * octave + NATURAL[name[0]] + name.count("#") - name[1:].count("b")


# 1. integer value + the four ways of setting a note
all_notes = []
for name in NAMES:
    for octave in OCTAVES:
        want = expected(name, octave)
        n = Note(name, octave)
        all_notes.append((want, n))
        check(int(n) == want, "int(Note(%r,%r)) = %r, want %r" % (name, octave, int(n), want))
        check(n.name == name and n.octave == octave, "name/octave not kept for %r %r" % (name, octave))
        text = "%s-%d" % (name, octave)
        t = Note(text)
        check(int(t) == want and t.name == name and t.octave == octave, "Note(%r) wrong" % text)
        t2 = Note().set_note(text)
        check(int(t2) == want, "set_note(%r) wrong" % text)
        t3 = Note(name=name, octave=octave)
        check(int(t3) == want, "keyword construction wrong for %r" % text)
        # printed form
        printed = repr(n)
        check(printed == "'%s'" % text, "repr(%r) = %r" % (text, printed))
        p = Note(printed.strip("'"))
        check(int(p) == want, "from printed form %r wrong" % printed)
        check(int(Note(str(n).strip("'"))) == want, "from str form wrong for %r" % text)
        # from another note
        c = Note(n)
        check(int(c) == want and c.name == name and c.octave == octave, "Note(note) wrong for %r" % text)
        check(c is not n, "Note(note) returned same object")
        # from the integer
        if want >= 0:
            i = Note(want)
            check(int(i) == want, "Note(%d) -> %d" % (want, int(i)))
            i2 = Note().from_int(want)
            check(int(i2) == want, "from_int(%d) -> %d" % (want, int(i2)))

for k in range(128):
    n = Note(k)
    check(int(n) == k, "Note(%d) has value %d" % (k, int(n)))
    check(int(Note().from_int(k)) == k, "from_int(%d)" % k)
    check(int(Note(repr(n).strip("'"))) == k, "printed form of int %d" % k)
    check(int(Note(n)) == k, "copy of int note %d" % k)
    check(notes.is_valid_note(n.name), "from_int(%d) gave invalid name %r" % (k, n.name))

# 2. comparisons agree with the integers, for all ordered pairs of a sample
OPS = [operator.lt, operator.le, operator.eq, operator.ne, operator.gt, operator.ge]
rng = random.Random(10)
sample = rng.sample(all_notes, 70) + [(int(Note("B#", 3)), Note("B#", 3)), (int(Note("C", 4)), Note("C", 4)),
                                      (int(Note("Dbb", 4)), Note("Dbb", 4)), (int(Note("Cb", 0)), Note("Cb", 0))]
for (ia, a), (ib, b) in itertools.product(sample, repeat=2):
    for op in OPS:
        got = op(a, b)
        check(got is op(ia, ib) or got == op(ia, ib),
              "%s(%r, %r) = %r but ints %d, %d" % (op.__name__, a, b, got, ia, ib))
check(Note("B#", 3) == Note("C", 4) == Note("Dbb", 4), "enharmonic notes not equal")
check(not (Note("B#", 3) != Note("C", 4)), "enharmonic notes unequal under !=")
shuffled = [n for _, n in all_notes]
rng.shuffle(shuffled)
srt = sorted(shuffled)
check([int(x) for x in srt] == sorted(int(x) for x in shuffled), "sorting is not by pitch")
check(max(shuffled) == Note("B##", 9) and int(min(shuffled)) == -2, "min/max wrong")
# same object on both sides
x = Note("F#", 5)
check(x == x and x <= x and x >= x and not x < x and not x > x and not x != x, "self comparison")

# 3. Hertz
for sp in (440, 415, 432, 442.5, 466.16, 220, 880.0):
    a4 = Note("A", 4).to_hertz(sp)
    check(abs(a4 - sp) <= 1e-9 * sp, "A-4 at %r is %r" % (sp, a4))
    a4k = Note("A", 4).to_hertz(standard_pitch=sp)
    check(abs(a4k - sp) <= 1e-9 * sp, "A-4 keyword at %r is %r" % (sp, a4k))
    for k in range(128):
        n = Note(k)
        hz = n.to_hertz(sp)
        check(hz > 0, "to_hertz not positive")
        want = sp * 2.0 ** ((k - 57) / 12.0)
        check(abs(hz - want) <= 1e-9 * want, "to_hertz(%d, %r) = %r want %r" % (k, sp, hz, want))
        if k + 12 < 128:
            up = Note(k + 12).to_hertz(sp)
            check(abs(up - 2 * hz) <= 1e-9 * up, "octave not doubling at %d" % k)
        back = Note().from_hertz(hz, sp)
        check(int(back) == k, "hz roundtrip %d at %r -> %d" % (k, sp, int(back)))
        for cents in (-40, -25, -7, 13, 40):
            det = hz * 2.0 ** (cents / 1200.0)
            back = Note("E", 2).from_hertz(det, standard_pitch=sp)
            check(int(back) == k, "detuned (%d cents) roundtrip %d at %r -> %d" % (cents, k, sp, int(back)))
            check(isinstance(back, Note), "from_hertz does not return the note")
check(Note("A", 4).to_hertz() == 440, "default standard pitch")
check(int(Note().from_hertz(440)) == 57, "default from_hertz")
for name in NAMES:
    for octave in (0, 3, 9):
        n = Note(name, octave)
        want = 440 * 2.0 ** ((expected(name, octave) - 57) / 12.0)
        check(abs(n.to_hertz() - want) <= 1e-9 * want, "to_hertz for %r" % n)

# 4. Helmholtz shorthand
for name in NAMES:
    for octave in OCTAVES:
        n = Note(name, octave)
        sh = n.to_shorthand()
        check(isinstance(sh, str), "shorthand is not text")
        r = Note("G", 7).from_shorthand(sh)
        check(r.name == name and r.octave == octave,
              "shorthand %r of %s-%d read back as %s-%d" % (sh, name, octave, r.name, r.octave))
        check(n.name == name and n.octave == octave, "to_shorthand changed the note")
for text, want in (("C,,", "C-0"), ("C", "C-2"), ("c", "C-3"), ("c'", "C-4"), ("c''''''", "C-9")):
    check(Note(want).to_shorthand() == text, "documented shorthand %r" % text)
    check(repr(Note().from_shorthand(text)) == "'%s'" % want, "documented shorthand read %r" % text)

# 5. rejections
for v in (-1000, -2, -1, 128, 129, 1000, 10 ** 30):
    for how in ("ctor", "dyn", "set_note", "setter"):
        n = Note("D", 3, velocity=5, channel=2)
        try:
            if how == "ctor":
                Note("C", 4, velocity=v)
            elif how == "dyn":
                Note("C", 4, {"velocity": v})
            elif how == "set_note":
                n.set_note("E", 5, velocity=v)
            else:
                n.set_velocity(v)
        except Exception:
            pass
        else:
            check(False, "velocity %r accepted via %s" % (v, how))
        check(n.velocity == 5, "refused velocity changed the note")
for v in (0, 1, 63, 64, 126, 127):
    check(Note("C", 4, velocity=v).velocity == v, "velocity %d refused" % v)
    n = Note()
    n.set_velocity(v)
    check(n.velocity == v, "set_velocity %d" % v)
    check(Note("C", 4, {"velocity": v}).velocity == v, "dynamics velocity %d" % v)
for c in (-1000, -2, -1, 16, 17, 1000, 10 ** 30):
    for how in ("ctor", "dyn", "set_note", "setter"):
        n = Note("D", 3, velocity=5, channel=2)
        try:
            if how == "ctor":
                Note("C", 4, channel=c)
            elif how == "dyn":
                Note("C", 4, {"channel": c})
            elif how == "set_note":
                n.set_note("E", 5, channel=c)
            else:
                n.set_channel(c)
        except Exception:
            pass
        else:
            check(False, "channel %r accepted via %s" % (c, how))
        check(n.channel == 2, "refused channel changed the note")
for c in range(16):
    check(Note("C", 4, channel=c).channel == c, "channel %d refused" % c)
    n = Note()
    n.set_channel(c)
    check(n.channel == c, "set_channel %d" % c)
    check(Note("C", 4, {"channel": c}).channel == c, "dynamics channel %d" % c)

BAD = ["H", "c", "C 23", "C# 123", "C-4-5", "C--4", "C-", "C-x", "Cx", "C#x", "X#", "1", "#", "b", "C#-4b",
       "C{}", "C%s", "C%", "C\n", "C-4\n", "Ç", "C♯", "C-٤x", " C", "C ", "Cb b", "do", "C" + "#" * 50 + "!",
       "H" * 5000, "C-4-", "C/4", "C_4"]
for bad in BAD:
    for repeat in range(2):
        n = Note("D", 3)
        try:
            n.set_note(bad)
        except NoteFormatError:
            pass
        except Exception as e:
            check(False, "set_note(%r) raised %s, not NoteFormatError" % (bad[:30], type(e).__name__))
        else:
            check(False, "set_note(%r) accepted" % bad[:30])
        check(n.name == "D" and n.octave == 3, "refused name %r changed the note" % bad[:30])
        try:
            Note(bad)
        except NoteFormatError:
            pass
        except Exception as e:
            check(False, "Note(%r) raised %s" % (bad[:30], type(e).__name__))
        else:
            check(False, "Note(%r) accepted" % bad[:30])
for junk in (None, 3.5, [1], object()):
    try:
        Note(junk)
    except NoteFormatError:
        pass
    except Exception as e:
        check(False, "Note(%r) raised %s" % (junk, type(e).__name__))
    else:
        check(False, "Note(%r) accepted" % (junk,))
# valid after refused: no poisoning
check(int(Note("C#", 4)) == 49 and int(Note("C-4")) == 48, "valid note after refusals")
long_name = "C" + "#" * 300 + "b" * 299
check(int(Note(long_name, 2)) == 25, "very long name")

# 6. copies are independent
for name, octave in (("C", 4), ("Bb", 2), ("F##", 9), ("Ebb", 0)):
    for make in (lambda n: Note(n), copy.copy, copy.deepcopy):
        src = Note(name, octave, velocity=33, channel=7)
        before = int(src)
        dup = make(src)
        check(dup is not src, "copy is the same object")
        check(int(dup) == before and dup == src, "copy differs in pitch")
        check(dup.name == name and dup.octave == octave, "copy differs in name")
        check(dup.velocity == 33 and dup.channel == 7, "copy lost dynamics")
        dup.set_note("G", 1)
        dup.set_velocity(100)
        dup.set_channel(0)
        check(int(src) == before and src.name == name and src.octave == octave, "changing copy changed source")
        check(src.velocity == 33 and src.channel == 7, "changing copy changed source dynamics")
        dup2 = make(src)
        src.octave_up()
        src.augment()
        src.from_int(0)
        src.name = "A"
        src.octave = 6
        check(int(src) == 81, "direct attribute change not seen: %d" % int(src))
        check(int(dup2) == before, "changing source changed copy")
# a note handed to itself
n = Note("Eb", 5)
n.__init__(n)
check(n.name == "Eb" and n.octave == 5, "note re-initialised from itself")
# mutation keeps the value in step
n = Note("C", 4)
n.augment(); check(int(n) == 49, "augment")
n.diminish(); n.diminish(); check(int(n) == 47, "diminish")
n.change_octave(2); check(int(n) == 71, "change_octave")
n.from_int(5); check(int(n) == 5, "from_int after change")
n.set_note("G#-7"); check(int(n) == 92, "set_note after change")
n.from_hertz(440); check(int(n) == 57, "from_hertz after change")
n.from_shorthand("d'"); check(int(n) == 50, "from_shorthand after change")

# 7. many distinct names in one process (caches must not go wrong)
for round_ in range(3):
    for k in range(1, 700):
        nm = "CDEFGAB"[k % 7] + ("#" if k % 2 else "b") * (k % 23) + ("b" if k % 3 else "#") * (k % 5)
        want = 12 * 4 + NATURAL[nm[0]] + nm.count("#") - nm[1:].count("b")
        got = int(Note(nm, 4))
        check(got == want, "many names: %r -> %d want %d" % (nm, got, want))

if FAILS:
    print("PROPERTY VIOLATED (%d failures); first ones:" % len(FAILS))
    for f in FAILS[:15]:
        print("  -", f)
    sys.exit(1)
print("ok")
sys.exit(0)
