import mingus, os; assert os.path.realpath(mingus.__file__).startswith(os.path.realpath(os.path.dirname(__file__)))
"""Direct check of property C18 (sequencer playback event stream) through the
public API.  Exit 0 when the statement holds on every case, 1 otherwise."""
import random
import sys
from fractions import Fraction

from mingus.containers import Bar, Composition, Note, NoteContainer, Track
from mingus.containers.instrument import MidiInstrument, Piano
from mingus.midi.sequencer import Sequencer
from mingus.midi.sequencer_observer import SequencerObserver

TOL = 1e-9
CASES = [0]


class Failure(Exception):
    pass


def check(cond, msg):
    if not cond:
        raise Failure(msg)


class RecSeq(Sequencer):
    def init(self):
        self.log = []

    def play_event(self, note, channel, velocity):
        self.log.append(("play", note, channel, velocity))

    def stop_event(self, note, channel):
        self.log.append(("stop", note, channel))

    def cc_event(self, channel, control, value):
        self.log.append(("cc", channel, control, value))

    def instr_event(self, channel, instr, bank):
        self.log.append(("instr", channel, instr, bank))

    def sleep(self, seconds):
        self.log.append(("sleep", seconds))


class RecObs(SequencerObserver):
    def __init__(self):
        self.log = []

    def play_int_note_event(self, int_note, channel, velocity):
        self.log.append(("play", int_note, channel, velocity))

    def stop_int_note_event(self, int_note, channel):
        self.log.append(("stop", int_note, channel))

    def cc_event(self, channel, control, value):
        self.log.append(("cc", channel, control, value))

    def instr_event(self, channel, instr, bank):
        self.log.append(("instr", channel, instr, bank))

    def sleep(self, seconds):
        self.log.append(("sleep", seconds))


def rig():
    s = RecSeq()
    o = RecObs()
    s.attach(o)
    return s, o


def same_events(a, b, what):
    check(len(a) == len(b), "%s: %d events instead of %d\n got  %r\n want %r" % (what, len(a), len(b), a, b))
    for i, (x, y) in enumerate(zip(a, b)):
        if x[0] == "sleep" and y[0] == "sleep":
            ok = abs(x[1] - y[1]) <= TOL * max(1.0, abs(y[1]))
        else:
            ok = tuple(x) == tuple(y)
        check(ok, "%s: event %d is %r, expected %r" % (what, i, x, y))


def check_balanced(log, what):
    sounding = {}
    for ev in log:
        if ev[0] == "play":
            key = (ev[1], ev[2])
            check(sounding.get(key, 0) == 0, "%s: %r started twice" % (what, key))
            sounding[key] = 1
        elif ev[0] == "stop":
            key = (ev[1], ev[2])
            check(sounding.get(key, 0) == 1, "%s: %r stopped but not sounding" % (what, key))
            sounding[key] = 0
    check(not any(sounding.values()), "%s: left sounding %r" % (what, sounding))


# ---------------------------------------------------------------- generators

NAMES = ["C", "C#", "Db", "D", "Eb", "E", "F", "F#", "G", "Ab", "A", "Bb", "B", "Cb", "B#"]


def rnd_note(rng, channel=None):
    n = Note(rng.choice(NAMES), rng.randint(0, 8))
    n.channel = rng.randint(0, 15) if channel is None else channel
    n.velocity = rng.randint(0, 127)
    return n


def rnd_nc(rng, channel=None, size=None):
    k = size if size is not None else rng.choice([1, 1, 1, 2, 3, 4])
    nc = NoteContainer()
    for _ in range(k):
        nc.add_notes(rnd_note(rng, channel))
    return nc


def nc_events(nc):
    """play tuples and stop tuples of a container (or None)."""
    if nc is None:
        return [], []
    plays = [("play", int(n) + 12, n.channel, n.velocity) for n in nc]
    stops = [("stop", int(n) + 12, n.channel) for n in nc]
    return plays, stops


METERS = [(4, 4), (3, 4), (6, 8), (2, 2), (5, 4)]


def split_length(rng, total, allow_odd=True):
    """Split a Fraction of a whole note into a list of note values
    (Fractions: 4 = quarter, 8/3 = dotted quarter, 12 = triplet eighth)."""
    out = []
    left = total
    while left > 0:
        choices = [Fraction(v) for v in (1, 2, 4, 8, 16) if Fraction(1, v) <= left]
        if allow_odd:
            if Fraction(3, 8) <= left:
                choices.append(Fraction(8, 3))
            if Fraction(3, 16) <= left:
                choices.append(Fraction(16, 3))
        if not choices:
            choices = [1 / left]
        v = rng.choice(choices)
        if allow_odd and v == 4 and rng.random() < 0.2:
            out.extend([Fraction(12)] * 3)
        else:
            out.append(v)
        left -= 1 / v
    return out


def as_value(v):
    return int(v) if v.denominator == 1 else float(v)


def rnd_bar(rng, meter, channel=None, values=None, tempo_p=0.2, rest_p=0.2):
    """Return (Bar, entries); entries = [(start, value, nc_or_None, bpm_or_None)]."""
    b = Bar("C", meter)
    if values is None:
        values = split_length(rng, Fraction(meter[0], meter[1]))
    entries = []
    at = Fraction(0)
    for v in values:
        if rng.random() < rest_p:
            nc = None
        else:
            nc = rnd_nc(rng, channel)
        bpm = None
        if nc is not None and rng.random() < tempo_p:
            bpm = rng.choice([40, 60, 90, 120, 133, 180, 240, 97.5])
            nc.bpm = bpm
        check(b.place_notes(nc, as_value(v)), "generator: bar refused a note")
        entries.append((at, v, nc, bpm))
        at += 1 / v
    return b, entries


def bar_model(entries, bpm):
    evs = []
    for (_, v, nc, new) in entries:
        plays, stops = nc_events(nc)
        evs.extend(plays)
        if new is not None:
            bpm = new
        evs.append(("sleep", 240.0 / bpm / float(v)))
        evs.extend(stops)
    return evs, bpm


# --------------------------------------------------------------------- cases


def case_notes(rng):
    for _ in range(60):
        s, o = rig()
        n = rnd_note(rng)
        r1 = s.play_Note(n, rng.randint(0, 15), rng.randint(0, 127))
        r2 = s.stop_Note(n, rng.randint(0, 15))
        want = [("play", int(n) + 12, n.channel, n.velocity), ("stop", int(n) + 12, n.channel)]
        same_events(s.log, want, "note %r" % n)
        same_events(o.log, s.log, "observer/note")
        check(r1 is True and r2 is True, "play_Note/stop_Note result")
        CASES[0] += 1
    # keyword form
    s, o = rig()
    n = rnd_note(rng)
    s.play_Note(note=n, channel=3, velocity=5)
    s.stop_Note(note=n, channel=3)
    same_events(s.log, [("play", int(n) + 12, n.channel, n.velocity), ("stop", int(n) + 12, n.channel)], "kw note")
    same_events(o.log, s.log, "observer/kw note")
    CASES[0] += 1


def case_containers(rng):
    for _ in range(60):
        s, o = rig()
        nc = rnd_nc(rng, size=rng.randint(0, 6))
        r1 = s.play_NoteContainer(nc, rng.randint(0, 15), rng.randint(0, 127))
        r2 = s.stop_NoteContainer(nc, rng.randint(0, 15))
        plays, stops = nc_events(nc)
        same_events(s.log, plays + stops, "container %r" % nc)
        same_events(o.log, s.log, "observer/container")
        check_balanced(s.log, "container")
        check(r1 is True and r2 is True, "container result")
        CASES[0] += 1
    s, o = rig()
    check(s.play_NoteContainer(None) is True and s.stop_NoteContainer(None) is True, "rest container")
    check(s.log == [] and o.log == [], "rest container emitted events")
    CASES[0] += 1


def case_bars(rng):
    for i in range(120):
        s, o = rig()
        meter = rng.choice(METERS)
        bar, entries = rnd_bar(rng, meter)
        bpm = rng.choice([120, 60, 200, 75, 33.3])
        if i % 3 == 0:
            res = s.play_Bar(bar)
            bpm = 120
        elif i % 3 == 1:
            res = s.play_Bar(bar, rng.randint(0, 15), bpm)
        else:
            res = s.play_Bar(bar=bar, channel=rng.randint(0, 15), bpm=bpm)
        want, final = bar_model(entries, bpm)
        same_events(s.log, want, "bar %r" % bar)
        same_events(o.log, s.log, "observer/bar")
        check_balanced(s.log, "bar")
        check(res == {"bpm": final}, "bar result %r, expected bpm %r" % (res, final))
        CASES[0] += 1
    # a bar of rests only: silence of its length
    s, o = rig()
    b = Bar()
    for _ in range(4):
        b.place_rest(4)
    res = s.play_Bar(b, 1, 60)
    same_events(s.log, [("sleep", 1.0)] * 4, "rest bar")
    same_events(o.log, s.log, "observer/rest bar")
    check(res == {"bpm": 60}, "rest bar result")
    CASES[0] += 1


def rnd_track(rng, nbars, meter, channel=None, instrument=None, values_per_bar=None, **kw):
    t = Track(instrument)
    all_entries = []
    for k in range(nbars):
        vals = values_per_bar[k] if values_per_bar is not None else None
        bar, entries = rnd_bar(rng, meter, channel, vals, **kw)
        t.add_bar(bar)
        all_entries.append(entries)
    return t, all_entries


def case_tracks_single(rng):
    for i in range(60):
        s, o = rig()
        meter = rng.choice(METERS)
        nbars = rng.randint(1, 5) if i else 40
        t, bars = rnd_track(rng, nbars, meter)
        bpm = rng.choice([120, 100, 48])
        res = s.play_Track(t, rng.randint(0, 15), bpm)
        want = []
        for entries in bars:
            evs, bpm = bar_model(entries, bpm)
            want.extend(evs)
        same_events(s.log, want, "track")
        same_events(o.log, s.log, "observer/track")
        check_balanced(s.log, "track")
        check(res == {"bpm": bpm}, "track result %r, expected %r" % (res, bpm))
        CASES[0] += 1


def instruments(rng):
    kind = rng.randint(0, 4)
    if kind == 0:
        idx = rng.randrange(len(MidiInstrument.names))
        name = MidiInstrument.names[idx]
        # names is a list that may contain a name twice: program = first index
        return MidiInstrument(name), MidiInstrument.names.index(name)
    if kind == 1:
        return MidiInstrument(), 1
    if kind == 2:
        return MidiInstrument("no such {instrument} %s\n"), 1
    if kind == 3:
        return Piano(), 1
    return None, 1


def timeline(log):
    """(time, event) for the non-sleep events; total slept."""
    t = 0.0
    out = []
    for ev in log:
        if ev[0] == "sleep":
            check(ev[1] >= 0, "negative sleep")
            t += ev[1]
        else:
            out.append((t, ev))
    return out, t


def case_tracks_parallel(rng):
    for i in range(160):
        s, o = rig()
        ntr = rng.randint(1, 4)
        meter = rng.choice(METERS)
        nbars = rng.randint(1, 4)
        equal = i % 2 == 0
        shared = None
        if equal:
            shared = [split_length(rng, Fraction(meter[0], meter[1])) for _ in range(nbars)]
        note_channels = rng.sample(range(16), ntr)
        out_channels = rng.sample(range(16), ntr)
        tracks, models, programs = [], [], []
        for k in range(ntr):
            instr, prog = instruments(rng)
            # only one track carries tempo changes, so simultaneous changes
            # never compete
            t, bars = rnd_track(
                rng, nbars, meter, note_channels[k], None, shared,
                tempo_p=(0.25 if k == (i % ntr) else 0.0),
                rest_p=0.2,
            )
            t.instrument = instr
            tracks.append(t)
            models.append(bars)
            programs.append(prog)
        bpm0 = rng.choice([120, 90, 150])
        mode = i % 4
        if mode == 0:
            res = s.play_Tracks(tracks, out_channels, bpm0)
        elif mode == 1:
            res = s.play_Tracks(tracks=tracks, channels=out_channels, bpm=bpm0)
        elif mode == 2:
            res = s.play_Tracks(tuple(tracks), tuple(out_channels), bpm0)
        else:
            c = Composition()
            for t in tracks:
                c.add_track(t)
            if i % 8 == 3:
                res = s.play_Composition(c, None, bpm0)
                out_channels = list(range(1, ntr + 1))
            else:
                res = s.play_Composition(c, out_channels, bpm0)
        what = "tracks #%d (%d tracks, %s rhythm)" % (i, ntr, "equal" if equal else "unequal")
        same_events(o.log, s.log, "observer/" + what)

        # instrument announcements come first, one per track
        head = s.log[:ntr]
        want_head = [("instr", out_channels[k], programs[k], 0) for k in range(ntr)]
        same_events(head, want_head, what + " instruments")
        body = s.log[ntr:]
        check(not any(e[0] == "instr" for e in body), what + ": late instrument change")
        check_balanced(body, what)

        # tempo map over musical time (whole notes)
        changes = []
        bar_len = Fraction(meter[0], meter[1])
        for k in range(ntr):
            for b, entries in enumerate(models[k]):
                for (at, v, nc, new) in entries:
                    if new is not None:
                        changes.append((b * bar_len + at, new))
        changes.sort()

        def real_time(pos):
            t, cur, bpm = 0.0, Fraction(0), bpm0
            for (p, new) in changes:
                if p >= pos:
                    break
                t += float(p - cur) * 240.0 / bpm
                cur, bpm = p, new
            return t + float(pos - cur) * 240.0 / bpm

        events, slept = timeline(body)
        total = nbars * bar_len
        check(abs(slept - real_time(total)) <= 1e-7, what + ": slept %r, expected %r" % (slept, real_time(total)))
        final = changes[-1][1] if changes else bpm0
        check(res == {"bpm": final}, what + ": result %r, expected bpm %r" % (res, final))

        # per track: its notes in order, each started and stopped at the
        # right moments
        for k in range(ntr):
            mine = [(t, e) for (t, e) in events if e[2] == note_channels[k]]
            want = []
            for b, entries in enumerate(models[k]):
                for (at, v, nc, new) in entries:
                    plays, stops = nc_events(nc)
                    t0 = real_time(b * bar_len + at)
                    t1 = real_time(b * bar_len + at + 1 / v)
                    want.extend((t0, p) for p in plays)
                    want.extend((t1, q) for q in stops)
            check(len(mine) == len(want), what + ": track %d has %d events, expected %d" % (k, len(mine), len(want)))
            for (tg, eg), (tw, ew) in zip(mine, want):
                check(tuple(eg) == tuple(ew), what + ": track %d event %r, expected %r" % (k, eg, ew))
                check(abs(tg - tw) <= 1e-7, what + ": %r at %r, expected at %r" % (eg, tg, tw))
        other = [e for (_, e) in events if e[2] not in note_channels]
        check(not other, what + ": unexpected events %r" % other)
        CASES[0] += 1


def case_bars_parallel(rng):
    for i in range(40):
        s, o = rig()
        meter = rng.choice(METERS)
        n = rng.randint(1, 4)
        chans = rng.sample(range(16), n)
        bars, models = [], []
        for k in range(n):
            b, entries = rnd_bar(rng, meter, chans[k], tempo_p=0.0, rest_p=0.1)
            bars.append(b)
            models.append(entries)
        bpm = rng.choice([120, 80])
        res = s.play_Bars(bars, chans, bpm) if i % 2 else s.play_Bars(bars=bars, channels=chans, bpm=bpm)
        same_events(o.log, s.log, "observer/bars")
        check_balanced(s.log, "bars")
        events, slept = timeline(s.log)
        check(abs(slept - 240.0 / bpm * meter[0] / meter[1]) <= 1e-7, "bars: slept %r" % slept)
        check(res == {"bpm": bpm}, "bars result %r" % (res,))
        for k in range(n):
            mine = [(t, e) for (t, e) in events if e[2] == chans[k]]
            want = []
            for (at, v, nc, _) in models[k]:
                plays, stops = nc_events(nc)
                want.extend((float(at) * 240.0 / bpm, p) for p in plays)
                want.extend((float(at + 1 / v) * 240.0 / bpm, q) for q in stops)
            check(len(mine) == len(want), "bars: track %d event count" % k)
            for (tg, eg), (tw, ew) in zip(mine, want):
                check(tuple(eg) == tuple(ew) and abs(tg - tw) <= 1e-7, "bars: %r at %r, expected %r at %r" % (eg, tg, ew, tw))
        CASES[0] += 1


def case_control(rng):
    values = [-1000, -5, -1, 0, 1, 7, 64, 127, 128, 129, 130, 1000]
    for control in values:
        for value in values:
            s, o = rig()
            ch = rng.randint(0, 15)
            res = s.control_change(ch, control, value)
            bad = control < 0 or control > 128 or value < 0 or value > 128
            if bad:
                check(res is False, "cc(%r,%r) accepted" % (control, value))
                check(s.log == [] and o.log == [], "refused cc(%r,%r) emitted %r" % (control, value, s.log))
            else:
                check(res is True, "cc(%r,%r) refused" % (control, value))
                same_events(s.log, [("cc", ch, control, value)], "cc")
                same_events(o.log, s.log, "observer/cc")
            CASES[0] += 1
    for name, ctl in (("modulation", 1), ("main_volume", 7), ("pan", 10)):
        for value in values:
            s, o = rig()
            res = getattr(s, name)(2, value)
            if value < 0 or value > 128:
                check(res is False and s.log == [] and o.log == [], "%s(%r) not refused" % (name, value))
            else:
                check(res is True, "%s(%r) refused" % (name, value))
                same_events(s.log, [("cc", 2, ctl, value)], name)
                same_events(o.log, s.log, "observer/" + name)
            CASES[0] += 1
    s, o = rig()
    check(s.control_change(channel=1, control=200, value=3) is False and s.log == [] and o.log == [], "kw cc")
    check(s.control_change(channel=1, control=20, value=3) is True and s.log == o.log == [("cc", 1, 20, 3)], "kw cc ok")
    s, o = rig()
    s.set_instrument(3, 40)
    s.set_instrument(4, 41, 2)
    same_events(s.log, [("instr", 3, 40, 0), ("instr", 4, 41, 2)], "set_instrument")
    same_events(o.log, s.log, "observer/set_instrument")
    CASES[0] += 2


def case_attach(rng):
    for i in range(20):
        s = RecSeq()
        o1, o2 = RecObs(), RecObs()
        s.attach(o1)
        s.attach(o1)
        s.attach(o2)
        bar, entries = rnd_bar(rng, (4, 4))
        s.play_Bar(bar, 1, 120)
        want, _ = bar_model(entries, 120)
        same_events(s.log, want, "attach/bar")
        same_events(o1.log, s.log, "attached twice")
        same_events(o2.log, s.log, "second observer")
        n = len(s.log)
        s.detach(o1)
        s.detach(o1)
        s.detach(RecObs())
        s.play_Bar(bar, 1, 120)
        s.control_change(1, 2, 3)
        check(len(o1.log) == n, "detached observer still receives")
        same_events(o2.log, s.log, "remaining observer")
        s.detach(o2)
        s.play_Note(Note("C"))
        check(len(o2.log) == len(s.log) - 1, "detached second observer still receives")
        s.attach(o1)
        s.stop_Note(Note("C"))
        check(o1.log[n:] == [s.log[-1]], "re-attached observer: %r" % (o1.log[n:],))
        CASES[0] += 1
    # one observer on two sequencers
    a, b, o = RecSeq(), RecSeq(), RecObs()
    a.attach(o)
    b.attach(o)
    a.play_Note(Note("D"))
    b.stop_Note(Note("D"))
    same_events(o.log, a.log + b.log, "shared observer")
    CASES[0] += 1


def main():
    rng = random.Random(18)
    try:
        case_notes(rng)
        case_containers(rng)
        case_bars(rng)
        case_tracks_single(rng)
        case_bars_parallel(rng)
        case_tracks_parallel(rng)
        case_control(rng)
        case_attach(rng)
    except Failure as e:
        print("C18 VIOLATED: %s" % e)
        return 1
    print("C18 holds on %d cases" % CASES[0])
    return 0


if __name__ == "__main__":
    sys.exit(main())
