import mingus, os; assert os.path.realpath(mingus.__file__).startswith(os.path.realpath(os.path.dirname(__file__)))
import itertools
import random
import sys
from fractions import Fraction

from mingus.containers import Bar, Note, NoteContainer
from mingus.core import value as V

TOL = 1e-9
CASES = [0]


def fail(msg):
    print("C13 VIOLATED: %s" % msg)
    sys.exit(1)


# ---- value vocabulary: (value handed to the library, exact length) ----------
VOCAB = []
for base in V.base_values:
    fb = Fraction(base)
    VOCAB.append((base, 1 / fb))
    for nr in (1, 2):
        VOCAB.append((V.dots(base, nr), (1 / fb) * (2 - Fraction(1, 2 ** nr))))
    VOCAB.append((V.triplet(base), Fraction(2, 3) / fb))
    VOCAB.append((V.quintuplet(base), Fraction(4, 5) / fb))
    VOCAB.append((V.septuplet(base), Fraction(4, 7) / fb))
    VOCAB.append((V.septuplet(base, False), Fraction(8, 7) / fb))
SMALL = [x for x in VOCAB if x[0] in (1, 2, 4, 8, 16, V.dots(4), V.dots(8), 6.0, 12.0, 5.0, 10.0, 7.0, 14.0, 3.0)]

METERS = [(4, 4), (3, 4), (6, 8), (2, 2), (5, 4), (7, 8), (1, 1), (12, 8), (3, 16), (1, 128), (9, 4), (0, 0)]


def contents(rng):
    """A content argument plus the note names expected in the stored container."""
    k = rng.randrange(6)
    if k == 0:
        return "C", ["C"]
    if k == 1:
        return Note("E", 3), ["E"]
    if k == 2:
        return ["C", "E", "G"], ["C", "E", "G"]
    if k == 3:
        return NoteContainer(["A", "C#"]), ["A", "C#"]
    if k == 4:
        return [Note("D", 5), Note("F#", 5)], ["D", "F#"]
    return "Bb-2", ["Bb"]


class Model(object):
    def __init__(self, meter):
        self.meter = meter
        self.length = Fraction(meter[0], meter[1]) if meter != (0, 0) else Fraction(0)
        self.entries = []  # [length, value, names-or-None]

    def total(self):
        return sum((e[0] for e in self.entries), Fraction(0))

    def fits(self, ln):
        return self.meter == (0, 0) or self.total() + ln <= self.length


def snapshot(b):
    return [
        (e[0], e[1], None if e[2] is None else [str(n) for n in e[2]])
        for e in b.bar
    ]


def check_state(b, m, where):
    CASES[0] += 1
    if len(b) != len(m.entries) or len(b.bar) != len(m.entries):
        fail("%s: %d entries, expected %d" % (where, len(b), len(m.entries)))
    acc = Fraction(0)
    for i, (e, me) in enumerate(zip(b.bar, m.entries)):
        if abs(e[0] - float(acc)) > TOL:
            fail("%s: entry %d starts at %r, expected %s" % (where, i, e[0], acc))
        if e[1] != me[1]:
            fail("%s: entry %d has value %r, expected %r" % (where, i, e[1], me[1]))
        if me[2] is None:
            if e[2] is not None:
                fail("%s: entry %d should be a rest, is %r" % (where, i, e[2]))
        else:
            if not isinstance(e[2], NoteContainer):
                fail("%s: entry %d content is %r, not a NoteContainer" % (where, i, e[2]))
            if sorted(n.name for n in e[2]) != sorted(me[2]):
                fail("%s: entry %d holds %r, expected names %r" % (where, i, e[2], me[2]))
        if b[i] is not e and b[i] != e:
            fail("%s: b[%d] disagrees with b.bar[%d]" % (where, i, i))
        acc += me[0]
    if abs(b.current_beat - float(acc)) > TOL:
        fail("%s: current_beat %r, expected %s" % (where, b.current_beat, acc))
    if abs(b.current_beat + b.space_left() - float(m.length)) > TOL:
        fail("%s: current_beat + space_left = %r, length %s" % (where, b.current_beat + b.space_left(), m.length))
    if abs(b.length - float(m.length)) > TOL:
        fail("%s: length %r, expected %s" % (where, b.length, m.length))
    remaining = m.length - acc
    want_full = bool(m.entries) and m.meter != (0, 0) and abs(remaining) <= Fraction(1, 1000)
    got = b.is_full()
    if got is not want_full:
        fail("%s: is_full() gave %r, expected %r (remaining %s)" % (where, got, want_full, remaining))


def do_place(b, m, how, val, ln, rng, where):
    """how: 'notes', 'kw', 'rest', 'plus'"""
    before = snapshot(b)
    before_cb = b.current_beat
    if how == "rest":
        names = None
        ok = b.place_rest(val) if rng.random() < 0.5 else b.place_rest(duration=val)
    elif how == "plus":
        arg, names = contents(rng)
        unit = m.meter[1] if m.meter[1] != 0 else 4
        val, ln = unit, Fraction(1, unit)
        ok = b + arg
    elif how == "kw":
        arg, names = contents(rng)
        ok = b.place_notes(duration=val, notes=arg)
    else:
        arg, names = contents(rng)
        ok = b.place_notes(arg, val)
    want = m.fits(ln)
    if ok is not want:
        fail("%s: placing value %r (%s) returned %r, expected %r; total %s of %s, meter %r"
             % (where, val, how, ok, want, m.total(), m.length, m.meter))
    if want:
        m.entries.append([ln, val, names])
    else:
        if snapshot(b) != before or abs(b.current_beat - before_cb) > TOL:
            fail("%s: refused placement changed the bar" % where)
    check_state(b, m, where)


def do_remove(b, m, where):
    if not m.entries:
        return
    b.remove_last_entry()
    m.entries.pop()
    check_state(b, m, where)


def do_edit(b, m, rng, where):
    """__setitem__ / place_notes_at change only the chosen entry's content."""
    if not m.entries:
        return
    i = rng.randrange(len(m.entries))
    before = snapshot(b)
    if rng.random() < 0.5 or m.entries[i][2] is None:
        arg, names = contents(rng)
        b[i] = arg
        m.entries[i][2] = list(names)
    else:
        # starts are distinct for positive lengths: use the entry's own start
        b.place_notes_at("B", b[i][0])
        if "B" not in m.entries[i][2]:
            m.entries[i][2] = m.entries[i][2] + ["B"]
    after = snapshot(b)
    for j, (x, y) in enumerate(zip(before, after)):
        if j != i and x != y:
            fail("%s: editing entry %d changed entry %d" % (where, i, j))
        if j == i and (abs(x[0] - y[0]) > TOL or x[1] != y[1]):
            fail("%s: editing entry %d changed its start or value" % (where, i))
    check_state(b, m, where)


# ---- 1. exhaustive short histories over a small vocabulary --------------------
rng = random.Random(13)
OPS = [("notes", v) for v in SMALL[:6]] + [("rest", SMALL[7]), ("plus", None), ("remove", None)]
for meter in [(4, 4), (3, 4), (6, 8), (0, 0)]:
    for seq in itertools.product(OPS, repeat=3):
        b, m = Bar("C", meter), Model(meter)
        for how, v in seq:
            where = "meter %r history %r" % (meter, [(h, x and x[0]) for h, x in seq])
            if how == "remove":
                do_remove(b, m, where)
            else:
                val, ln = v if v else (None, None)
                do_place(b, m, how, val, ln, rng, where)

# ---- 2. fills to capacity ---------------------------------------------------------
for meter in METERS:
    if meter == (0, 0):
        continue
    for val, ln in VOCAB:
        b, m = Bar("C", meter), Model(meter)
        where = "fill meter %r with value %r" % (meter, val)
        n = 0
        while m.fits(ln) and n < 400:
            do_place(b, m, rng.choice(["notes", "rest", "kw"]), val, ln, rng, where)
            n += 1
        if n < 400:
            do_place(b, m, "notes", val, ln, rng, where)  # the refused one
            do_place(b, m, "rest", val, ln, rng, where)
        do_remove(b, m, where)
        if n < 400:
            do_place(b, m, "notes", val, ln, rng, where)  # fits again

# ---- 3. long random histories -------------------------------------------------------
for meter in METERS:
    for trial in range(3):
        b, m = Bar("G", meter), Model(meter)
        steps = 400 if meter != (0, 0) else 1500
        for step in range(steps):
            where = "random meter %r trial %d step %d" % (meter, trial, step)
            r = rng.random()
            if r < 0.55:
                # prefer values that could still fit now and then
                cands = VOCAB if rng.random() < 0.5 else [x for x in VOCAB if m.fits(x[1])] or VOCAB
                val, ln = rng.choice(cands)
                do_place(b, m, rng.choice(["notes", "rest", "kw"]), val, ln, rng, where)
            elif r < 0.65:
                do_place(b, m, "plus", None, None, rng, where)
            elif r < 0.9:
                do_remove(b, m, where)
            else:
                do_edit(b, m, rng, where)

# the same container object placed repeatedly / odd strings as note text stay out:
# (content vocabulary above is all well-formed)

# ---- 4. set_meter -------------------------------------------------------------------
units = list(range(0, 70)) + [128, 256, 512, 1024, 96, 100, 1000, 2 ** 20, 2 ** 20 + 1, 3 * 2 ** 10]
for count in (1, 2, 3, 4, 5, 6, 7, 9, 12, 15):
    for unit in units:
        b = Bar("C", (4, 4))
        b.place_notes("C", 4)
        pow2 = unit > 0 and unit & (unit - 1) == 0
        CASES[0] += 1
        try:
            b.set_meter((count, unit))
            ok = True
        except Exception:
            ok = False
        if ok is not pow2:
            fail("set_meter((%d, %d)) %s" % (count, unit, "accepted" if ok else "refused"))
        if ok:
            if tuple(b.meter) != (count, unit) or abs(b.length - count / unit) > 1e-12:
                fail("set_meter((%d, %d)) gave meter %r length %r" % (count, unit, b.meter, b.length))
        else:
            if tuple(b.meter) != (4, 4) or b.length != 1.0:
                fail("refused set_meter((%d, %d)) changed the bar" % (count, unit))
        if len(b) != 1 or abs(b.current_beat - 0.25) > TOL:
            fail("set_meter((%d, %d)) touched the entries" % (count, unit))
b = Bar("C", (3, 4))
b.set_meter((0, 0))
if tuple(b.meter) != (0, 0) or b.length != 0.0:
    fail("set_meter((0, 0)) gave %r / %r" % (b.meter, b.length))
b.set_meter(meter=(6, 8))
if tuple(b.meter) != (6, 8) or b.length != 0.75:
    fail("set_meter(meter=(6, 8)) gave %r / %r" % (b.meter, b.length))
for bad in [(4, 3), (4, 0), (3, 6), (2, -4), (4, 12)]:
    try:
        Bar("C", bad)
        fail("Bar('C', %r) accepted" % (bad,))
    except SystemExit:
        raise
    except Exception:
        pass

print("C13 holds on %d checked states" % CASES[0])
sys.exit(0)
