import mingus, os; assert os.path.realpath(mingus.__file__).startswith(os.path.realpath(os.path.dirname(__file__)))
# Direct check of property C20 (tunings and tablature) through the public API.
import itertools
import random
import re
import sys

import mingus.extra.tunings as tunings
import mingus.extra.tablature as tablature
from mingus.containers import Note, NoteContainer, Bar, Track, Composition
from mingus.core.mt_exceptions import RangeError, FingerError
import mingus.core.chords as chords
import mingus.core.notes as core_notes

rnd = random.Random(int(os.environ.get("C20_SEED", "20")))
CASES = [0]


def fail(msg):
    print("C20 VIOLATED: %s" % msg)
    sys.exit(1)


def check(cond, msg):
    CASES[0] += 1
    if not cond:
        fail(msg)


def open_pitch(t, s):
    x = t.tuning[s]
    if isinstance(x, list):
        x = x[0]
    return int(x)


ALL = tunings.get_tunings()
check(len(ALL) >= 70, "expected about 76 registered tunings, got %d" % len(ALL))
FLAT = [t for t in ALL if not any(isinstance(x, list) for x in t.tuning)]


# ---------------------------------------------------------------- frets
def check_frets():
    for t in ALL:
        n = t.count_strings()
        check(n == len(t.tuning), "count_strings")
        for pitch in range(0, 128):
            note = Note().from_int(pitch)
            for maxfret in (0, 1, 12, 24, 30):
                got = t.find_frets(note, maxfret)
                want = []
                for s in range(n):
                    d = pitch - open_pitch(t, s)
                    want.append(d if 0 <= d <= maxfret else None)
                if got != want:
                    fail("find_frets %s %s pitch %d maxfret %d: %r != %r"
                         % (t.instrument, t.description, pitch, maxfret, got, want))
            CASES[0] += 1
        # default maxfret, keyword form and note strings
        for name in ("E-2", "A-4", "C#-3", "Bb-5", "C-0"):
            p = int(Note(name))
            want = [(p - open_pitch(t, s)) if 0 <= p - open_pitch(t, s) <= 24 else None for s in range(n)]
            check(t.find_frets(name) == want, "find_frets string form %s" % name)
            check(t.find_frets(note=Note(name), maxfret=24) == want, "find_frets keyword form")
        # get_Note
        for s in range(n):
            for fret in (0, 1, 5, 12, 24):
                g = t.get_Note(s, fret)
                check(isinstance(g, Note) and int(g) == open_pitch(t, s) + fret,
                      "get_Note(%d,%d) on %s" % (s, fret, t.instrument))
            g = t.get_Note(string=s, fret=30, maxfret=30)
            check(int(g) == open_pitch(t, s) + 30, "get_Note keyword form")
        for (s, fret, mf) in ((-1, 0, 24), (n, 0, 24), (n + 5, 3, 24), (0, -1, 24), (0, 25, 24), (0, 13, 12), (-1, -1, 24)):
            for _ in range(2):
                try:
                    t.get_Note(s, fret, mf)
                except RangeError:
                    CASES[0] += 1
                else:
                    fail("get_Note(%d,%d,%d) not refused on %s" % (s, fret, mf, t.instrument))


# --------------------------------------------------------------- lookup
def sat(t, prefix, ns, nc):
    if prefix is not None and not t.instrument.upper().startswith(prefix.upper()):
        return False
    if ns is not None and t.count_strings() != ns:
        return False
    if nc is not None and t.count_courses() != nc:
        return False
    return True


def check_lookup():
    instruments = sorted(set(t.instrument for t in ALL))
    check(tunings.get_instruments() == instruments, "get_instruments")
    prefixes = [None, "", "b", "B", "ba", "bass", "Bass guitar", "guitar", "GUITAR", "Guit", "man", "Mandolin",
                "viol", "zzz", "Guitarr", "irish", "f", "charango"]
    for prefix in prefixes:
        for ns in (None, 3, 4, 5, 6, 7):
            for nc in (None, 1, 2, 3, 1.5, 1.6):
                got = tunings.get_tunings(prefix, ns, nc)
                for t in got:
                    check(isinstance(t, tunings.StringTuning) and sat(t, prefix, ns, nc),
                          "get_tunings(%r,%r,%r) returned %s / %s" % (prefix, ns, nc, t.instrument, t.description))
                check(all(any(t is u for u in ALL) for t in got), "unregistered tuning returned")
                if prefix is not None and not any(sat(t, prefix, ns, nc) for t in ALL):
                    check(got == [], "expected nothing")
    check(len(tunings.get_tunings(nr_of_strings=4)) > 5, "keyword lookup")
    for t in tunings.get_tunings(instrument="bass", nr_of_courses=1):
        check(sat(t, "bass", None, 1), "keyword lookup 2")
    for t in ALL:
        for iprefix in (t.instrument, t.instrument[:3].lower(), t.instrument.upper()):
            for dprefix in ("", t.description[:4].lower(), t.description):
                for (ns, nc) in ((None, None), (t.count_strings(), None), (None, t.count_courses()),
                                 (t.count_strings(), t.count_courses()), (9, None), (t.count_strings(), 7)):
                    got = tunings.get_tuning(iprefix, dprefix, ns, nc)
                    possible = [u for u in ALL if sat(u, iprefix, ns, nc)
                                and u.description.upper().startswith(dprefix.upper())]
                    if got is None:
                        # Nothing may be returned only when nothing (under the exact-instrument rule) fits
                        exact = [u for u in possible if u.instrument.upper() == iprefix.upper()]
                        names = set(u.instrument.upper() for u in ALL)
                        if iprefix.upper() in names:
                            check(exact == [], "get_tuning(%r,%r,%r,%r) found nothing" % (iprefix, dprefix, ns, nc))
                        else:
                            check(possible == [], "get_tuning(%r,%r,%r,%r) found nothing" % (iprefix, dprefix, ns, nc))
                    else:
                        check(any(got is u for u in possible),
                              "get_tuning(%r,%r,%r,%r) returned %s / %s" % (iprefix, dprefix, ns, nc, got.instrument, got.description))


# ------------------------------------------------------------ fingerings
def brute_fingerings(t, pitches, max_distance):
    n = t.count_strings()
    out = []
    for strings in itertools.permutations(range(n), len(pitches)):
        f = []
        for (s, p) in zip(strings, pitches):
            d = p - open_pitch(t, s)
            if not 0 <= d <= 24:
                break
            f.append((s, d))
        else:
            nonopen = [d for (_, d) in f if d != 0]
            if not nonopen or max(nonopen) - min(nonopen) < max_distance:
                out.append(f)
    return out


def check_fingerings():
    for t in ALL:
        n = t.count_strings()
        lo = min(open_pitch(t, s) for s in range(n))
        hi = max(open_pitch(t, s) for s in range(n))
        for trial in range(6):
            k = rnd.randint(1, min(4, n))
            if trial == 0:
                pitches = [open_pitch(t, s) for s in rnd.sample(range(n), k)]
            elif trial == 1:
                p = rnd.randint(lo, hi + 12)
                pitches = [p] * min(2, n)
            else:
                base = rnd.randint(lo, hi + 10)
                pitches = [base + rnd.randint(0, 9) for _ in range(k)]
            md = rnd.choice([4, 4, 4, 3, 5, 1, 2])
            notes = [Note().from_int(p) for p in pitches]
            form = trial % 3
            if form == 0:
                arg = notes
            elif form == 1:
                arg = ["%s-%d" % (x.name, x.octave) for x in notes]
            else:
                arg = NoteContainer(notes)
                pitches = [int(x) for x in arg]
            for rep in range(2):
                got = t.find_fingering(arg, md) if md != 4 else t.find_fingering(arg)
                want = brute_fingerings(t, pitches, md)
                ok = isinstance(got, list) and sorted(map(tuple, got)) == sorted(map(tuple, want))
                if not ok:
                    fail("find_fingering %s/%s pitches %r md %d: %r != %r"
                         % (t.instrument, t.description, pitches, md, got, want))
                totals = [sum(d for (_, d) in f) for f in got]
                check(totals == sorted(totals), "fingerings not ordered by total fret number: %r" % totals)
                for f in got:
                    check(all(isinstance(x, tuple) and len(x) == 2 for x in f), "fingering entries")
                    check([open_pitch(t, s) + d for (s, d) in f] == pitches, "fingering sounds other notes")
                    check(len(set(s for (s, _) in f)) == len(f), "strings not distinct")
    g = tunings.get_tuning("guitar", "standard", 6, 1)
    check(g.find_fingering([]) == [] and g.find_fingering(None) == [], "empty note sets")
    check(g.find_fingering(["C-1"]) == [], "unplayable note")
    check(g.find_fingering(notes=["E-2", "A-2"], max_distance=4)[0] == [(0, 0), (1, 0)], "keyword form")


def check_chords():
    guitars = [t for t in FLAT if t.count_strings() == 6 and "UITAR" in t.instrument.upper()]
    check(len(guitars) >= 8, "guitar family")
    shorthands = ["M", "m", "7", "m7", "M7", "dim", "aug", "sus4", "6", "m6", "9", "dom7", "sus2", "m7b5"]
    roots = ["C", "D", "E", "F#", "G", "A", "Bb", "B", "Eb"]
    combos = [(r, s) for r in roots for s in shorthands]
    rnd.shuffle(combos)
    for (i, (root, sh)) in enumerate(combos[:40]):
        t = guitars[i % len(guitars)]
        names = chords.from_shorthand(root + sh)
        nc = NoteContainer(names)
        pcs = set(core_notes.note_to_int(x.name) for x in nc)
        (md, mf, mfing) = rnd.choice([(4, 18, 4), (4, 18, 4), (3, 12, 4), (5, 15, 3), (4, 18, 2)])
        if (md, mf, mfing) == (4, 18, 4):
            res = t.find_chord_fingering(nc)
        else:
            res = t.find_chord_fingering(nc, max_distance=md, maxfret=mf, max_fingers=mfing)
        check(isinstance(res, list), "chord fingering result type")
        for f in res:
            check(len(f) == 6, "one entry per string: %r" % (f,))
            check(all(x is None or (isinstance(x, int) and 0 <= x <= mf) for x in f), "fret values %r" % (f,))
            sounding = set((open_pitch(t, s) + x) % 12 for (s, x) in enumerate(f) if x is not None)
            check(sounding <= pcs, "%s%s %r sounds foreign pitch classes" % (root, sh, f))
            check(sounding == pcs, "%s%s %r does not cover the chord" % (root, sh, f))
            nonopen = [x for x in f if x]
            check(not nonopen or max(nonopen) - min(nonopen) < md, "span of %r" % (f,))
            check(tunings.fingers_needed(f) <= mfing, "fingers for %r" % (f,))
    t = guitars[0]
    check(len(t.find_chord_fingering(["A", "C", "E"])) > 0, "Am from strings")


# ------------------------------------------------------------- tablature
def string_lines(text):
    """Return blocks of consecutive string lines (label, '||', body)."""
    check("\r" not in text.replace(os.linesep, "\n"), "stray carriage return")
    blocks = []
    cur = []
    for line in text.replace(os.linesep, "\n").split("\n"):
        idx = line.find("||")
        if idx > 0 and line[:idx].strip() != "" and "*" not in line[:idx]:
            cur.append(line)
        else:
            if cur:
                blocks.append(cur)
            cur = []
    if cur:
        blocks.append(cur)
    return blocks


def decode_block(t, lines):
    n = t.count_strings()
    if len(lines) != n:
        fail("expected %d string lines, got %d:\n%s" % (n, len(lines), "\n".join(lines)))
    if len(set(len(x) for x in lines)) != 1:
        fail("string lines differ in length:\n%s" % "\n".join(lines))
    runs = []
    for (j, line) in enumerate(lines):
        s = n - 1 - j
        start = line.find("||") + 2
        body = line[start:]
        if re.sub(r"[-0-9| ]", "", body) != "":
            fail("unexpected characters in string line %r" % line)
        for m in re.finditer(r"[0-9]+", body):
            runs.append((m.start(), m.end(), s, int(m.group())))
    runs.sort()
    clusters = []
    for (a, b, s, fret) in runs:
        if clusters and a < clusters[-1][0]:
            clusters[-1][0] = max(clusters[-1][0], b)
            clusters[-1][1].append((s, fret))
        else:
            clusters.append([b, [(s, fret)]])
    out = []
    for (_, members) in clusters:
        check(len(set(s for (s, _) in members)) == len(members), "two numbers on one string in one column")
        out.append(sorted(open_pitch(t, s) + f for (s, f) in members))
    return out


def random_entry(t, allow_rest=True):
    """Return (notes or None, pitches) playable on t."""
    n = t.count_strings()
    if allow_rest and rnd.random() < 0.15:
        return None, None
    for _ in range(200):
        k = rnd.choice([1, 1, 1, 2, 2, 3])
        k = min(k, n)
        lo = min(open_pitch(t, s) for s in range(n))
        hi = max(open_pitch(t, s) for s in range(n))
        base = rnd.randint(lo, hi + 8)
        pitches = sorted(set(base + rnd.randint(0, 12) for _ in range(k)))
        nc = NoteContainer([Note().from_int(p) for p in pitches])
        if brute_fingerings(t, [int(x) for x in nc], 4):
            return nc, sorted(int(x) for x in nc)
    raise AssertionError("no playable entry found")


def random_bar(t, width, meter=(4, 4)):
    qsize = tablature._get_qsize(t, width)
    bar = Bar("C", meter)
    want = []
    guard = 0
    while not bar.is_full() and guard < 64:
        guard += 1
        durs = [d for d in (1, 2, 4, 8, 16) if int(((1.0 / d) * qsize) * 4) >= 3]
        d = rnd.choice(durs)
        (nc, pitches) = random_entry(t)
        if bar.place_notes(nc, d):
            if nc is not None:
                want.append(pitches)
    return bar, want


def check_tabs():
    guitar = tunings.get_tuning("Guitar", "Standard", 6, 1)
    # single notes and containers on every tuning without courses
    for t in FLAT:
        n = t.count_strings()
        for width in (rnd.choice([20, 30, 47]), 80):
            for _ in range(3):
                s = rnd.randrange(n)
                p = open_pitch(t, s) + rnd.randint(0, 24)
                note = Note().from_int(p)
                text = tablature.from_Note(note, width, t) if width != 80 else tablature.from_Note(note, tuning=t)
                blocks = string_lines(text)
                check(len(blocks) == 1 and len(text.split(os.linesep)) == n, "from_Note: one line per string")
                check(decode_block(t, blocks[0]) == [[p]], "from_Note %s pitch %d decodes to %r:\n%s"
                      % (t.instrument, p, decode_block(t, blocks[0]), text))
            for _ in range(3):
                (nc, pitches) = random_entry(t, allow_rest=False)
                arg = nc if rnd.random() < 0.5 else list(nc)
                text = tablature.from_NoteContainer(arg, width, t)
                blocks = string_lines(text)
                check(len(blocks) == 1 and len(text.split(os.linesep)) == n, "from_NoteContainer: one line per string")
                check(decode_block(t, blocks[0]) == [pitches], "from_NoteContainer %s %r decodes to %r:\n%s"
                      % (t.instrument, pitches, decode_block(t, blocks[0]), text))
        # refusals
        lo = min(open_pitch(t, s) for s in range(n))
        for _ in range(2):
            try:
                tablature.from_Note(Note().from_int(lo - 1), 80, t)
            except RangeError:
                CASES[0] += 1
            else:
                fail("from_Note below the range not refused")
            try:
                tablature.from_NoteContainer(NoteContainer([Note().from_int(lo - 1), Note().from_int(lo + 3)]), 80, t)
            except (FingerError, RangeError):
                CASES[0] += 1
            else:
                fail("from_NoteContainer with unplayable note not refused")
    check(len(string_lines(tablature.from_Note("A-3"))[0]) == 6, "default tuning, note string")
    check(decode_block(guitar, string_lines(tablature.from_Note("A-3"))[0]) == [[int(Note("A-3"))]], "note string")
    check(decode_block(guitar, string_lines(tablature.from_NoteContainer(["E-2", "B-2", "E-3"]))[0])
          == [sorted(int(Note(x)) for x in ["E-2", "B-2", "E-3"])], "list of note strings")

    # bars
    for i in range(60):
        t = FLAT[i % len(FLAT)] if i % 3 else guitar
        width = rnd.choice([40, 40, 50, 64, 80, 100])
        meter = rnd.choice([(4, 4), (4, 4), (3, 4), (6, 8), (2, 2)])
        (bar, want) = random_bar(t, width, meter)
        for collapse in (True, False):
            res = tablature.from_Bar(bar, width, t, collapse)
            if collapse:
                check(isinstance(res, str), "collapsed bar is a string")
                lines = res.split(os.linesep)
            else:
                check(isinstance(res, list), "uncollapsed bar is a list of lines")
                lines = res
            check(len(lines) == t.count_strings() + 1, "bar: one line per string plus the beat marks")
            check(len(set(len(x) for x in lines)) == 1, "bar lines differ in length:\n%s" % "\n".join(lines))
            blocks = string_lines("\n".join(lines))
            check(len(blocks) == 1, "bar: one block")
            got = decode_block(t, blocks[0])
            check(got == want, "from_Bar %s width %d: %r != %r\n%s" % (t.instrument, width, got, want, "\n".join(lines)))
    bar = Bar()
    bar.place_notes(NoteContainer(["C-0", "E-4"]), 4)
    for _ in range(2):
        try:
            tablature.from_Bar(bar)
        except (FingerError, RangeError):
            CASES[0] += 1
        else:
            fail("bar with unplayable entry not refused")

    # tracks
    for i in range(24):
        t = FLAT[(7 * i) % len(FLAT)] if i % 2 else guitar
        maxwidth = rnd.choice([40, 60, 80, 80, 100, 120, 150, 200])
        width = tablature._get_width(maxwidth)
        if tablature._get_qsize(t, width) * 4 < 3:
            continue
        track = Track()
        want = []
        for _ in range(rnd.randint(1, 7)):
            (bar, w) = random_bar(t, width)
            track.add_bar(bar)
            want += w
        if i % 4 == 0 and t is guitar:
            text = tablature.from_Track(track, maxwidth)
        elif i % 4 == 1:
            track.set_tuning(t)
            text = tablature.from_Track(track, maxwidth)
        else:
            text = tablature.from_Track(track, maxwidth, t) if t is not guitar else tablature.from_Track(track, maxwidth, tuning=t)
        got = []
        for block in string_lines(text):
            got += decode_block(t, block)
        check(got == want, "from_Track %s maxwidth %d: %r != %r\n%s" % (t.instrument, maxwidth, got, want, text))
    track = Track()
    track.add_notes(["C-0"], 4)
    try:
        tablature.from_Track(track, 80, guitar)
    except (FingerError, RangeError):
        CASES[0] += 1
    else:
        fail("track with unplayable entry not refused")

    # compositions
    for i in range(12):
        width = rnd.choice([60, 80, 80, 100, 120, 160])
        w = tablature._get_width(width)
        per_system = width // w
        comp = Composition()
        comp.set_title("Opus %d {x} %%s" % i, "sub 7")
        comp.set_author("J\u00f6rg 12", "j@example.org")
        comp.description = "3 little 4 pieces"
        ntracks = rnd.randint(1, 3)
        nbars = rnd.randint(1, 5)
        wants = []
        tuns = []
        for k in range(ntracks):
            t = guitar if k == 0 else rnd.choice([x for x in FLAT if x.count_strings() in (4, 5, 6)])
            tuns.append(t)
            track = Track()
            track.set_tuning(t)
            per_bar = []
            for _ in range(nbars - (1 if (k == 2 and nbars > 1) else 0)):
                (bar, wnt) = random_bar(t, w)
                track.add_bar(bar)
                per_bar.append(wnt)
            comp.add_track(track)
            wants.append(per_bar)
        text = tablature.from_Composition(comp, width)
        blocks = string_lines(text)
        # expected order of blocks: for each system, each track that still has bars
        expect = []
        for start in range(0, nbars, per_system):
            for k in range(ntracks):
                chunk = wants[k][start:start + per_system]
                if chunk:
                    expect.append((k, [p for b in chunk for p in b]))
        check(len(blocks) == len(expect), "composition: %d blocks, expected %d\n%s" % (len(blocks), len(expect), text))
        for (block, (k, wnt)) in zip(blocks, expect):
            got = decode_block(tuns[k], block)
            check(got == wnt, "from_Composition width %d track %d: %r != %r\n%s" % (width, k, got, wnt, text))


check_frets()
check_lookup()
check_fingerings()
check_chords()
check_tabs()
print("C20 holds on %d checks" % CASES[0])
sys.exit(0)
