import mingus, os; assert os.path.realpath(mingus.__file__).startswith(os.path.realpath(os.path.dirname(__file__)))
import itertools
import random
import sys

from mingus.containers.note import Note
from mingus.containers.note_container import NoteContainer
from mingus.core import chords, intervals, progressions

LETTER = {"C": 0, "D": 2, "E": 4, "F": 5, "G": 7, "A": 9, "B": 11}
CASES = [0]


def fail(msg):
    print("C12 VIOLATED: %s" % msg)
    sys.exit(1)


def raw(name):
    return LETTER[name[0]] + name.count("#") - name[1:].count("b")


def pitch(name, octave):
    return octave * 12 + raw(name)


class Model(object):
    """Set model: list of (name, octave), pitch-ordered, first arrival wins."""

    def __init__(self):
        self.items = []

    def pitches(self):
        return [pitch(n, o) for n, o in self.items]

    def put(self, name, octave):
        p = pitch(name, octave)
        if p not in self.pitches():
            self.items.append((name, octave))
            self.items.sort(key=lambda t: pitch(*t))

    def put_bare(self, name):
        if not self.items:
            self.put(name, 4)
            return
        top = self.pitches()[-1]
        p = top + (raw(name) - top) % 12
        assert top <= p < top + 12
        assert (p - raw(name)) % 12 == 0
        self.put(name, (p - raw(name)) // 12)

    def put_string(self, s):
        if "-" in s:
            name, o = s.split("-")
            self.put(name, int(o))
        else:
            self.put_bare(s)

    def drop_name(self, name):
        self.items = [t for t in self.items if t[0] != name]

    def drop_name_octave(self, name, octave):
        self.items = [t for t in self.items if t != (name, octave)]

    def drop_pitch(self, p):
        self.items = [t for t in self.items if pitch(*t) != p]


def check(nc, model, ctx):
    CASES[0] += 1
    got = [(n.name, n.octave) for n in nc.notes]
    if got != model.items:
        fail("%s: content %r, model %r" % (ctx, got, model.items))
    ps = [int(n) for n in nc.notes]
    if ps != sorted(ps) or len(set(ps)) != len(ps):
        fail("%s: not sorted / duplicate-free: %r" % (ctx, ps))
    if len(nc) != len(model.items):
        fail("%s: len %r" % (ctx, len(nc)))
    if [(n.name, n.octave) for n in nc] != model.items:
        fail("%s: iteration differs" % ctx)
    for i in range(len(model.items)):
        if (nc[i].name, nc[i].octave) != model.items[i]:
            fail("%s: index %d differs" % (ctx, i))
    # membership
    mp = set(model.pitches())
    for p in range(30, 90):
        if (Note().from_int(p) in nc) != (p in mp):
            fail("%s: membership of pitch %d" % (ctx, p))
    for name, o in model.items:
        if Note(name, o) not in nc:
            fail("%s: member %s-%d not found" % (ctx, name, o))
    # unique-name list
    names = []
    for n, _ in model.items:
        if n not in names:
            names.append(n)
    if nc.get_note_names() != names:
        fail("%s: names %r, expected %r" % (ctx, nc.get_note_names(), names))
    # equality
    twin = NoteContainer([Note(n, o) for n, o in reversed(model.items)])
    if not (nc == twin) or not (twin == nc):
        fail("%s: not equal to a container of the same content" % ctx)
    other = NoteContainer([Note(n, o) for n, o in model.items[1:]])
    if model.items and (nc == other or other == nc):
        fail("%s: equal to a container lacking a note" % ctx)
    shifted = NoteContainer([Note(n, o + 1) for n, o in model.items])
    if model.items and nc == shifted:
        fail("%s: equal to a container an octave higher" % ctx)
    # consonance predicates
    pairs = list(itertools.combinations([n for n, _ in model.items], 2))
    for f in (True, False):
        exp = all(intervals.is_consonant(a, b, f) for a, b in pairs)
        if nc.is_consonant(f) is not exp or nc.is_consonant(include_fourths=f) is not exp:
            fail("%s: is_consonant(%r)" % (ctx, f))
        if nc.is_dissonant(not f) is not (not exp):
            fail("%s: is_dissonant(%r)" % (ctx, not f))
        exp = all(intervals.is_perfect_consonant(a, b, f) for a, b in pairs)
        if nc.is_perfect_consonant(f) is not exp:
            fail("%s: is_perfect_consonant(%r)" % (ctx, f))
    exp = all(intervals.is_imperfect_consonant(a, b) for a, b in pairs)
    if nc.is_imperfect_consonant() is not exp:
        fail("%s: is_imperfect_consonant" % ctx)
    if nc.is_consonant() is not nc.is_consonant(True) or nc.is_dissonant() is not nc.is_dissonant(False):
        fail("%s: predicate defaults" % ctx)


# ---------------------------------------------------------------- operations
def op_add_obj(name, octave):
    def run(nc, m):
        nc.add_note(Note(name, octave))
        m.put(name, octave)
    return ("add_note(Note(%r,%r))" % (name, octave), run)


def op_add_bare(name):
    def run(nc, m):
        nc.add_note(name)
        m.put_bare(name)
    return ("add_note(%r)" % name, run)


def op_add_str(s):
    def run(nc, m):
        nc.add_notes(s)
        m.put_string(s)
    return ("add_notes(%r)" % s, run)


def op_add_name_octave(name, octave, kw=False):
    def run(nc, m):
        if kw:
            nc.add_note(note=name, octave=octave, dynamics={"velocity": 70})
        else:
            nc.add_note(name, octave)
        m.put(name, octave)
    return ("add_note(%r,%r)" % (name, octave), run)


def op_add_list(items, as_tuple=False, as_iter=False):
    def run(nc, m):
        arg = []
        for it in items:
            if isinstance(it, tuple) and it[0] == "obj":
                arg.append(Note(it[1], it[2]))
                m.put(it[1], it[2])
            elif isinstance(it, list):
                arg.append(list(it))
                m.put(it[0], it[1])
            else:
                arg.append(it)
                m.put_string(it)
        if as_tuple:
            arg = tuple(arg)
        elif as_iter:
            arg = iter(arg)
        nc.add_notes(arg)
    return ("add_notes(%r)" % (items,), run)


def op_add_container(items):
    def run(nc, m):
        src = NoteContainer([Note(n, o) for n, o in items])
        before = [(x.name, x.octave) for x in src.notes]
        nc.add_notes(src)
        if [(x.name, x.octave) for x in src.notes] != before:
            fail("source container changed by add_notes")
        for n, o in before:
            m.put(n, o)
    return ("add_notes(NoteContainer(%r))" % (items,), run)


def op_plus(arg_kind, payload):
    def run(nc, m):
        if arg_kind == "str":
            res = nc + payload
            m.put_string(payload)
        elif arg_kind == "obj":
            res = nc + Note(*payload)
            m.put(*payload)
        elif arg_kind == "list":
            res = nc + list(payload)
            for s in payload:
                m.put_string(s)
        else:
            src = NoteContainer([Note(n, o) for n, o in payload])
            content = [(x.name, x.octave) for x in src.notes]
            res = nc + src
            for n, o in content:
                m.put(n, o)
        if res is not nc and [(x.name, x.octave) for x in res.notes] != m.items:
            fail("'+' result does not hold the sum")
    return ("+ %s %r" % (arg_kind, payload), run)


def op_plus_self():
    def run(nc, m):
        nc + nc
    return ("+ self", run)


def op_rm_name(name):
    def run(nc, m):
        nc.remove_note(name)
        m.drop_name(name)
    return ("remove_note(%r)" % name, run)


def op_rm_name_octave(name, octave, kw=False):
    def run(nc, m):
        if kw:
            nc.remove_note(note=name, octave=octave)
        else:
            nc.remove_note(name, octave)
        m.drop_name_octave(name, octave)
    return ("remove_note(%r,%r)" % (name, octave), run)


def op_rm_obj(name, octave):
    def run(nc, m):
        nc.remove_note(Note(name, octave))
        m.drop_pitch(pitch(name, octave))
    return ("remove_note(Note(%r,%r))" % (name, octave), run)


def op_rm_list(items, as_tuple=False):
    def run(nc, m):
        arg = []
        for it in items:
            if isinstance(it, tuple):
                arg.append(Note(*it))
                m.drop_pitch(pitch(*it))
            else:
                arg.append(it)
                m.drop_name(it)
        nc.remove_notes(tuple(arg) if as_tuple else arg)
    return ("remove_notes(%r)" % (items,), run)


def op_minus(arg_kind, payload):
    def run(nc, m):
        if arg_kind == "str":
            nc - payload
            m.drop_name(payload)
        elif arg_kind == "obj":
            nc - Note(*payload)
            m.drop_pitch(pitch(*payload))
        else:
            nc - list(payload)
            for s in payload:
                m.drop_name(s)
    return ("- %s %r" % (arg_kind, payload), run)


def op_rm_own_first():
    def run(nc, m):
        if nc.notes:
            n = nc.notes[0]
            p = int(n)
            nc.remove_notes([n])
            m.drop_pitch(p)
    return ("remove own first note", run)


def op_rm_self():
    def run(nc, m):
        nc.remove_notes(nc)
        m.items = []
    return ("remove_notes(self)", run)


SMALL = [
    op_add_obj("C", 4),
    op_add_obj("Db", 4),
    op_add_bare("E"),
    op_add_bare("C#"),
    op_add_str("G-3"),
    op_add_name_octave("C", 5),
    op_add_list(["C", "G", ["E", 5]]),
    op_add_container([("E", 4), ("C", 3)]),
    op_plus("str", "B"),
    op_rm_name("C"),
    op_rm_name_octave("C", 4),
    op_rm_obj("C#", 4),
    op_rm_list(["E", ("G", 3)]),
    op_minus("str", "G"),
]

NAMES = ["C", "C#", "Db", "D", "Eb", "E", "Fb", "E#", "F", "F#", "G", "Ab", "A", "Bb", "B", "Cb", "B#", "Cbb", "F##", "Bbb"]


def random_op(rnd):
    n = rnd.choice(NAMES)
    o = rnd.randint(2, 6)
    k = rnd.randrange(22)
    if k == 0:
        return op_add_obj(n, o)
    if k == 1:
        return op_add_bare(n)
    if k == 2:
        return op_add_str("%s-%d" % (n, o))
    if k == 3:
        return op_add_name_octave(n, o, kw=rnd.random() < 0.5)
    if k == 4:
        items = []
        for _ in range(rnd.randint(0, 4)):
            nn, oo = rnd.choice(NAMES), rnd.randint(2, 6)
            items.append(rnd.choice([nn, "%s-%d" % (nn, oo), [nn, oo], [nn, oo, {"velocity": 50}], ("obj", nn, oo)]))
        mode = rnd.randrange(3)
        return op_add_list(items, as_tuple=mode == 1, as_iter=mode == 2)
    if k == 5:
        return op_add_container([(rnd.choice(NAMES), rnd.randint(2, 6)) for _ in range(rnd.randint(0, 4))])
    if k == 6:
        return op_plus("str", rnd.choice([n, "%s-%d" % (n, o)]))
    if k == 7:
        return op_plus("obj", (n, o))
    if k == 8:
        return op_plus("list", [rnd.choice(NAMES) for _ in range(rnd.randint(1, 4))])
    if k == 9:
        return op_plus("nc", [(rnd.choice(NAMES), rnd.randint(2, 6)) for _ in range(rnd.randint(0, 3))])
    if k == 10:
        return op_plus_self()
    if k in (11, 12):
        return op_rm_name(n)
    if k in (13, 14):
        return op_rm_name_octave(n, o, kw=rnd.random() < 0.5)
    if k == 15:
        return op_rm_obj(n, o)
    if k == 16:
        items = [rnd.choice([rnd.choice(NAMES), (rnd.choice(NAMES), rnd.randint(2, 6))]) for _ in range(rnd.randint(0, 3))]
        return op_rm_list(items, as_tuple=rnd.random() < 0.5)
    if k == 17:
        return op_minus("str", n)
    if k == 18:
        return op_minus("obj", (n, o))
    if k == 19:
        return op_minus("list", [rnd.choice(NAMES) for _ in range(rnd.randint(1, 3))])
    if k == 20:
        return op_rm_own_first()
    return op_rm_self() if rnd.random() < 0.2 else op_add_bare(n)


def run_sequence(ops, check_each):
    nc, m = NoteContainer(), Model()
    trail = []
    for label, run in ops:
        trail.append(label)
        run(nc, m)
        if check_each:
            check(nc, m, " ; ".join(trail))
    if not check_each:
        check(nc, m, " ; ".join(trail))


def main():
    # exhaustive short histories
    for depth in (1, 2):
        for ops in itertools.product(SMALL, repeat=depth):
            run_sequence(ops, True)
    rnd = random.Random(12)
    for ops in rnd.sample(list(itertools.product(SMALL, repeat=3)), 400):
        run_sequence(ops, False)
    # longer random histories
    for seed in range(150):
        rnd = random.Random(seed)
        run_sequence([random_op(rnd) for _ in range(rnd.randint(5, 40))], seed % 3 == 0)
    # a very long one
    rnd = random.Random(999)
    run_sequence([random_op(rnd) for _ in range(1500)], False)

    # refused additions change nothing, however often repeated
    nc = NoteContainer(["C", "E", "G"])
    m = Model()
    for s in ("C", "E", "G"):
        m.put_bare(s)
    for bad in ["H", "C-x", "C-4-4", "{C}", "%s", "C\n", u"É", "c", 3.5, None, ("C", 4)]:
        for _ in range(3):
            try:
                nc.add_note(bad)
            except Exception:
                pass
            else:
                fail("add_note(%r) accepted" % (bad,))
            check(nc, m, "after refused add_note(%r)" % (bad,))

    # constructors: chord shorthand x root
    roots = ["C", "C#", "Db", "D", "Eb", "E", "F", "F#", "Gb", "G", "Ab", "A", "Bb", "B", "Cb", "B#", "E#", "Fb"]
    for sh in sorted(chords.chord_shorthand):
        for root in roots:
            names = chords.from_shorthand(root + sh)
            m = Model()
            for s in names:
                m.put_bare(s)
            nc = NoteContainer().from_chord_shorthand(root + sh)
            check(nc, m, "from_chord_shorthand(%r)" % (root + sh))
            if (nc[0].name, nc[0].octave) != (root, 4):
                fail("chord %r does not start on the root in octave 4: %r" % (root + sh, nc))
            last = None
            for s in names:
                if s not in nc.get_note_names():
                    fail("chord %r lacks %s" % (root + sh, s))
            nc2 = NoteContainer(["A-2"]).from_chord(root + sh)
            check(nc2, m, "from_chord(%r) on used container" % (root + sh))
            check(NoteContainer(names), m, "NoteContainer(%r)" % (names,))
    for sh in ["C/G", "Am/C", "F|G", "Am7/G", "C/E"]:
        m = Model()
        for s in chords.from_shorthand(sh):
            m.put_bare(s)
        check(NoteContainer().from_chord_shorthand(sh), m, "from_chord_shorthand(%r)" % sh)

    # interval shorthand
    for start in roots:
        for acc in ["", "b", "#", "bb", "##"]:
            for num in "1234567":
                for up in (True, False):
                    sh = acc + num
                    semis = [0, 2, 4, 5, 7, 9, 11][int(num) - 1] + acc.count("#") - acc.count("b")
                    name = intervals.from_shorthand(start, sh, up)
                    base = pitch(start, 4)
                    target = base + semis if up else base - semis
                    m = Model()
                    m.put(start, 4)
                    m.put(name, (target - raw(name)) // 12)
                    if (target - raw(name)) % 12:
                        fail("model: interval name %s does not fit %d" % (name, target))
                    for startarg in (start, Note(start, 4)):
                        nc = NoteContainer(["D-7"])
                        if up:
                            nc.from_interval_shorthand(startarg, sh)
                        else:
                            nc.from_interval(startarg, sh, up=False)
                        check(nc, m, "from_interval_shorthand(%r,%r,%r)" % (start, sh, up))

    # numeral x key
    keys = ["C", "G", "D", "A", "E", "B", "F#", "C#", "F", "Bb", "Eb", "Ab", "Db", "Gb", "Cb"]
    numerals = ["I", "II", "III", "IV", "V", "VI", "VII", "ii", "iii", "vi", "vii", "I7", "V7", "ii7", "IIm6", "bIII", "#IV", "Vdim7", "bVIIM7", "VIm7", "IVsus4", "bbII"]
    for key in keys:
        for num in numerals:
            names = progressions.to_chords(num, key)[0]
            m = Model()
            for s in names:
                m.put_bare(s)
            nc = NoteContainer(["E-2"]).from_progression_shorthand(num, key)
            check(nc, m, "from_progression_shorthand(%r,%r)" % (num, key))
            if (nc[0].name, nc[0].octave) != (names[0], 4):
                fail("progression %r in %r does not start on its root in octave 4" % (num, key))
            nc = NoteContainer().from_progression(num, key=key)
            check(nc, m, "from_progression(%r,key=%r)" % (num, key))
    nc = NoteContainer().from_progression_shorthand("VI")
    if [(n.name, n.octave) for n in nc] != [("A", 4), ("C", 5), ("E", 5)]:
        fail("from_progression_shorthand('VI') = %r" % nc)

    print("C12 holds on %d checked states" % CASES[0])
    sys.exit(0)


main()
