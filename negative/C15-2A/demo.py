import mingus, os; assert os.path.realpath(mingus.__file__).startswith(os.path.realpath(os.path.dirname(__file__)))

"""Direct check of property C15 (no hidden shared state) through the public API.

Exit status 0 when every case holds, 1 (with messages) otherwise.
"""
import copy
import json
import random
import subprocess
import sys

from mingus.core import chords, intervals, keys, notes, progressions, scales
from mingus.containers import Bar, Composition, Note, NoteContainer, Suite, Track
from mingus.containers.instrument import MidiInstrument
from mingus.midi.midi_file_out import MidiFile
from mingus.midi.midi_track import MidiTrack
from mingus.midi.sequencer import Sequencer
from mingus.extra import fft

FAILURES = []
CASES = [0]


def check(cond, msg):
    CASES[0] += 1
    if not cond:
        FAILURES.append(msg)


def outcome(fn, *args, **kwargs):
    """Value of a call, or the class name of the exception it raises."""
    try:
        return ("ok", fn(*args, **kwargs))
    except Exception as e:  # the class, not the message, is compared
        return ("raise", type(e).__name__)


# --------------------------------------------------------------------------
# 1. theory queries are independent of the call history
# --------------------------------------------------------------------------
ALL_KEYS = keys.major_keys + keys.minor_keys
NOTE_NAMES = ["C", "C#", "Db", "D", "Eb", "E", "Fb", "E#", "F", "F#", "G", "Ab", "A", "Bb", "B", "Cb", "B#",
              "C##", "Dbb", "Gbb"]
SHORTHANDS = sorted(chords.chord_shorthand)
PROGS = ["I", "ii", "III7", "IV", "V7", "bVI", "#ivdim7", "VIIm7b5", "Idom7", "bbIIM6", "vi7", "iim", "X", ""]
CHORD_LISTS = [
    ["C", "E", "G"], ["A", "C", "E"], ["C", "E", "G", "B"], ["G", "B", "D", "F"], ["C", "E", "G", "Bb", "D"],
    ["C", "E", "G", "B", "D", "F"], ["C", "E", "G", "B", "D", "F", "A"], ["C"], ["C", "G"], [],
    ["D", "F#", "A", "C", "E", "G", "B", "D"], ["F", "A", "C", "E", "G", "B", "D", "F", "A"],
    ["Eb", "G", "Bb", "Db"], ["B", "D", "F", "Ab"], ["C", "F", "G"], ["C", "D", "G"],
]


def battery():
    """A fixed list of (label, thunk) queries of the theory modules."""
    q = []
    for k in ALL_KEYS + ["H", "c##", "", "C\n", "{0}", "%s"]:
        q.append(("keys.get_notes(%r)" % k, lambda k=k: keys.get_notes(k)))
        q.append(("keys.get_notes(key=%r)" % k, lambda k=k: keys.get_notes(key=k)))
        q.append(("keys.get_key_signature(%r)" % k, lambda k=k: keys.get_key_signature(k)))
        q.append(("keys.get_key_signature_accidentals(%r)" % k, lambda k=k: keys.get_key_signature_accidentals(k)))
        q.append(("keys.is_valid_key(%r)" % k, lambda k=k: keys.is_valid_key(k)))
        q.append(("keys.relative_major(%r)" % k, lambda k=k: keys.relative_major(k)))
        q.append(("keys.relative_minor(%r)" % k, lambda k=k: keys.relative_minor(k)))
        q.append(("chords.triads(%r)" % k, lambda k=k: chords.triads(k)))
        q.append(("chords.sevenths(key=%r)" % k, lambda k=k: chords.sevenths(key=k)))
        for fname in ["tonic", "supertonic7", "mediant", "IV", "V7", "vi", "vii7", "subtonic"]:
            q.append(("chords.%s(%r)" % (fname, k), lambda k=k, f=fname: getattr(chords, f)(k)))
        q.append(("progressions.to_chords(PROGS,%r)" % k, lambda k=k: progressions.to_chords(list(PROGS[:11]), k)))
    for a in range(-8, 9):
        q.append(("keys.get_key(%d)" % a, lambda a=a: keys.get_key(a)))
    for n in NOTE_NAMES:
        for sh in SHORTHANDS:
            q.append(("chords.from_shorthand(%r)" % (n + sh), lambda s=n + sh: chords.from_shorthand(s)))
        for fname in ["minor_second", "major_third", "perfect_fourth", "minor_fifth", "major_sixth",
                      "minor_seventh", "major_seventh", "major_unison", "augmented_unison", "minor_unison"]:
            q.append(("intervals.%s(%r)" % (fname, n), lambda n=n, f=fname: getattr(intervals, f)(n)))
        for m in NOTE_NAMES:
            q.append(("intervals.determine(%r,%r)" % (n, m), lambda n=n, m=m: intervals.determine(n, m)))
            q.append(("intervals.determine(%r,%r,True)" % (n, m),
                      lambda n=n, m=m: intervals.determine(n, m, shorthand=True)))
            q.append(("intervals.measure(%r,%r)" % (n, m), lambda n=n, m=m: intervals.measure(n, m)))
        for sh in ["1", "b2", "2", "b3", "3", "4", "#4", "5", "b6", "6", "bb7", "7", "##5", "9", "x"]:
            q.append(("intervals.from_shorthand(%r,%r)" % (n, sh), lambda n=n, sh=sh: intervals.from_shorthand(n, sh)))
            q.append(("intervals.from_shorthand(%r,%r,False)" % (n, sh),
                      lambda n=n, sh=sh: intervals.from_shorthand(n, sh, up=False)))
    for k in ["C", "F#", "eb", "Cb"]:
        for n in "CDEFGAB":
            for i in range(-3, 9):
                q.append(("intervals.interval(%r,%r,%d)" % (k, n, i), lambda k=k, n=n, i=i: intervals.interval(k, n, i)))
            q.append(("intervals.get_interval(%r,5,%r)" % (n, k), lambda k=k, n=n: intervals.get_interval(n, 5, k)))
    for c in CHORD_LISTS:
        for sh in (False, True):
            q.append(("chords.determine(%r,%r)" % (c, sh), lambda c=c, sh=sh: chords.determine(list(c), sh)))
            if c:
                q.append(("progressions.determine(%r,'C',%r)" % (c, sh),
                          lambda c=c, sh=sh: progressions.determine(list(c), "C", sh)))
        q.append(("chords.determine(%r,nopoly)" % (c,),
                  lambda c=c: chords.determine(list(c), shorthand=True, no_inversions=True, no_polychords=True)))
    for s in ["Am/M7", "A/G", "Dm|G", "C6/9", "C6/7", "Cmin7", "Cmaj7", "C-7", "Cma", "NC", "N.C.", "Hm", "Cxyz",
              "C/H", "Em7|C/G", "C{", "C%s", "C\n", "Bb7b9/F#", "Dm7|G7|C"]:
        q.append(("chords.from_shorthand(%r)" % s, lambda s=s: chords.from_shorthand(s)))
    q.append(("chords.from_shorthand(list)", lambda: chords.from_shorthand(["Am", "C7", "NC"])))
    for p in PROGS:
        q.append(("progressions.parse_string(%r)" % p, lambda p=p: progressions.parse_string(p)))
        for fn in ["substitute", "substitute_harmonic", "substitute_minor_for_major", "substitute_major_for_minor",
                   "substitute_diminished_for_diminished", "substitute_diminished_for_dominant"]:
            q.append(("progressions.%s([%r],0)" % (fn, p), lambda p=p, fn=fn: getattr(progressions, fn)([p], 0)))
        q.append(("progressions.substitute([%r],0,2)" % p, lambda p=p: progressions.substitute([p, "V"], 0, depth=2)))
    for r in progressions.numerals:
        for r2 in progressions.numerals:
            for i in (0, 3, 9, 11):
                q.append(("progressions.interval_diff(%r,%r,%d)" % (r, r2, i),
                          lambda r=r, r2=r2, i=i: progressions.interval_diff(r, r2, i)))
        for s in (-8, 0, 1, 2, 5, 15):
            q.append(("progressions.skip(%r,%d)" % (r, s), lambda r=r, s=s: progressions.skip(r, s)))
    for t in [("I", 0, ""), ("V", -2, "7"), ("II", 9, "m"), ("VI", -13, "dim7"), ("IV", 6, ""), ("IV", -6, "")]:
        q.append(("progressions.tuple_to_string(%r)" % (t,), lambda t=t: progressions.tuple_to_string(t)))
    for f in FREQS:
        q.append(("fft index %r" % f, lambda f=f: fft_index(f)))
    return q


FREQS = [0.0, -3.0, 1e-9, 8.0, 8.1757989156, 8.18, 8.66, 16.35, 27.5, 27.500001, 55, 110.0, 220, 261.6, 261.63,
         277.18, 430, 439.99, 440.0, 440.01, 466.2, 880, 1000.0, 4186.01, 5000, 10000, 12543.85, 12543.86, 13000.0,
         13289.75, 13289.76, 20000, 1e6]


def fft_index(freq):
    """Index chosen by the frequency table lookup, seen through find_notes."""
    res = fft.find_notes([(freq, 1.0)], 200)
    hit = [i for i, (n, a) in enumerate(res) if a != 0]
    return hit


def run_battery():
    return [[label, repr(outcome(thunk))] for label, thunk in battery()]


def random_history(rng, steps):
    """Random calls over the public theory API; every returned list is vandalised."""

    def vandalise(v):
        if isinstance(v, list):
            for x in v:
                vandalise(x)
            v.append("XX")
            v.reverse()
            if len(v) > 2:
                del v[1]
        elif isinstance(v, dict):
            v.clear()

    for _ in range(steps):
        k = rng.choice(ALL_KEYS + ["H"])
        n = rng.choice(NOTE_NAMES)
        m = rng.choice(NOTE_NAMES)
        calls = [
            lambda: keys.get_notes(k),
            lambda: keys.get_key_signature_accidentals(k),
            lambda: chords.triads(k),
            lambda: chords.sevenths(k),
            lambda: chords.tonic(k),
            lambda: chords.V7(k),
            lambda: chords.from_shorthand(n + rng.choice(SHORTHANDS)),
            lambda: chords.from_shorthand(n + "m7|" + m + "7"),
            lambda: chords.from_shorthand(n + "/" + m[0]),
            lambda: chords.determine(list(rng.choice(CHORD_LISTS)), rng.random() < 0.5),
            lambda: intervals.determine(n, m, rng.random() < 0.5),
            lambda: intervals.invert([n, m]),
            lambda: intervals.interval(k, n[0], rng.randrange(0, 9)),
            lambda: intervals.from_shorthand(n, rng.choice(["b3", "5", "#4", "7"]), rng.random() < 0.5),
            lambda: progressions.to_chords(rng.sample(PROGS[:11], 3), k),
            lambda: progressions.determine(list(rng.choice(CHORD_LISTS[:7])), rng.choice(keys.major_keys), True),
            lambda: progressions.substitute([rng.choice(PROGS[:11])], 0, rng.randrange(0, 2)),
            lambda: scales.Major(n[0]).ascending(),
            lambda: notes.reduce_accidentals(n),
            lambda: fft.find_notes([(rng.choice(FREQS), 1.0), (rng.uniform(1, 14000), 0.5)]),
            lambda: fft.find_notes([(rng.uniform(1, 14000), 1.0)]),
            lambda: NoteContainer().from_chord_shorthand(n[0] + rng.choice(["m7", "M", "dim"])),
        ]
        vandalise(outcome(rng.choice(calls))[1])


def part_history(cold):
    for seed in range(6):
        rng = random.Random(seed)
        random_history(rng, 150 + 100 * seed)
        warm = run_battery()
        check(len(warm) == len(cold), "battery sizes differ")
        bad = [(a, b) for a, b in zip(cold, warm) if a != b]
        check(not bad, "history seed %d: %d queries differ from a cold interpreter, first: %r" % (seed, len(bad), bad[:2]))
    # repeating the battery after itself
    check(run_battery() == cold, "battery differs when repeated")
    # lookups in descending / shuffled order give the same index as in ascending order
    asc = {f: fft_index(f) for f in sorted(FREQS)}
    desc = {f: fft_index(f) for f in sorted(FREQS, reverse=True)}
    check(asc == desc, "frequency lookups depend on the order (ascending vs descending)")
    rng = random.Random(99)
    dense = [rng.uniform(0.5, 14000) for _ in range(300)] + [8.1757989156 * 2 ** (i / 12.0) for i in range(128)]
    first = {}
    for f in dense:
        first[f] = fft_index(f)
    for rnd in range(3):
        rng.shuffle(dense)
        for f in dense:
            if fft_index(f) != first[f]:
                check(False, "frequency %r: index %r, earlier %r" % (f, fft_index(f), first[f]))
                break
        else:
            check(True, "")
    # a whole table analysed twice, around other work
    table = [(f, 1.0 + i) for i, f in enumerate(dense[:200])]
    r1 = repr(fft.find_notes(list(table)))
    fft.find_notes([(13000.0, 1.0)])
    r2 = repr(fft.find_notes(list(table)))
    fft.find_notes([(9.0, 1.0)])
    r3 = repr(fft.find_notes(list(reversed(table))))
    check(r1 == r2, "find_notes differs after an unrelated lookup")
    check(r1 == r3, "find_notes differs for the reversed table")


# --------------------------------------------------------------------------
# 2./3. arguments are not modified, returned lists are not shared
# --------------------------------------------------------------------------
def arg_cases():
    c = []
    for k in ["C", "f#", "Gb"]:
        for f in [keys.get_notes, keys.get_key_signature_accidentals, chords.triads, chords.sevenths, chords.tonic,
                  chords.dominant7, chords.II, chords.vii7]:
            c.append((f, (k,), {}))
        c.append((chords.triad, ("E", k), {}))
        c.append((chords.seventh, ("E", k), {}))
        c.append((progressions.to_chords, (["I", "V7", "bIIdim7"],), {"key": k}))
        c.append((progressions.to_chords, (("I", "V7"), k), {}))
        c.append((progressions.to_chords, ("IVm7", k), {}))
    for n in ["C", "Eb", "F##"]:
        for name in sorted(set(f.__name__ for f in chords.chord_shorthand.values() if f.__name__ != "<lambda>")):
            c.append((getattr(chords, name), (n,), {}))
        c.append((chords.from_shorthand, (n + "m7",), {}))
        c.append((chords.from_shorthand, (n + "M7|" + n + "m",), {}))
        c.append((chords.from_shorthand, ([n + "m7", n + "/G", "NC"],), {}))
        c.append((chords.from_shorthand, (n + "7",), {"slash": "G"}))
    for ch in CHORD_LISTS:
        c.append((chords.determine, (list(ch),), {}))
        c.append((chords.determine, (list(ch), True), {}))
        c.append((chords.determine, (list(ch),), {"shorthand": True, "no_inversions": True}))
        c.append((chords.determine_polychords, (list(ch),), {}))
        if len(ch) >= 2:
            for f in [chords.invert, chords.first_inversion, chords.second_inversion, chords.third_inversion,
                      intervals.invert]:
                c.append((f, (list(ch),), {}))
        if ch:
            c.append((progressions.determine, (list(ch), "C"), {}))
            c.append((progressions.determine, ([list(ch), ["G", "B", "D"]], "G", True), {}))
    c.append((chords.determine_triad, (["A", "C", "E"],), {"shorthand": True}))
    c.append((chords.determine_seventh, (["C", "E", "G", "B"], False, True), {}))
    c.append((chords.determine_extended_chord5, (["C", "E", "G", "Bb", "D"],), {}))
    c.append((chords.determine_extended_chord6, (["C", "E", "G", "B", "D", "F"],), {}))
    c.append((chords.determine_extended_chord7, (["C", "E", "G", "B", "D", "F", "A"],), {}))
    for p in [["I", "IV", "V", "I"], ["VIm7", "IIdim", "VM7"], ["bVIIdim7", "V"]]:
        for i in range(len(p)):
            for f in [progressions.substitute, progressions.substitute_harmonic,
                      progressions.substitute_minor_for_major, progressions.substitute_major_for_minor,
                      progressions.substitute_diminished_for_diminished,
                      progressions.substitute_diminished_for_dominant]:
                c.append((f, (list(p), i), {}))
            c.append((progressions.substitute, (list(p),), {"substitute_index": i, "depth": 1}))
    c.append((progressions.tuple_to_string, (("V", -2, "7"),), {}))
    c.append((fft.find_notes, ([(440.0, 1.0), (880.0, 0.5), (0.0, 3.0)],), {}))
    c.append((fft.find_notes, ([(440.0, 1.0), (100.0, 0.5)], 60), {}))
    c.append((fft.find_frequencies, ([0, 100, 0, -100] * 8, 44100, 16), {}))
    return c


def mutate_deep(v):
    if isinstance(v, list):
        for x in v:
            mutate_deep(x)
        v.insert(0, "ZZ")
        v.append(None)
    elif isinstance(v, dict):
        v["zz"] = 1


def part_arguments():
    for f, args, kwargs in arg_cases():
        label = "%s%r%r" % (f.__name__, args, kwargs)
        a1, k1 = copy.deepcopy(args), copy.deepcopy(kwargs)
        kind, r1 = outcome(f, *a1, **k1)
        check(repr((a1, k1)) == repr((args, kwargs)), "argument modified by %s" % label)
        snap = repr(r1)
        if kind == "ok":
            # a returned list that *is* the argument says nothing about library state; work on results only
            mutate_deep(r1)
        a2, k2 = copy.deepcopy(args), copy.deepcopy(kwargs)
        kind2, r2 = outcome(f, *a2, **k2)
        check((kind, snap) == (kind2, repr(r2)), "result of %s changed after its earlier result was modified" % label)
        check(repr((a2, k2)) == repr((args, kwargs)), "argument modified by second %s" % label)
    # dictionaries handed to containers
    dyn = {"velocity": 20, "channel": 3}
    before = dict(dyn)
    n = Note("C", 4, dyn)
    n2 = Note("D", 5, dynamics=dyn, velocity=99)
    n.set_note("E", 3, dyn, channel=5)
    NoteContainer().add_note("C", 4, dyn)
    NoteContainer([["C", 5, dyn], ["E", 6, dyn]])
    check(dyn == before, "dynamics dictionary modified: %r" % dyn)
    check((n2.velocity, n2.channel) == (99, 3), "keyword velocity lost")
    d = n.dynamics
    d["velocity"] = 1
    check(n.velocity == 20 and n.dynamics["velocity"] == 20, "returned dynamics dict is live")
    lst = ["C", "E", "G"]
    nested = [["C", 5], ["E", 5], ["G", 6]]
    nc = NoteContainer(lst)
    NoteContainer(nested)
    NoteContainer().add_notes(tuple(lst))
    NoteContainer().add_notes(iter(lst))
    b = Bar()
    b.place_notes(lst, 4)
    b[0] = lst
    t = Track()
    t.add_notes(lst, 4)
    ch = ["C", ["Am", "Dm"], "G7", None]
    t.from_chords(ch, 1)
    check(lst == ["C", "E", "G"] and nested == [["C", 5], ["E", 5], ["G", 6]], "note list argument modified")
    check(ch == ["C", ["Am", "Dm"], "G7", None], "chords argument modified")
    nc.remove_notes(lst)
    check(lst == ["C", "E", "G"] and len(nc) == 0, "remove_notes modified its argument")
    got = nc.add_notes(["C", "E"])
    names = NoteContainer(["C", "E"]).get_note_names()
    names.append("X")
    check(NoteContainer(["C", "E"]).get_note_names() == ["C", "E"], "get_note_names shares its result")
    meter = [3, 4]
    bm = Bar("C", meter)
    meter[0] = 7
    check(bm.meter == (3, 4) and bm.length == 0.75, "Bar keeps a reference to the meter argument")


# --------------------------------------------------------------------------
# 4. sibling instances and class defaults
# --------------------------------------------------------------------------
def see(o, depth=0):
    """Publicly observable state of an object, as plain data."""
    if isinstance(o, Note):
        return ("Note", o.name, o.octave, o.channel, o.velocity, sorted(o.dynamics.items()))
    if isinstance(o, NoteContainer):
        return ("NC", [see(n) for n in o.notes])
    if isinstance(o, Bar):
        return ("Bar", o.key.key, o.meter, o.current_beat, o.length, [[e[0], e[1], see(e[2])] for e in o.bar])
    if isinstance(o, Track):
        return ("Track", o.name, repr(o.instrument), repr(o.tuning), [see(b) for b in o.bars])
    if isinstance(o, Composition):
        return ("Comp", o.title, o.subtitle, o.author, o.email, o.description, list(o.selected_tracks),
                [see(t) for t in o.tracks])
    if isinstance(o, Suite):
        return ("Suite", o.title, o.subtitle, o.author, o.email, o.description, [see(c) for c in o.compositions])
    if isinstance(o, MidiTrack):
        return ("MT", o.track_data, o.delta_time, o.delay, o.bpm, o.change_instrument, o.instrument,
                o.get_midi_data())
    if isinstance(o, MidiFile):
        return ("MF", o.time_division, [see(t) for t in o.tracks], o.get_midi_data())
    if isinstance(o, Sequencer):
        return ("Seq", len(o.listeners), repr(o.output))
    if isinstance(o, MidiInstrument):
        return ("Instr", o.name, o.range, o.clef, o.tuning, getattr(o, "instrument_nr", None))
    return repr(o)


def class_defaults(cls):
    out = {}
    for name in dir(cls):
        if name.startswith("_"):
            continue
        v = getattr(cls, name)
        if callable(v) or isinstance(v, property):
            continue
        out[name] = repr(v)
    return out


class Listener(object):
    def __init__(self):
        self.msgs = []

    def notify(self, t, p):
        self.msgs.append(t)


def scripts():
    """(class, maker, list of operation scripts)."""

    def nc_ops():
        return [
            lambda x: x.add_note("F#", 5, {"velocity": 3}),
            lambda x: x.add_notes(["A", "C", ["E", 6]]),
            lambda x: x.from_chord_shorthand("Gm7"),
            lambda x: x.from_interval_shorthand("C", "b3", False),
            lambda x: x.from_progression_shorthand("V7", "Eb"),
            lambda x: x.augment(),
            lambda x: x.transpose("3"),
            lambda x: x.remove_note("C"),
            lambda x: x.remove_duplicate_notes(),
            lambda x: x.__setitem__(0, "B"),
            lambda x: x + "D",
            lambda x: x - "D",
            lambda x: x.notes.append(Note("Bb", 2)),
            lambda x: x.sort(),
            lambda x: x.empty(),
            lambda x: x.add_notes(NoteContainer(["C", "E"])),
            lambda x: [n.set_velocity(5) for n in x],
        ]

    def bar_ops():
        return [
            lambda x: x.place_notes(["C", "E"], 4),
            lambda x: x.place_notes(NoteContainer("G"), 8),
            lambda x: x.place_rest(8),
            lambda x: x + "A",
            lambda x: x.place_notes_at(["B"], 0.0),
            lambda x: x.augment(),
            lambda x: x.transpose("5", False),
            lambda x: x.__setitem__(0, ["D", "F"]),
            lambda x: x.remove_last_entry(),
            lambda x: x.set_meter((6, 8)),
            lambda x: x.bar.append([0.9, 16, NoteContainer("C")]),
            lambda x: x[0][2].add_note("Bb"),
            lambda x: x.empty(),
            lambda x: x.place_notes("C", 2),
        ]

    def track_ops():
        return [
            lambda x: x.add_notes(["C", "E", "G"], 4),
            lambda x: x + "A",
            lambda x: x + Bar("F", (3, 4)),
            lambda x: x.from_chords(["C", ["Am", "Dm"], "G7"], 1),
            lambda x: x.augment(),
            lambda x: x.transpose("b3"),
            lambda x: x.__setitem__(0, Bar("D")),
            lambda x: x.bars.append(Bar("Eb")),
            lambda x: x[0].place_notes("C", 4),
            lambda x: setattr(x, "name", "other"),
            lambda x: x.set_tuning("fake tuning"),
            lambda x: x.add_notes(None, 2),
        ]

    def comp_ops():
        return [
            lambda x: x.add_track(Track()),
            lambda x: x + Track(),
            lambda x: x.add_note("C"),
            lambda x: x + NoteContainer(["E", "G"]),
            lambda x: x.set_title("T", "S"),
            lambda x: x.set_author("A", "e@x"),
            lambda x: x.tracks.append(Track()),
            lambda x: x.__setitem__(0, Track().add_notes("D") and Track()),
            lambda x: x[1].add_notes("F"),
            lambda x: x.reset(),
            lambda x: x.add_track(Track()),
            lambda x: x.empty(),
            lambda x: x + Track(),
        ]

    def suite_ops():
        return [
            lambda x: x.add_composition(Composition()),
            lambda x: x + Composition(),
            lambda x: x.set_title("T", "S"),
            lambda x: x.set_author("A", "e"),
            lambda x: x.__setitem__(0, Composition()),
            lambda x: x[0].add_track(Track()),
            lambda x: x.compositions.append(Composition()),
            lambda x: setattr(x, "description", "d"),
        ]

    def note_ops():
        return [
            lambda x: x.set_note("Eb", 2, {"velocity": 1}),
            lambda x: x.set_note("F#-6"),
            lambda x: x.set_velocity(100),
            lambda x: x.set_channel(9),
            lambda x: x.augment(),
            lambda x: x.diminish(),
            lambda x: x.transpose("b7"),
            lambda x: x.transpose("4", up=False),
            lambda x: x.change_octave(-10),
            lambda x: x.octave_up(),
            lambda x: x.from_int(70),
            lambda x: x.from_hertz(1000),
            lambda x: x.from_shorthand("c#''"),
            lambda x: x.remove_redundant_accidentals(),
            lambda x: x.empty(),
        ]

    def mt_ops():
        b = Bar("Eb", (3, 4))
        b.place_notes(["C", "E"], 4)
        b.place_rest(4)
        b.place_notes("G", 4)
        t = Track(MidiInstrument())
        t.instrument.instrument_nr = 13
        t.add_bar(b)
        return [
            lambda x: x.play_Note(Note("C", 4, velocity=50, channel=2)),
            lambda x: x.set_deltatime(72),
            lambda x: x.stop_Note(Note("C")),
            lambda x: x.play_NoteContainer(NoteContainer(["C", "E", "G"])),
            lambda x: x.set_deltatime(b"\x48"),
            lambda x: x.stop_NoteContainer(NoteContainer(["C", "E", "G"])),
            lambda x: x.play_Bar(b),
            lambda x: x.play_Track(t),
            lambda x: x.set_instrument(1, 40),
            lambda x: x.set_tempo(90),
            lambda x: x.set_meter((6, 8)),
            lambda x: x.set_key("f#"),
            lambda x: x.set_track_name("name"),
            lambda x: x.reset(),
            lambda x: x.play_Bar(b),
        ]

    def mf_ops():
        return [
            lambda x: x.tracks.append(MidiTrack(100)),
            lambda x: x.tracks[0].play_Note(Note("E")),
            lambda x: x.get_midi_data(),
            lambda x: setattr(x, "time_division", b"\x00\x60"),
            lambda x: x.reset(),
            lambda x: x.tracks.append(MidiTrack()),
        ]

    def seq_ops():
        return [
            lambda x: x.attach(Listener()),
            lambda x: x.play_Note(Note("C"), 1, 100),
            lambda x: x.stop_Note(Note("C"), 1),
            lambda x: x.set_instrument(1, 5),
            lambda x: x.listeners.append(Listener()),
            lambda x: x.detach(x.listeners[0]),
        ]

    return [
        (Note, lambda: Note("G", 3, velocity=70, channel=2), note_ops),
        (Note, lambda: Note(), note_ops),
        (NoteContainer, lambda: NoteContainer(["C", "E", "G"]), nc_ops),
        (NoteContainer, lambda: NoteContainer(), nc_ops),
        (Bar, lambda: Bar("D", (4, 4)), bar_ops),
        (Bar, lambda: Bar(), bar_ops),
        (Track, lambda: Track(), track_ops),
        (Track, lambda: Track(MidiInstrument()), track_ops),
        (Composition, lambda: Composition(), comp_ops),
        (Suite, lambda: Suite(), suite_ops),
        (MidiTrack, lambda: MidiTrack(), mt_ops),
        (MidiTrack, lambda: MidiTrack(start_bpm=77), mt_ops),
        (MidiFile, lambda: MidiFile(), mf_ops),
        (MidiFile, lambda: MidiFile([MidiTrack()]), mf_ops),
        (MidiFile, lambda: MidiFile(tracks=[]), mf_ops),
        (Sequencer, lambda: Sequencer(), seq_ops),
    ]


def part_siblings():
    all_classes = [Note, NoteContainer, Bar, Track, Composition, Suite, MidiTrack, MidiFile, Sequencer]
    for cls, make, ops in scripts():
        for seed in range(4):
            rng = random.Random(seed)
            sibling_before = make()
            actor = make()
            sibling_mid = make()
            fresh0 = see(make())
            s_before, s_mid = see(sibling_before), see(sibling_mid)
            defaults = {c.__name__: class_defaults(c) for c in all_classes}
            script = ops()
            if seed:
                rng.shuffle(script)
                script = script + ops()[: rng.randrange(0, 5)]
            for op in script:
                outcome(op, actor)
            label = "%s seed %d" % (cls.__name__, seed)
            check(see(sibling_before) == s_before, "%s: an older sibling changed" % label)
            check(see(sibling_mid) == s_mid, "%s: a younger sibling changed" % label)
            check(see(make()) == fresh0, "%s: a fresh instance differs after operating on another" % label)
            check({c.__name__: class_defaults(c) for c in all_classes} == defaults, "%s: class defaults changed" % label)
            # the untouched sibling must still work like a fresh object
            probe, control = sibling_before, make()
            for op in ops()[:6]:
                outcome(op, probe)
                outcome(op, control)
            check(see(probe) == see(control), "%s: sibling behaves differently from a fresh instance" % label)


# --------------------------------------------------------------------------
# 5. copies are independent
# --------------------------------------------------------------------------
def part_copies():
    for name, octave, vel, chan in [("C", 4, 64, 1), ("F#", 2, 10, 9), ("Bbb", 7, 127, 0), ("E#", 0, 0, 15)]:
        orig = Note(name, octave, velocity=vel, channel=chan)
        snap = see(orig)
        for mk in (lambda o: Note(o), lambda o: Note(name=o), copy.copy, copy.deepcopy):
            cp = mk(orig)
            check(see(cp) == snap, "copy of note differs")
            cp.set_note("D", 1, {"velocity": 5, "channel": 4})
            cp.transpose("3")
            cp.augment()
            cp.dynamics["velocity"] = 77
            check(see(orig) == snap, "changing a copy changed the original note")
            cp2 = mk(orig)
            orig.set_velocity(33)
            orig.octave_up()
            orig.diminish()
            check(see(cp2) == snap, "changing the original changed the note copy")
            orig.set_note(name, octave, velocity=vel, channel=chan)
    for src in (["C", "E", "G"], [["C", 2, {"velocity": 9}], "F#-7"], []):
        orig = NoteContainer(src)
        snap = see(orig)
        def via_add_notes(o):
            fresh = NoteContainer()
            fresh.add_notes(o)
            return fresh

        for mk in (lambda o: NoteContainer(o), lambda o: NoteContainer(notes=o), via_add_notes, copy.deepcopy):
            cp = mk(orig)
            check(see(cp) == snap, "copy of container differs")
            cp.augment()
            cp.transpose("5")
            cp.add_note("B", 8)
            [n.set_velocity(1) for n in cp]
            cp.remove_note("C")
            check(see(orig) == snap, "changing a container copy changed the original")
            cp = NoteContainer(orig)
            orig.diminish()
            orig.add_note("A", 1)
            check(see(cp) == snap, "changing the original changed the container copy")
            orig = NoteContainer(src)
    b = Bar("G", (3, 4))
    b.place_notes(["C", "E"], 4)
    b.place_rest(4)
    t = Track()
    t.add_bar(b)
    t.add_notes("C", 4)
    c = Composition()
    c.add_track(t)
    s = Suite()
    s.add_composition(c)
    for obj in (b, t, c, s):
        snap = see(obj)
        cp = copy.deepcopy(obj)
        check(see(cp) == snap, "deep copy differs")
        if isinstance(cp, Bar):
            cp.transpose("3"), cp.place_notes("A", 4), cp.set_meter((2, 2))
        elif isinstance(cp, Track):
            cp.augment(), cp.add_notes("B"), cp.add_bar(Bar())
        elif isinstance(cp, Composition):
            cp.add_note("F"), cp.add_track(Track()), cp.set_title("x")
        else:
            cp.add_composition(Composition()), cp[0].add_note("F"), cp.set_author("y")
        check(see(obj) == snap, "changing a deep copy changed the original %s" % type(obj).__name__)
    # a bar continued by a track is a new bar
    t2 = Track()
    for i in range(9):
        t2.add_notes(["C", "E"], 4)
    snaps = [see(x) for x in t2.bars]
    t2.bars[-1].set_meter((6, 8))
    t2.bars[-1].transpose("2")
    check([see(x) for x in t2.bars[:-1]] == snaps[:-1], "bars created by a track share content")


def main():
    if "--battery" in sys.argv:
        json.dump(run_battery(), sys.stdout)
        return 0
    env = dict(os.environ)
    out = subprocess.run([sys.executable, os.path.abspath(__file__), "--battery"], env=env, stdout=subprocess.PIPE,
                         check=True).stdout
    cold = json.loads(out.decode())
    # the cold results of a second cold interpreter agree as well (nothing depends on hashing or timing)
    part_arguments()
    part_siblings()
    part_copies()
    part_history(cold)
    if FAILURES:
        for m in FAILURES[:40]:
            print("FAIL:", m)
        print("%d of %d checks failed" % (len(FAILURES), CASES[0]))
        return 1
    print("ok: %d checks, battery of %d queries" % (CASES[0], len(cold)))
    return 0


if __name__ == "__main__":
    sys.exit(main())
