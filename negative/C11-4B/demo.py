import mingus, os; assert os.path.realpath(mingus.__file__).startswith(os.path.realpath(os.path.dirname(__file__)))
import random
import sys
import warnings

warnings.simplefilter("ignore")

from mingus.containers import Note, NoteContainer, Bar, Track

LETTERS = "CDEFGAB"
NATURAL = {"C": 0, "D": 2, "E": 4, "F": 5, "G": 7, "A": 9, "B": 11}
MAJOR = {1: 0, 2: 2, 3: 4, 4: 5, 5: 7, 6: 9, 7: 11}
ACCIDENTALS = ["", "#", "b", "##", "bb"]
NAMES = [l + a for l in LETTERS for a in ACCIDENTALS]
ALL_SHORTHANDS = [a + str(n) for n in range(1, 8) for a in ACCIDENTALS]
assert len(ALL_SHORTHANDS) == 35

failures = []
checked = [0]


def check(cond, msg):
    checked[0] += 1
    if not cond:
        failures.append(msg)
        if len(failures) > 20:
            finish()


def finish():
    if failures:
        print("PROPERTY C11 VIOLATED (%d failures, %d checks)" % (len(failures), checked[0]))
        for f in failures[:20]:
            print("  " + f)
        sys.exit(1)
    print("C11 holds on %d checks" % checked[0])
    sys.exit(0)


def size(shorthand):
    acc = shorthand[:-1]
    return MAJOR[int(shorthand[-1])] + acc.count("#") - acc.count("b")


def pitch(name, octave):
    return octave * 12 + NATURAL[name[0]] + name[1:].count("#") - name[1:].count("b")


SHORTHANDS = [s for s in ALL_SHORTHANDS if 0 <= size(s) <= 11]

# ---------------------------------------------------------------- single notes
for name in NAMES:
    for octave in range(0, 9):
        for sh in SHORTHANDS:
            for up in (True, False):
                n = Note(name, octave)
                before = int(n)
                check(before == pitch(name, octave), "int(Note(%r,%d)) = %d" % (name, octave, before))
                if octave % 3 == 0:
                    res = n.transpose(interval=sh, up=up)
                elif up and octave % 3 == 1:
                    res = n.transpose(sh)
                else:
                    res = n.transpose(sh, up)
                tag = "Note(%r,%d).transpose(%r,%r) -> %r" % (name, octave, sh, up, n)
                sign = 1 if up else -1
                check(int(n) == before + sign * size(sh), tag + ": pitch %d -> %d" % (before, int(n)))
                check(int(n) == pitch(n.name, n.octave), tag + ": int() disagrees with name/octave")
                want_letter = LETTERS[(LETTERS.index(name[0]) + sign * (int(sh[-1]) - 1)) % 7]
                check(n.name[0] == want_letter, tag + ": expected letter " + want_letter)
                check(set(n.name[1:]) <= set("#") or set(n.name[1:]) <= set("b"), tag + ": odd name")
                n.transpose(sh, not up)
                check(
                    (n.name, n.octave) == (name, octave),
                    tag + ": and back gives %r" % n,
                )

# --------------------------------------------------------------- change_octave
for name in ("C", "F#", "Bb"):
    for octave in range(0, 6):
        for diff in range(-8, 4):
            n = Note(name, octave)
            n.change_octave(diff)
            check(n.octave == max(0, octave + diff), "change_octave(%d) on octave %d -> %r" % (diff, octave, n.octave))
            check(n.name == name, "change_octave changed the name")
n = Note("D", 1)
n.octave_down()
n.octave_down()
n.octave_down()
check(n.octave == 0, "octave_down below 0: %r" % n)
n.octave_up()
check(n.octave == 1, "octave_up: %r" % n)

# ------------------------------------------------------------------ containers
rng = random.Random(1105)


def random_note():
    return Note(rng.choice(NAMES), rng.randint(1, 7))


def random_container():
    k = rng.choice([1, 1, 2, 3, 4])
    return NoteContainer([random_note() for _ in range(k)])


def random_bar():
    b = Bar("C", rng.choice([(4, 4), (3, 4), (6, 8)]))
    while not b.is_full():
        dur = rng.choice([1, 2, 4, 4, 8, 8, 16])
        if rng.random() < 0.25:
            ok = b.place_rest(dur)
        else:
            ok = b.place_notes(random_container(), dur)
        if not ok and dur == 16:
            break
    return b


def random_track():
    t = Track()
    for _ in range(rng.randint(1, 4)):
        t.add_bar(random_bar())
    return t


def snap_nc(nc):
    return None if nc is None else [(x.name, x.octave) for x in nc.notes]


def snap_bar(b):
    return [(e[0], e[1], snap_nc(e[2])) for e in b.bar]


def snap_track(t):
    return [snap_bar(b) for b in t.bars]


def one(name, octave, step):
    """What the step does to a single free-standing note."""
    n = Note(name, octave)
    if step[0] == "transpose":
        n.transpose(step[1], step[2])
    elif step[0] == "augment":
        n.augment()
    else:
        n.diminish()
    return (n.name, n.octave)


def expect_nc(snap, step):
    return None if snap is None else [one(nm, o, step) for (nm, o) in snap]


def expect_bar(snap, step):
    return [(beat, dur, expect_nc(nc, step)) for (beat, dur, nc) in snap]


def expect_track(snap, step):
    return [expect_bar(b, step) for b in snap]


def apply(obj, step, style):
    if step[0] == "transpose":
        if style == 0:
            return obj.transpose(step[1], step[2])
        if style == 1:
            return obj.transpose(interval=step[1], up=step[2])
        if step[2]:
            return obj.transpose(step[1])
        return obj.transpose(step[1], up=False)
    if step[0] == "augment":
        return obj.augment()
    return obj.diminish()


def random_step():
    r = rng.random()
    if r < 0.6:
        return ("transpose", rng.choice(SHORTHANDS), rng.random() < 0.5)
    if r < 0.8:
        return ("augment",)
    return ("diminish",)


# free-standing note: augment / diminish
for name in NAMES:
    n = Note(name, 4)
    p = int(n)
    n.augment()
    check(int(n) == p + 1 and n.name[0] == name[0], "augment %r -> %r" % (name, n))
    n.diminish()
    check((n.name, n.octave) == (name, 4), "augment+diminish %r -> %r" % (name, n))
    n.diminish()
    check(int(n) == p - 1 and n.name[0] == name[0], "diminish %r -> %r" % (name, n))

# note containers
for i in range(150):
    nc = random_container()
    # (names with at most two accidentals here: the round trip is promised for those)
    before = snap_nc(nc)
    sh = rng.choice(SHORTHANDS)
    up = rng.random() < 0.5
    nc.transpose(sh, up).transpose(sh, not up)
    check(snap_nc(nc) == before, "NoteContainer %r there and back %r -> %r" % (sh, before, snap_nc(nc)))
    for j in range(rng.randint(1, 4)):
        step = random_step()
        before = snap_nc(nc)
        res = apply(nc, step, (i + j) % 3)
        check(snap_nc(nc) == expect_nc(before, step), "NoteContainer %r %r -> %r" % (before, step, snap_nc(nc)))
        if step[0] == "transpose":
            check(res is nc, "NoteContainer.transpose should return the container")
    before = snap_nc(nc)
    nc.augment()
    nc.diminish()
    check(snap_nc(nc) == before, "NoteContainer augment+diminish %r -> %r" % (before, snap_nc(nc)))

# bars
for i in range(80):
    b = random_bar()
    beat, length = b.current_beat, b.length
    for j in range(rng.randint(1, 4)):
        step = random_step()
        before = snap_bar(b)
        apply(b, step, (i + j) % 3)
        check(snap_bar(b) == expect_bar(before, step), "Bar %r %r -> %r" % (before, step, snap_bar(b)))
    before = snap_bar(b)
    b.augment()
    b.diminish()
    check(snap_bar(b) == before, "Bar augment+diminish %r -> %r" % (before, snap_bar(b)))
    check((b.current_beat, b.length) == (beat, length), "Bar position/length changed")

# an empty bar and a bar of rests only
b = Bar()
b.transpose("3")
b.augment()
b.diminish()
check(b.bar == [], "empty bar changed")
b.place_rest(2)
b.place_rest(2)
b.transpose("b7", False)
b.augment()
check(snap_bar(b) == [(0.0, 2, None), (0.5, 2, None)], "rests changed: %r" % b.bar)

# tracks
for i in range(80):
    t = random_track()
    nbars = len(t.bars)
    before = snap_track(t)
    sh = rng.choice(SHORTHANDS)
    up = rng.random() < 0.5
    t.transpose(sh, up).transpose(sh, not up)
    check(snap_track(t) == before, "Track %r there and back" % sh)
    for j in range(rng.randint(1, 5)):
        step = random_step()
        before = snap_track(t)
        res = apply(t, step, (i + j) % 3)
        check(snap_track(t) == expect_track(before, step), "Track %r %r -> %r" % (before, step, snap_track(t)))
        check(res is t, "Track.%s should return the track" % step[0])
    before = snap_track(t)
    t.augment().diminish()
    check(snap_track(t) == before, "Track augment+diminish")
    t.diminish().augment()
    check(snap_track(t) == before, "Track diminish+augment")
    check(len(t.bars) == nbars, "number of bars changed")

# every shorthand, both directions, on one long track
t = Track()
for _ in range(40):
    t.add_bar(random_bar())
for sh in SHORTHANDS:
    for up in (True, False):
        step = ("transpose", sh, up)
        before = snap_track(t)
        t.transpose(sh, up)
        check(snap_track(t) == expect_track(before, step), "long Track %r" % (step,))
        t.transpose(sh, not up)
        check(snap_track(t) == before, "long Track %r and back" % (step,))

finish()
