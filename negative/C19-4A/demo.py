import mingus, os; assert os.path.realpath(mingus.__file__).startswith(os.path.realpath(os.path.dirname(__file__)))
# Direct check of property C19: LilyPond and MusicXML exports decode back to the same music.
import random
import re
import sys
import xml.etree.ElementTree as ET
from fractions import Fraction

import mingus.core.value as value
import mingus.extra.lilypond as lilypond
import mingus.extra.musicxml as musicxml
from mingus.containers import Bar, Composition, Note, NoteContainer, Track
from mingus.containers.instrument import Instrument, MidiInstrument, Piano

CASES = [0]


class Mismatch(Exception):
    pass


def need(cond, msg):
    CASES[0] += 1
    if not cond:
        raise Mismatch(msg)


# ---------------------------------------------------------------- vocabulary
LETTERS = "CDEFGAB"
ACCS = ["", "#", "b", "##", "bb"]
NAMES = [l + a for l in LETTERS for a in ACCS]
BASES = [0.25, 0.5, 1, 2, 4, 8, 16, 32, 64, 128]
MAJOR = ["Cb", "Gb", "Db", "Ab", "Eb", "Bb", "F", "C", "G", "D", "A", "E", "B", "F#", "C#"]
MINOR = ["ab", "eb", "bb", "f", "c", "g", "d", "a", "e", "b", "f#", "c#", "g#", "d#", "a#"]
FIFTHS = {}
for i, k in enumerate(MAJOR):
    FIFTHS[k] = i - 7
for i, k in enumerate(MINOR):
    FIFTHS[k] = i - 7
ALL_KEYS = MAJOR + MINOR
METERS = [(4, 4), (3, 4), (6, 8), (2, 2), (5, 4), (7, 8), (12, 8), (2, 4), (9, 8), (8, 1), (16, 1), (3, 2), (1, 1)]

# every value of the vocabulary as (number handed to the library, base, dots, (r1, r2))
VOCAB = []
for b in BASES:
    VOCAB.append((b, b, 0, (1, 1)))
    if isinstance(b, int):
        VOCAB.append((float(b), b, 0, (1, 1)))
    for d in (1, 2, 3, 4):
        VOCAB.append((value.dots(b, d), b, d, (1, 1)))
    VOCAB.append((value.triplet(b), b, 0, (3, 2)))
    VOCAB.append((value.quintuplet(b), b, 0, (5, 4)))
    VOCAB.append((value.septuplet(b), b, 0, (7, 4)))
    VOCAB.append((value.tuplet(b, 3, 2), b, 0, (3, 2)))


def quarter_length(base, dots, ratio):
    return Fraction(4) / Fraction(base) * (2 - Fraction(1, 2 ** dots)) * Fraction(ratio[1], ratio[0])


# ------------------------------------------------------- LilyPond subset reader
TOKEN = re.compile(
    r"""\s*(?:
      (?P<cmd>\\[A-Za-z]+)
    | (?P<frac>\d+/\d+)
    | (?P<num>\d+)
    | (?P<dots>\.+)
    | (?P<open>\{) | (?P<close>\}) | (?P<lt><) | (?P<gt>>)
    | (?P<pitch>[a-g](?:is|es)*[',]*)
    | (?P<rest>r)
    )""",
    re.X,
)


def ly_tokens(text):
    pos, out = 0, []
    text = text.rstrip()
    while pos < len(text):
        m = TOKEN.match(text, pos)
        if not m:
            raise Mismatch("LilyPond text not in the subset at %r" % text[pos : pos + 20])
        out.append((m.lastgroup, m.group(m.lastgroup)))
        pos = m.end()
    return out


def ly_pitch(tok):
    m = re.match(r"^([a-g])((?:is|es)*)([',]*)$", tok)
    acc = m.group(2)
    pairs = [acc[i : i + 2] for i in range(0, len(acc), 2)]
    name = m.group(1).upper() + "".join("#" if p == "is" else "b" for p in pairs)
    marks = m.group(3)
    if marks and len(set(marks)) != 1:
        raise Mismatch("mixed octave marks in %r" % tok)
    octave = 3 + (len(marks) if marks.startswith("'") else -len(marks))
    return name, octave


class LyReader(object):
    """Reads  { ... }  music into nested lists of events."""

    def __init__(self, text):
        self.toks = ly_tokens(text)
        self.i = 0

    def peek(self):
        return self.toks[self.i] if self.i < len(self.toks) else (None, None)

    def take(self, kind=None):
        k, v = self.peek()
        if k is None or (kind and k != kind):
            raise Mismatch("LilyPond reader expected %s, got %s %r" % (kind, k, v))
        self.i += 1
        return v

    def block(self, ratio=(1, 1)):
        self.take("open")
        items = self.items(ratio)
        self.take("close")
        return items

    def items(self, ratio):
        out = []
        while True:
            k, v = self.peek()
            if k in ("close", None):
                return out
            if k == "open":
                out.append(("block", self.block(ratio)))
            elif k == "cmd":
                self.take()
                if v == "\\time":
                    n, d = self.take("frac").split("/")
                    out.append(("time", (int(n), int(d))))
                elif v == "\\key":
                    tonic = ly_pitch(self.take("pitch"))
                    mode = self.take("cmd")
                    if mode not in ("\\major", "\\minor"):
                        raise Mismatch("unknown mode %r" % mode)
                    if tonic[1] != 3:
                        raise Mismatch("octave marks on a key tonic")
                    out.append(("key", (tonic[0], mode[1:])))
                elif v == "\\times":
                    n, d = self.take("frac").split("/")
                    # \times n/d : d notes in the time of n
                    out.extend(self.block((int(d), int(n))))
                else:
                    raise Mismatch("unexpected command %r" % v)
            elif k in ("pitch", "rest", "lt"):
                out.append(self.entry(ratio))
            else:
                raise Mismatch("unexpected token %r" % v)

    def entry(self, ratio):
        k, v = self.peek()
        if k == "rest":
            self.take()
            notes = []
        elif k == "pitch":
            self.take()
            notes = [ly_pitch(v)]
        else:
            self.take("lt")
            notes = []
            while self.peek()[0] == "pitch":
                notes.append(ly_pitch(self.take()))
            self.take("gt")
        base = None
        dots = 0
        k, v = self.peek()
        if k == "num":
            self.take()
            base = int(v)
        elif k == "cmd" and v in ("\\longa", "\\breve"):
            self.take()
            base = 0.25 if v == "\\longa" else 0.5
        if base is not None and self.peek()[0] == "dots":
            dots = len(self.take())
        return ("entry", notes, base, dots, ratio)

    def whole(self):
        items = self.items((1, 1))
        if self.i != len(self.toks):
            raise Mismatch("trailing LilyPond text")
        return items


def expected_entries(bar_spec):
    out = []
    for notes, (num, base, dots, ratio) in bar_spec["entries"]:
        out.append(("entry", [tuple(n) for n in notes], base, dots, ratio))
    return out


def check_ly_bar(items, bar_spec, prev, what):
    """items: decoded contents of one bar block.  prev: (key, meter) before this bar."""
    shown_key = [x[1] for x in items if x[0] == "key"]
    shown_time = [x[1] for x in items if x[0] == "time"]
    entries = [x for x in items if x[0] == "entry"]
    need(all(x[0] in ("key", "time", "entry") for x in items), "%s: nested block inside a bar" % what)
    k = bar_spec["key"]
    want_key = (k[0].upper() + k[1:], "minor" if k[0].islower() else "major")
    need(len(shown_key) <= 1 and len(shown_time) <= 1, "%s: key/time shown twice" % what)
    if shown_key:
        need(shown_key[0] == want_key, "%s: key %r decoded as %r" % (what, want_key, shown_key[0]))
    if shown_time:
        need(shown_time[0] == tuple(bar_spec["meter"]), "%s: meter %r decoded as %r" % (what, bar_spec["meter"], shown_time[0]))
    if prev is not None:
        if prev[0] != k:
            need(shown_key, "%s: key change %r -> %r not shown" % (what, prev[0], k))
        if tuple(prev[1]) != tuple(bar_spec["meter"]):
            need(shown_time, "%s: meter change not shown" % what)
    # key / time must come before the music they govern
    first_entry = min([i for i, x in enumerate(items) if x[0] == "entry"] or [len(items)])
    need(all(i < first_entry for i, x in enumerate(items) if x[0] in ("key", "time")), "%s: key/time after notes" % what)
    want = expected_entries(bar_spec)
    need(entries == want, "%s: entries decoded as\n  %r\nexpected\n  %r" % (what, entries, want))


def check_ly_track(items, track_spec, what):
    blocks = [x for x in items]
    need(all(x[0] == "block" for x in blocks), "%s: track holds something else than bars" % what)
    need(len(blocks) == len(track_spec["bars"]), "%s: %d bars decoded, %d expected" % (what, len(blocks), len(track_spec["bars"])))
    prev = ("C", (4, 4))
    for n, (blk, bs) in enumerate(zip(blocks, track_spec["bars"])):
        check_ly_bar(blk[1], bs, prev, "%s bar %d" % (what, n))
        prev = (bs["key"], bs["meter"])


# ----------------------------------------------------------------- builders
def build_nc(notes):
    if notes is None:
        return None
    nc = NoteContainer()
    for name, octv in notes:
        nc.notes.append(Note(name, octv))  # keep given order, no sorting / dedup
    return nc


def build_bar(spec):
    bar = Bar(spec["key"], spec["meter"])
    for notes, val in spec["entries"]:
        nc = build_nc(notes if notes else (None if spec.get("rest_none", True) else []))
        ok = bar.place_notes(nc, val[0])
        assert ok, "demo bug: entry did not fit"
    return bar


def build_track(spec):
    t = Track()
    for b in spec["bars"]:
        t.add_bar(build_bar(b))
    if spec.get("name") is not None:
        t.name = spec["name"]
    if spec.get("instrument") is not None:
        t.instrument = spec["instrument"]
    return t


def build_comp(spec):
    c = Composition()
    c.set_title(spec["title"], spec["subtitle"])
    c.set_author(spec["author"], "someone@example.org")
    for t in spec["tracks"]:
        c.add_track(build_track(t))
    return c


def random_notes(rng, n):
    seen, out = set(), []
    while len(out) < n:
        p = (rng.choice(NAMES), rng.randint(0, 8))
        if p not in seen:
            seen.add(p)
            out.append(p)
    return out


def random_bar(rng, key=None, meter=None, empty_ok=True):
    meter = meter or rng.choice(METERS)
    key = key or rng.choice(ALL_KEYS)
    length = Fraction(meter[0], meter[1])
    spec = {"key": key, "meter": meter, "entries": [], "rest_none": rng.random() < 0.7}
    if empty_ok and rng.random() < 0.1:
        return spec
    used = Fraction(0)
    for _ in range(rng.randint(1, 10)):
        val = rng.choice(VOCAB)
        ln = quarter_length(*val[1:]) / 4
        if used + ln > length:
            continue
        used += ln
        kind = rng.random()
        notes = [] if kind < 0.2 else random_notes(rng, 1 if kind < 0.5 else rng.randint(2, 5))
        spec["entries"].append((notes, val))
    return spec


# ----------------------------------------------------------- MusicXML checks
def check_xml(text, comp_spec, what):
    need(isinstance(text, str), "%s: MusicXML is not text" % what)
    try:
        root = ET.fromstring(text)
    except ET.ParseError as e:
        raise Mismatch("%s: MusicXML not well-formed: %s" % (what, e))
    need(root.tag == "score-partwise", "%s: root is %r" % (what, root.tag))
    if comp_spec["title"]:
        need(root.findtext("movement-title") == comp_spec["title"], "%s: title %r came back as %r" % (what, comp_spec["title"], root.findtext("movement-title")))
    if comp_spec["author"]:
        creators = [c.text for c in root.iter("creator")]
        need(comp_spec["author"] in creators, "%s: author %r came back as %r" % (what, comp_spec["author"], creators))
    plist = root.findall("part-list")
    need(len(plist) == 1, "%s: %d part lists" % (what, len(plist)))
    sparts = plist[0].findall("score-part")
    parts = root.findall("part")
    ids = [p.get("id") for p in parts]
    need(len(parts) == len(comp_spec["tracks"]), "%s: %d parts for %d tracks" % (what, len(parts), len(comp_spec["tracks"])))
    need(all(ids) and len(set(ids)) == len(ids), "%s: part ids not unique: %r" % (what, ids))
    need([s.get("id") for s in sparts] == ids, "%s: part list does not match the parts" % what)
    for sp, part, ts in zip(sparts, parts, comp_spec["tracks"]):
        name = ts.get("name")
        need(sp.findtext("part-name") == (name if name is not None else "Untitled"), "%s: track name %r came back as %r" % (what, name, sp.findtext("part-name")))
        if ts.get("instrument") is not None:
            need(sp.findtext("score-instrument/instrument-name") == ts["instrument"].name, "%s: instrument name %r came back as %r" % (what, ts["instrument"].name, sp.findtext("score-instrument/instrument-name")))
        measures = part.findall("measure")
        need(len(measures) == len(ts["bars"]), "%s: %d measures for %d bars" % (what, len(measures), len(ts["bars"])))
        need([m.get("number") for m in measures] == [str(i + 1) for i in range(len(measures))], "%s: measure numbers %r" % (what, [m.get("number") for m in measures]))
        for mno, (m, bs) in enumerate(zip(measures, ts["bars"])):
            w = "%s measure %d" % (what, mno + 1)
            at = m.find("attributes")
            need(at is not None, "%s: no attributes" % w)
            need((int(at.findtext("time/beats")), int(at.findtext("time/beat-type"))) == tuple(bs["meter"]), "%s: meter" % w)
            need(int(at.findtext("key/fifths")) == FIFTHS[bs["key"]], "%s: fifths %r for key %r" % (w, at.findtext("key/fifths"), bs["key"]))
            need(at.findtext("key/mode") == ("minor" if bs["key"][0].islower() else "major"), "%s: mode" % w)
            div = int(at.findtext("divisions"))
            need(div > 0, "%s: divisions %r" % (w, div))
            notes = m.findall("note")
            want = []
            for ns, val in bs["entries"]:
                ql = quarter_length(*val[1:])
                if not ns:
                    want.append((None, False, val[2], ql))
                for i, (nm, octv) in enumerate(ns):
                    alt = nm.count("#") - nm.count("b")
                    want.append(((nm[0], alt, octv), i > 0, val[2], ql))
            got = []
            for n in notes:
                if n.find("rest") is not None:
                    need(n.find("pitch") is None, "%s: rest with pitch" % w)
                    pitch = None
                else:
                    p = n.find("pitch")
                    need(p is not None, "%s: note with neither pitch nor rest" % w)
                    pitch = (p.findtext("step"), int(p.findtext("alter") or 0), int(p.findtext("octave")))
                dur = n.findtext("duration")
                need(dur is not None and re.match(r"^\s*\d+\s*$", dur), "%s: duration %r" % (w, dur))
                got.append((pitch, n.find("chord") is not None, len(n.findall("dot")), Fraction(int(dur), div)))
            need(got == want, "%s: notes decoded as\n  %r\nexpected\n  %r" % (w, got, want))


# ------------------------------------------------------------------- drivers
def check_header(text, spec, what):
    for field, val in (("title", spec["title"]), ("composer", spec["author"]), ("opus", spec["subtitle"])):
        pat = r"\\header\s*\{.*" + field + r'\s*=\s*"' + re.escape(val) + '"'
        need(re.search(pat, text, re.S), "%s: header lacks %s %r" % (what, field, val))


def run():
    rng = random.Random(1919)

    # 1. every note name x octave, as Note and as one-note container
    for name in NAMES:
        for octv in range(0, 9):
            n = Note(name, octv)
            got = LyReader(lilypond.from_Note(n)).whole()
            need(got == [("block", [("entry", [(name, octv)], None, 0, (1, 1))])], "from_Note(%s-%d) -> %r" % (name, octv, got))
            got = LyReader(lilypond.from_Note(n, standalone=False)).whole()
            need(got == [("entry", [(name, octv)], None, 0, (1, 1))], "from_Note(%s-%d, standalone=False) -> %r" % (name, octv, got))
            got = LyReader(lilypond.from_Note(n, False, False)).whole()
            need(got == [("entry", [(name, 3)], None, 0, (1, 1))], "from_Note without octaves %r" % (got,))
    # 2. containers: chords of 1-5, rests, every value
    for val in VOCAB:
        for size in (0, 1, 2, 3, 5):
            notes = random_notes(rng, size)
            nc = build_nc(notes)
            txt = lilypond.from_NoteContainer(nc, val[0], standalone=False)
            got = LyReader(txt).whole()
            need(got == [("entry", notes, val[1], val[2], (1, 1))], "from_NoteContainer(%r, %r) -> %r decoded %r" % (notes, val[0], txt, got))
        got = LyReader(lilypond.from_NoteContainer(None, duration=val[0])).whole()
        need(got == [("block", [("entry", [], val[1], val[2], (1, 1))])], "rest of value %r -> %r" % (val[0], got))
    got = LyReader(lilypond.from_NoteContainer(build_nc([("C", 4), ("E", 4)]))).whole()
    need(got == [("block", [("entry", [("C", 4), ("E", 4)], None, 0, (1, 1))])], "chord without duration %r" % (got,))

    # 3. bars: every key, meters, systematic values, show flags
    bar_specs = []
    for key in ALL_KEYS:
        bar_specs.append(random_bar(rng, key=key))
    for meter in METERS:
        bar_specs.append(random_bar(rng, meter=meter))
    for val in VOCAB:  # each value alone, and surrounded by plain quarters
        for shape in (0, 1):
            entries = [(random_notes(rng, 2), val)]
            if shape:
                q = (4, 4, 0, (1, 1))
                entries = [(random_notes(rng, 1), q)] + entries + [([], q), (random_notes(rng, 3), val), (random_notes(rng, 1), q)]
            bar_specs.append({"key": rng.choice(ALL_KEYS), "meter": (64, 1), "entries": entries})
    for _ in range(120):
        bar_specs.append(random_bar(rng))
    for n, bs in enumerate(bar_specs):
        bar = build_bar(bs)
        for showkey, showtime in ((True, True), (False, True), (True, False), (False, False)):
            if (showkey, showtime) == (True, True):
                txt = lilypond.from_Bar(bar)
            else:
                txt = lilypond.from_Bar(bar, showkey=showkey, showtime=showtime)
            got = LyReader(txt).whole()
            need(len(got) == 1 and got[0][0] == "block", "from_Bar #%d: not one block: %r" % (n, txt))
            items = got[0][1]
            need(bool([x for x in items if x[0] == "key"]) == showkey, "from_Bar #%d: key shown wrongly: %r" % (n, txt))
            need(bool([x for x in items if x[0] == "time"]) == showtime, "from_Bar #%d: time shown wrongly: %r" % (n, txt))
            check_ly_bar(items, bs, None, "from_Bar #%d %r" % (n, txt))
        # the same bar twice gives the same music
        need(LyReader(lilypond.from_Bar(bar)).whole() == LyReader(lilypond.from_Bar(bar)).whole(), "from_Bar not repeatable")

    # 4. tracks and compositions
    titles = ["Untitled", "Tom & Jerry <b>\"quoted\"</b> 'x'", "100% {curly} caf\u00e9 \u266b", "a > b ]]> &amp; &#65;", "line one\nline two", "  padded  ", "x" * 3000, ""]
    instruments = [None, Instrument(), Piano(), MidiInstrument()]
    odd = Instrument()
    odd.name = "Fl\u00fbte <in C> & \"co\""
    odd.clef = "Treble"
    instruments.append(odd)
    for cno in range(40):
        tracks = []
        for tno in range(rng.randint(1, 4)):
            bars = []
            key, meter = rng.choice(ALL_KEYS), rng.choice(METERS)
            for bno in range(rng.randint(0 if tno else 1, 6)):
                if rng.random() < 0.4:
                    key = rng.choice(ALL_KEYS)
                if rng.random() < 0.3:
                    meter = rng.choice(METERS)
                bars.append(random_bar(rng, key=key, meter=meter))
            if cno == 0 and tno == 0:
                bars = [random_bar(rng, key="C", meter=(4, 4)), random_bar(rng, key="a", meter=(4, 4)), random_bar(rng, key="a", meter=(3, 4))]
            if cno == 1 and tno == 0:
                bars = [random_bar(rng, key="C", meter=(4, 4)) for _ in range(60)]
            tracks.append({"bars": bars, "name": rng.choice([None] + titles[:6]) or None, "instrument": rng.choice(instruments)})
        spec = {"title": titles[cno % len(titles)], "author": titles[(cno // 2 + 3) % len(titles)], "subtitle": rng.choice(["", "Op. 1", "sub & title"]), "tracks": tracks}
        comp = build_comp(spec)
        what = "composition %d" % cno
        # LilyPond per track
        for tno, (t, ts) in enumerate(zip(comp.tracks, tracks)):
            got = LyReader(lilypond.from_Track(t)).whole()
            need(len(got) == 1 and got[0][0] == "block", "%s track %d: not one block" % (what, tno))
            check_ly_track(got[0][1], ts, "%s track %d (LilyPond)" % (what, tno))
        # LilyPond whole composition (music part parsed when the header has no braces/quotes of its own)
        txt = lilypond.from_Composition(comp)
        check_header(txt, spec, what)
        if not any(ch in spec["title"] + spec["author"] + spec["subtitle"] for ch in '{}"\\'):
            m = re.match(r'^\s*\\header\s*\{(?:[^{}"]|"[^"]*")*\}', txt)
            need(m, "%s: header not found" % what)
            got = LyReader(txt[m.end() :]).whole()
            need(len(got) == len(tracks) and all(g[0] == "block" for g in got), "%s: %d track blocks" % (what, len(got)))
            for tno, (g, ts) in enumerate(zip(got, tracks)):
                check_ly_track(g[1], ts, "%s track %d (from_Composition)" % (what, tno))
        # MusicXML
        check_xml(musicxml.from_Composition(comp), spec, what + " (MusicXML)")
        check_xml(musicxml.from_Composition(comp), spec, what + " (MusicXML, again)")
        if cno < 6:
            t0 = comp.tracks[0]
            one = {"title": "Untitled", "author": "", "subtitle": "", "tracks": [tracks[0]]}
            check_xml(musicxml.from_Track(t0), one, what + " (MusicXML from_Track)")
            if t0.bars:
                oneb = {"title": "Untitled", "author": "", "subtitle": "", "tracks": [{"bars": [tracks[0]["bars"][0]]}]}
                check_xml(musicxml.from_Bar(t0.bars[0]), oneb, what + " (MusicXML from_Bar)")

    # 5. one bar object used in several tracks, one key object shared
    shared = random_bar(rng, key="F#", meter=(6, 8), empty_ok=False)
    bar = build_bar(shared)
    t1, t2 = Track(), Track()
    t1 + bar
    t1 + bar
    t2 + bar
    c = Composition()
    c + t1
    c + t2
    spec = {"title": "Untitled", "author": "", "subtitle": "", "tracks": [{"bars": [shared, shared]}, {"bars": [shared]}]}
    check_xml(musicxml.from_Composition(c), spec, "shared bar (MusicXML)")
    got = LyReader(lilypond.from_Track(t1)).whole()
    check_ly_track(got[0][1], spec["tracks"][0], "shared bar (LilyPond)")


if __name__ == "__main__":
    try:
        run()
    except Mismatch as e:
        print("PROPERTY C19 VIOLATED: %s" % e)
        sys.exit(1)
    print("ok - %d checks" % CASES[0])
    sys.exit(0)
