import mingus, os; assert os.path.realpath(mingus.__file__).startswith(os.path.realpath(os.path.dirname(__file__)))
import copy
import itertools
import sys

from mingus.containers.note import Note

NATURAL = {"C": 0, "D": 2, "E": 4, "F": 5, "G": 7, "A": 9, "B": 11}
ACCIDENTALS = ["", "#", "b", "##", "bb", "#b", "b#"]
NAMES = [l + a for l in "CDEFGAB" for a in ACCIDENTALS]
OCTAVES = list(range(10))
failures = []
checked = [0]


def check(cond, msg):
    checked[0] += 1
    if not cond:
        failures.append(msg)


def expected(name, octave):
    return 12 * octave + NATURAL[name[0]] + name.count("#") - name[1:].count("b")


def rejected(fn, *args, **kwargs):
    try:
        fn(*args, **kwargs)
    except Exception:
        return True
    return False


# 1. integer value, and the four ways of setting a note
for name in NAMES:
    for octave in OCTAVES:
        n = Note(name, octave)
        want = expected(name, octave)
        check(int(n) == want, "int(Note(%r, %d)) = %r, want %d" % (name, octave, int(n), want))
        check(n.name == name and n.octave == octave, "Note(%r, %d) stored %r %r" % (name, octave, n.name, n.octave))
        text = "%s-%d" % (name, octave)
        check(int(Note(text)) == want, "Note(%r) has pitch %r" % (text, int(Note(text))))
        check(int(Note().set_note(text)) == want, "set_note(%r)" % text)
        check(int(Note(name=name, octave=octave)) == want, "keyword form %r" % text)
        printed = repr(n).strip("'\"")
        check(int(Note(printed)) == want, "printed form %r of %r" % (printed, text))
        printed = str(n).strip("'\"")
        check(int(Note(printed)) == want, "str form %r of %r" % (printed, text))
        check(int(Note(n)) == want, "Note(Note(%r))" % text)
        check(int(Note(want)) == want, "Note(%d)" % want)
        check(int(Note("G", 7).from_int(want)) == want, "from_int(%d)" % want)
        check(Note(want) == n, "Note(%d) != %r" % (want, n))

for i in range(128):
    n = Note(i)
    check(int(n) == i, "int(Note(%d)) = %r" % (i, int(n)))
    check(int(Note().from_int(i)) == i, "from_int(%d)" % i)
    check(int(Note(repr(n).strip("'"))) == i, "printed form of Note(%d)" % i)
    check(int(Note(n)) == i, "copy of Note(%d)" % i)

# 2. comparisons agree with the integers, on all ordered pairs of a spread
spread = [Note(nm, o) for nm in ["C", "B#", "Dbb", "E", "Fb", "E#", "F", "A##", "B", "Cb", "G#", "Ab"] for o in (0, 3, 4, 5, 9)]
spread += [Note(i) for i in (0, 1, 47, 48, 59, 60, 61, 127)]
for a, b in itertools.product(spread, repeat=2):
    x, y = int(a), int(b)
    got = (a < b, a <= b, a == b, a != b, a >= b, a > b)
    want = (x < y, x <= y, x == y, x != y, x >= y, x > y)
    check(got == want, "comparisons of %r and %r: %r, want %r" % (a, b, got, want))
check(Note("B#", 3) == Note("C", 4) and Note("Dbb", 4) == Note("C", 4), "enharmonic notes not equal")
shuffled = spread[::3] + spread[1::3] + spread[2::3]
check([int(n) for n in sorted(shuffled)] == sorted(int(n) for n in shuffled), "sorting is not by pitch")
check(int(max(shuffled)) == max(int(n) for n in shuffled), "max")
check(int(min(shuffled)) == min(int(n) for n in shuffled), "min")


# 3. frequencies
def close(a, b, rel=1e-9):
    return abs(a - b) <= rel * max(abs(a), abs(b))


PITCHES = [440, 415, 432, 442.5, 466.16, 392]
for sp in PITCHES:
    check(close(Note("A", 4).to_hertz(sp), sp), "A-4 at %r gives %r" % (sp, Note("A", 4).to_hertz(sp)))
    check(close(Note("A", 4).to_hertz(standard_pitch=sp), sp), "A-4 keyword at %r" % sp)
    for i in range(128):
        n = Note(i)
        hz = n.to_hertz(sp)
        if i + 12 < 128:
            check(close(Note(i + 12).to_hertz(sp), 2 * hz), "octave above %d at %r does not double" % (i, sp))
        for cents in (0, 40, -40, 17, -33):
            back = Note().from_hertz(hz * 2 ** (cents / 1200.0), sp)
            check(int(back) == i, "Hz round trip of %d (%+d cents, pitch %r) gives %r" % (i, cents, sp, back))
check(close(Note("A", 4).to_hertz(), 440), "default standard pitch")
check(close(Note("A", 5).to_hertz(), 880), "A-5")
check(close(Note("C", 4).to_hertz(), 261.6255653005986), "middle C")
check(int(Note().from_hertz(440)) == 57, "from_hertz(440)")
check(int(Note().from_hertz(hertz=415, standard_pitch=415)) == 57, "from_hertz(415, 415)")

# 4. Helmholtz shorthand
for name in NAMES:
    for octave in OCTAVES:
        sh = Note(name, octave).to_shorthand()
        back = Note("G", 6).from_shorthand(sh)
        check(
            back.name == name and back.octave == octave,
            "shorthand %r of %s-%d reads back as %r" % (sh, name, octave, back),
        )
check(Note("C", 4).to_shorthand() == "c'" and Note("C", 1).to_shorthand() == "C,", "shorthand examples")
check(int(Note().from_shorthand("C,,")) == 0 and int(Note().from_shorthand("c'")) == 48, "from_shorthand examples")

# 5. refused values
for v in (-1000, -2, -1, 128, 129, 255, 10 ** 6):
    check(rejected(Note("C", 4).set_velocity, v), "velocity %d accepted by set_velocity" % v)
    check(rejected(Note, "C", 4, velocity=v), "velocity %d accepted by Note()" % v)
    check(rejected(Note, "C", 4, {"velocity": v}), "velocity %d accepted in dynamics" % v)
    check(rejected(Note("C", 4).set_note, "D", 4, velocity=v), "velocity %d accepted by set_note" % v)
for v in (0, 1, 63, 126, 127):
    n = Note("C", 4, velocity=v)
    check(n.velocity == v, "velocity %d not stored" % v)
    n = Note("C", 4)
    n.set_velocity(v)
    check(n.velocity == v and int(n) == 48, "set_velocity(%d)" % v)
for c in (-100, -2, -1, 16, 17, 128, 10 ** 6):
    check(rejected(Note("C", 4).set_channel, c), "channel %d accepted by set_channel" % c)
    check(rejected(Note, "C", 4, channel=c), "channel %d accepted by Note()" % c)
    check(rejected(Note, "C", 4, {"channel": c}), "channel %d accepted in dynamics" % c)
    check(rejected(Note("C", 4).set_note, "D", 4, channel=c), "channel %d accepted by set_note" % c)
for c in (0, 1, 8, 14, 15):
    n = Note("C", 4, channel=c)
    check(n.channel == c, "channel %d not stored" % c)
    n = Note("C", 4)
    n.set_channel(c)
    check(n.channel == c and int(n) == 48, "set_channel(%d)" % c)
BAD = ["H", "c", "c#", "X-4", "C#x", "Cx", "C-4-4", "C-x", "C-", "1", "C 4", "C-4 ", "%s", "{C}", "C\n", "Ç", "Cis",
       "C-4.5", "C+4", "#C", "bb", "C" + "#" * 20 + "!", 3.5, None, ["C"]]
for bad in BAD:
    check(rejected(Note, bad), "malformed name %r accepted" % (bad,))
    if isinstance(bad, str):
        keep = Note("E", 5)
        check(rejected(keep.set_note, bad), "malformed name %r accepted by set_note" % (bad,))
        check(keep.name == "E" and keep.octave == 5, "refused set_note(%r) changed the note" % (bad,))
        check(rejected(keep.set_note, bad), "malformed name %r accepted the second time" % (bad,))
long_name = "F" + "#" * 300 + "b" * 120
check(int(Note(long_name, 2)) == 24 + 5 + 180, "very long name")

# 6. copies are independent
for name, octave in [("C", 4), ("F##", 0), ("Bbb", 9), ("A", 4)]:
    orig = Note(name, octave, velocity=90, channel=3)
    for how, dup in [("Note(n)", Note(orig)), ("copy", copy.copy(orig)), ("deepcopy", copy.deepcopy(orig))]:
        check(dup is not orig, "%s returned the same object" % how)
        check(int(dup) == int(orig) and dup.name == name and dup.octave == octave, "%s changed the note" % how)
        check(dup.velocity == 90 and dup.channel == 3, "%s lost the dynamics" % how)
        dup.octave_up()
        dup.augment()
        dup.set_velocity(10)
        dup.set_channel(9)
        dup.from_int(30)
        dup.set_note("D", 1)
        check(
            (orig.name, orig.octave, orig.velocity, orig.channel) == (name, octave, 90, 3),
            "changing the %s changed the original" % how,
        )
    dup = Note(orig)
    orig.set_note("G", 2, velocity=1, channel=0)
    check((dup.name, dup.octave, dup.velocity, dup.channel) == (name, octave, 90, 3), "changing the original changed Note(n)")

if failures:
    print("PROPERTY C10 VIOLATED (%d of %d checks):" % (len(failures), checked[0]))
    for f in failures[:20]:
        print("  " + f)
    sys.exit(1)
print("ok: %d checks" % checked[0])
sys.exit(0)
