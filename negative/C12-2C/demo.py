import mingus, os; assert os.path.realpath(mingus.__file__).startswith(os.path.realpath(os.path.dirname(__file__)))
"""Direct check of property C12 (NoteContainer is a pitch-ordered,
duplicate-free set under any history) through the public API only."""
import itertools
import random
import sys

from mingus.containers import Note, NoteContainer
from mingus.core import chords, intervals, progressions

BASE = {"C": 0, "D": 2, "E": 4, "F": 5, "G": 7, "A": 9, "B": 11}
CASES = [0]


def fail(msg):
    print("C12 VIOLATED: %s" % msg)
    sys.exit(1)


def pitch(name, octave):
    return octave * 12 + BASE[name[0]] + name.count("#") - name[1:].count("b")


class Model(object):
    """Pure-python set model: list of (name, octave), ascending pitch."""

    def __init__(self):
        self.items = []

    def pitches(self):
        return [pitch(n, o) for n, o in self.items]

    def put(self, name, octave):
        p = pitch(name, octave)
        if p in self.pitches():
            return
        self.items.append((name, octave))
        self.items.sort(key=lambda t: pitch(*t))

    def add_text(self, text, octave=None):
        if "-" in text:
            name, o = text.split("-")
            self.put(name, int(o))
        elif octave is not None:
            self.put(text, octave)
        elif not self.items:
            self.put(text, 4)
        else:
            top = pitch(*self.items[-1])
            o = 0
            # the unique octave that puts the name in [top, top + 12)
            while pitch(text, o) < top:
                o += 1
            while pitch(text, o) >= top + 12:
                o -= 1
            self.put(text, o)

    def remove_name(self, name, octave=None):
        self.items = [
            (n, o) for n, o in self.items if not (n == name and (octave is None or o == octave))
        ]

    def remove_pitch(self, p):
        self.items = [t for t in self.items if pitch(*t) != p]

    def copy(self):
        m = Model()
        m.items = list(self.items)
        return m


PAIRWISE = [
    ("is_consonant", (), lambda a, b: intervals.is_consonant(a, b, True)),
    ("is_consonant", (False,), lambda a, b: intervals.is_consonant(a, b, False)),
    ("is_perfect_consonant", (), lambda a, b: intervals.is_perfect_consonant(a, b, True)),
    ("is_perfect_consonant", (False,), lambda a, b: intervals.is_perfect_consonant(a, b, False)),
    ("is_imperfect_consonant", (), lambda a, b: intervals.is_imperfect_consonant(a, b)),
]


def check(nc, model, what, deep=True):
    CASES[0] += 1
    got = [(n.name, n.octave) for n in nc.notes]
    if got != model.items:
        fail("%s: container holds %r, set model predicts %r" % (what, got, model.items))
    ps = [int(n) for n in nc.notes]
    if ps != model.pitches():
        fail("%s: pitches %r != %r" % (what, ps, model.pitches()))
    if any(a >= b for a, b in zip(ps, ps[1:])):
        fail("%s: not strictly ascending: %r" % (what, ps))
    if len(nc) != len(model.items):
        fail("%s: len %r != %r" % (what, len(nc), len(model.items)))
    if not deep:
        return
    # indexing / iteration agree
    if [int(x) for x in nc] != ps or any(int(nc[i]) != ps[i] for i in range(len(ps))):
        fail("%s: iteration/indexing disagree with content" % what)
    # membership
    pset = set(ps)
    lo = (min(ps) if ps else 48) - 3
    hi = (max(ps) if ps else 48) + 3
    for p in range(max(lo, 0), hi + 1):
        probe = Note().from_int(p)
        if (probe in nc) != (p in pset):
            fail("%s: membership of pitch %d is %r" % (what, p, probe in nc))
    for n, o in model.items:
        if Note(n, o) not in nc:
            fail("%s: %s-%d not reported as member" % (what, n, o))
    # equality
    twin = NoteContainer([Note(n, o) for n, o in model.items])
    if not (nc == twin and twin == nc) or nc != twin:
        fail("%s: not equal to a container with the same content" % what)
    rev = NoteContainer([Note(n, o) for n, o in reversed(model.items)])
    if not nc == rev:
        fail("%s: not equal to a container built in reverse order" % what)
    if model.items:
        fewer = NoteContainer([Note(n, o) for n, o in model.items[1:]])
        if nc == fewer or fewer == nc:
            fail("%s: equal to a container missing its lowest note" % what)
        n0, o0 = model.items[-1]
        other = NoteContainer([Note(n, o) for n, o in model.items[:-1]] + [Note(n0, o0 + 2)])
        if nc == other:
            fail("%s: equal to a container with a different top note" % what)
    else:
        if not nc == NoteContainer():
            fail("%s: empty container not equal to empty container" % what)
    # unique names
    names = []
    for n, _ in model.items:
        if n not in names:
            names.append(n)
    if list(nc.get_note_names()) != names:
        fail("%s: get_note_names %r != %r" % (what, nc.get_note_names(), names))
    # consonance predicates
    pairs = list(itertools.combinations([n for n, _ in model.items], 2))
    for meth, args, pred in PAIRWISE:
        want = all(pred(a, b) for a, b in pairs)
        have = getattr(nc, meth)(*args)
        if bool(have) != want:
            fail("%s: %s%r gives %r, pairwise says %r" % (what, meth, args, have, want))
    for flag in (False, True):
        want = not all(intervals.is_consonant(a, b, not flag) for a, b in pairs)
        if bool(nc.is_dissonant(flag)) != want:
            fail("%s: is_dissonant(%r) gives %r" % (what, flag, nc.is_dissonant(flag)))
    if bool(nc.is_dissonant()) != (not all(intervals.is_consonant(a, b, True) for a, b in pairs)):
        fail("%s: is_dissonant() disagrees" % what)


# --- the alphabet of operations: (label, apply to container, apply to model)
def _other_container():
    return NoteContainer([Note("E", 3), Note("G", 4), Note("Bb", 4)])


def op_add_container(nc, m):
    r = nc.add_notes(_other_container())
    for n, o in (("E", 3), ("G", 4), ("Bb", 4)):
        m.put(n, o)
    return nc


def op_plus_list(nc, m):
    r = nc + ["E", "G#", "C"]
    for t in ("E", "G#", "C"):
        m.add_text(t)
    return r


def op_add_pairs(nc, m):
    nc.add_notes([["C", 5], ["Eb", 3, {"velocity": 20}], ["C", 5]])
    m.put("C", 5)
    m.put("Eb", 3)
    return nc


def op_minus_list(nc, m):
    r = nc - ["E", Note("G", 4)]
    m.remove_name("E")
    m.remove_pitch(pitch("G", 4))
    return r


def mk(label, f, g):
    def op(nc, m):
        r = f(nc)
        g(m)
        return nc if r is None or isinstance(r, list) else r

    op.__name__ = label
    return op


OPS = [
    mk("add_note(Note C-4)", lambda nc: nc.add_note(Note("C", 4)), lambda m: m.put("C", 4)),
    mk("add_note(Note Dbb-4)", lambda nc: nc.add_note(Note("Dbb", 4)), lambda m: m.put("Dbb", 4)),
    mk("add_note(Note G-2)", lambda nc: nc.add_note(Note("G", 2)), lambda m: m.put("G", 2)),
    mk("add_note('E')", lambda nc: nc.add_note("E"), lambda m: m.add_text("E")),
    mk("add_note('C')", lambda nc: nc.add_note("C"), lambda m: m.add_text("C")),
    mk("add_note('B#')", lambda nc: nc.add_note("B#"), lambda m: m.add_text("B#")),
    mk("add_note('G', 4)", lambda nc: nc.add_note("G", 4), lambda m: m.add_text("G", 4)),
    mk("add_note('E', octave=6)", lambda nc: nc.add_note("E", octave=6), lambda m: m.add_text("E", 6)),
    mk("add_note('A-3')", lambda nc: nc.add_note("A-3"), lambda m: m.add_text("A-3")),
    mk("add_notes('F#-4')", lambda nc: nc.add_notes("F#-4"), lambda m: m.add_text("F#-4")),
    mk("+ 'G'", lambda nc: nc + "G", lambda m: m.add_text("G")),
    mk("+ Note(E-5)", lambda nc: nc + Note("E", 5), lambda m: m.put("E", 5)),
    op_add_container,
    op_plus_list,
    op_add_pairs,
    mk("remove_note('E')", lambda nc: nc.remove_note("E"), lambda m: m.remove_name("E")),
    mk("remove_note('C')", lambda nc: nc.remove_note("C"), lambda m: m.remove_name("C")),
    mk("remove_note('G', 4)", lambda nc: nc.remove_note("G", 4), lambda m: m.remove_name("G", 4)),
    mk("remove_note('E', octave=4)", lambda nc: nc.remove_note("E", octave=4), lambda m: m.remove_name("E", 4)),
    mk("remove_note(Note C-4)", lambda nc: nc.remove_note(Note("C", 4)), lambda m: m.remove_pitch(48)),
    mk("remove_notes('G')", lambda nc: nc.remove_notes("G"), lambda m: m.remove_name("G")),
    mk("- Note(B#-3)", lambda nc: nc - Note("B#", 3), lambda m: m.remove_pitch(48)),
    mk("- 'Bb'", lambda nc: nc - "Bb", lambda m: m.remove_name("Bb")),
    op_minus_list,
]


def run_sequence(seq, deep_every=True):
    nc = NoteContainer()
    m = Model()
    trail = []
    for op in seq:
        trail.append(op.__name__)
        r = op(nc, m)
        if r is not nc:
            fail("%s: operator did not hand back the container" % " ; ".join(trail))
        check(nc, m, " ; ".join(trail), deep=deep_every)
    return nc, m


def exhaustive():
    # depth 1 and 2 with the full check, depth 3 with the content check after
    # every step and the full check at the end
    for op in OPS:
        run_sequence([op])
    for seq in itertools.product(OPS, repeat=2):
        run_sequence(seq)
    for seq in itertools.product(OPS, repeat=3):
        nc, m = run_sequence(seq, deep_every=False)
    # full check at depth 3 on a subset
    rnd = random.Random(12)
    for seq in rnd.sample(list(itertools.product(OPS, repeat=3)), 400):
        nc, m = run_sequence(seq, deep_every=False)
        check(nc, m, "depth 3: " + " ; ".join(o.__name__ for o in seq))


NAMES = ["C", "C#", "Db", "D", "Eb", "E", "E#", "Fb", "F", "F#", "G", "Ab", "A", "Bb", "B", "B#",
         "Cb", "Cbb", "B##", "F##"]


def random_sequences():
    rnd = random.Random(2012)
    for trial in range(120):
        nc = NoteContainer()
        m = Model()
        trail = []
        for step in range(rnd.randint(10, 40)):
            k = rnd.randrange(12)
            name = rnd.choice(NAMES)
            octv = rnd.randint(0, 8)
            if k == 0:
                nc.add_note(Note(name, octv)); m.put(name, octv); d = "add_note(Note %s-%d)" % (name, octv)
            elif k == 1:
                nc.add_note(name); m.add_text(name); d = "add_note(%r)" % name
            elif k == 2:
                nc.add_note(name, octv); m.add_text(name, octv); d = "add_note(%r,%d)" % (name, octv)
            elif k == 3:
                t = "%s-%d" % (name, octv)
                nc.add_notes(t); m.add_text(t); d = "add_notes(%r)" % t
            elif k == 4:
                ns = [rnd.choice(NAMES) for _ in range(rnd.randint(0, 5))]
                nc = nc + ns
                for t in ns:
                    m.add_text(t)
                d = "+ %r" % ns
            elif k == 5:
                items = [(rnd.choice(NAMES), rnd.randint(1, 7)) for _ in range(rnd.randint(0, 4))]
                other = NoteContainer([Note(a, b) for a, b in items])
                nc.add_notes(other)
                for n in other.notes:
                    m.put(n.name, n.octave)
                d = "add_notes(container %r)" % items
            elif k == 6:
                items = [[rnd.choice(NAMES), rnd.randint(1, 7)] for _ in range(rnd.randint(1, 3))]
                nc.add_notes([list(i) for i in items])
                for a, b in items:
                    m.put(a, b)
                d = "add_notes(%r)" % items
            elif k == 7:
                nc.remove_note(name); m.remove_name(name); d = "remove_note(%r)" % name
            elif k == 8:
                if m.items and rnd.random() < 0.7:
                    name, octv = rnd.choice(m.items)
                nc.remove_note(name, octv); m.remove_name(name, octv); d = "remove_note(%r,%d)" % (name, octv)
            elif k == 9:
                if m.items and rnd.random() < 0.7:
                    name, octv = rnd.choice(m.items)
                nc = nc - Note(name, octv); m.remove_pitch(pitch(name, octv)); d = "- Note(%s-%d)" % (name, octv)
            elif k == 10:
                ns = [rnd.choice(NAMES) for _ in range(rnd.randint(0, 3))]
                nc.remove_notes(ns)
                for t in ns:
                    m.remove_name(t)
                d = "remove_notes(%r)" % ns
            else:
                obs = [Note(rnd.choice(NAMES), rnd.randint(2, 6)) for _ in range(rnd.randint(0, 3))]
                ps = [int(o) for o in obs]
                nc = nc - obs
                for p in ps:
                    m.remove_pitch(p)
                d = "- %r" % obs
            trail.append(d)
            check(nc, m, "random %d: %s" % (trial, " ; ".join(trail)), deep=(step % 4 == 0))
        check(nc, m, "random %d (end): %s" % (trial, " ; ".join(trail)))


def special_cases():
    # the same Note object used several times / in several containers
    n = Note("E", 4)
    a = NoteContainer([n, n])
    b = NoteContainer([n])
    a.add_note(n)
    m = Model(); m.put("E", 4)
    check(a, m, "same note object three times")
    check(b, m, "same note object in second container")
    # a container added to itself, removed from itself
    a = NoteContainer(["C", "E", "G"])
    m = Model()
    for t in ("C", "E", "G"):
        m.add_text(t)
    a = a + a
    check(a, m, "container plus itself")
    a.add_notes(a)
    check(a, m, "container add_notes itself")
    a = a - a
    check(a, Model(), "container minus itself")
    # tuples and iterators where lists are accepted
    a = NoteContainer(("C", "E", "G"))
    check(a, m, "constructor from tuple")
    a = NoteContainer(iter(["C", "E", "G"]))
    check(a, m, "constructor from iterator")
    a = NoteContainer(notes=["C", "E", "G"])
    check(a, m, "constructor keyword")
    a = NoteContainer(); a.add_notes(notes=(x for x in ["C", Note("E", 4), "G"]))
    check(a, m, "add_notes from generator (keyword)")
    a.remove_notes(notes=("C", Note("G", 4)))
    m2 = Model(); m2.put("E", 4)
    check(a, m2, "remove_notes tuple (keyword)")
    a.remove_notes(iter(["E"]))
    check(a, Model(), "remove_notes iterator")
    # single strings and notes straight to the constructor
    check(NoteContainer("A"), _m([("A", 4)]), "constructor from bare name")
    check(NoteContainer("A-2"), _m([("A", 2)]), "constructor from name with octave")
    check(NoteContainer(Note("A", 7)), _m([("A", 7)]), "constructor from note")
    check(NoteContainer(NoteContainer(["A", "C"])), _m([("A", 4), ("C", 5)]), "constructor from container")
    # removal by name removes every octave, with octave only that one
    a = NoteContainer([Note("C", o) for o in range(0, 9)] + [Note("B#", 2), Note("Dbb", 6)])
    m = Model()
    for o in range(9):
        m.put("C", o)
    check(a, m, "C in nine octaves (enharmonic twins dropped)")
    a.remove_note("C", 5); m.remove_name("C", 5)
    check(a, m, "remove C-5 only")
    a.remove_note("B#"); m.remove_name("B#")
    check(a, m, "remove B# (not present by that name)")
    a.remove_note("C"); m.remove_name("C")
    check(a, m, "remove C everywhere")
    # long input
    a = NoteContainer(); m = Model()
    names = [NAMES[(7 * i) % len(NAMES)] for i in range(300)]
    a.add_notes(names)
    for t in names:
        m.add_text(t)
    check(a, m, "300 bare names in a row")
    tops = [int(x) for x in a.notes]
    a2 = NoteContainer(); prev = None
    for t in names:
        before = len(a2)
        a2.add_note(t)
        top = int(a2.notes[-1])
        if prev is not None and not (prev <= top < prev + 12):
            fail("voicing: %r after top %d landed on %d" % (t, prev, top))
        prev = top
    a = NoteContainer([Note().from_int(p) for p in range(119, -1, -1)])
    m = Model()
    for p in range(120):
        nn = Note().from_int(p); m.put(nn.name, nn.octave)
    check(a, m, "120 notes added from the top down")


def _m(items):
    m = Model()
    for n, o in items:
        m.put(n, o)
    return m


ROOTS = ["C", "C#", "Db", "D", "D#", "Eb", "E", "E#", "Fb", "F", "F#", "Gb", "G", "G#", "Ab", "A",
         "A#", "Bb", "B", "B#", "Cb"]


def ascending_from_root(nc, names, root, what):
    m = Model()
    for t in names:
        m.add_text(t)
    check(nc, m, what, deep=False)
    if not nc.notes:
        fail("%s: empty" % what)
    first = nc.notes[0]
    if (first.name, first.octave) != (root, 4):
        fail("%s: starts on %r, not on %s-4" % (what, first, root))
    # ascends through the names in order, each step less than an octave
    prev = None
    k = 0
    for t in names:
        if k < len(nc.notes) and nc.notes[k].name == t:
            p = int(nc.notes[k])
            if prev is not None and not (prev < p < prev + 12):
                fail("%s: step from %d to %d" % (what, prev, p))
            prev = p
            k += 1
    if k != len(nc.notes):
        fail("%s: notes %r do not follow the chord's names %r" % (what, nc.notes, names))


def constructors():
    for sh in sorted(chords.chord_shorthand):
        for root in ROOTS:
            names = chords.from_shorthand(root + sh)
            if not names or not all(isinstance(x, str) for x in names):
                continue
            for meth in ("from_chord", "from_chord_shorthand"):
                nc = NoteContainer(["F", "A"])
                r = getattr(nc, meth)(root + sh)
                if r is not nc:
                    fail("%s(%r) did not return the container" % (meth, root + sh))
                ascending_from_root(nc, names, names[0], "%s(%r)" % (meth, root + sh))
                if names[0] != root:
                    fail("chord %r does not start on its root" % (root + sh))
    for root in ROOTS:
        for acc in ("", "b", "#", "bb", "##"):
            for num in "1234567":
                sh = acc + num
                semis = [0, 2, 4, 5, 7, 9, 11][int(num) - 1] + acc.count("#") - acc.count("b")
                for start in (root, Note(root, 4), Note(root, 6)):
                    so = 4 if isinstance(start, str) else start.octave
                    for up in (True, False):
                        nc = NoteContainer(["D"])
                        args = (start, sh) if up else (start, sh, False)
                        r = nc.from_interval(*args) if root < "E" else nc.from_interval_shorthand(*args)
                        what = "from_interval(%r, %r, up=%r)" % (start, sh, up)
                        if r is not nc:
                            fail(what + " did not return the container")
                        other_name = intervals.from_shorthand(root, sh, up)
                        base = pitch(root, so)
                        target = base + semis if up else base - semis
                        want = sorted(set([base, target]))
                        got = [int(x) for x in nc.notes]
                        if got != want:
                            fail("%s: pitches %r, expected %r" % (what, got, want))
                        gn = sorted((int(x), x.name) for x in nc.notes)
                        if target != base:
                            wn = sorted([(base, root), (target, other_name)])
                            if gn != wn:
                                fail("%s: names %r, expected %r" % (what, gn, wn))
                        elif gn != [(base, root)]:
                            fail("%s: names %r" % (what, gn))
                        CASES[0] += 1
                        if up and semis > 0 and isinstance(start, str):
                            f = nc.notes[0]
                            if (f.name, f.octave) != (root, 4):
                                fail("%s: does not start on %s-4" % (what, root))
    keys = ["C", "G", "D", "A", "E", "B", "F#", "C#", "F", "Bb", "Eb", "Ab", "Db", "Gb", "Cb"]
    for key in keys:
        for numeral in progressions.numerals:
            for acc in ("", "b", "#"):
                for suffix in ("", "7", "m", "dim", "m7", "dom7", "M7", "sus4"):
                    sh = acc + numeral + suffix
                    res = progressions.to_chords(sh, key)
                    if not res:
                        continue
                    names = res[0]
                    nc = NoteContainer(["F", "A"])
                    if key == "C" and acc == "":
                        r = nc.from_progression(sh)
                    elif len(suffix) % 2:
                        r = nc.from_progression_shorthand(sh, key=key)
                    else:
                        r = nc.from_progression(sh, key)
                    if r is not nc:
                        fail("from_progression(%r, %r) did not return the container" % (sh, key))
                    ascending_from_root(nc, names, names[0], "from_progression(%r, %r)" % (sh, key))


def main():
    exhaustive()
    random_sequences()
    special_cases()
    constructors()
    print("C12 holds on %d checked states" % CASES[0])
    sys.exit(0)


if __name__ == "__main__":
    main()
