import mingus, os; assert os.path.realpath(mingus.__file__).startswith(os.path.realpath(os.path.dirname(__file__)))

# Direct check of property C13 (Bar time accounting) through the public API
# against an exact rational model.  Exit 0 when it holds, 1 otherwise.

import copy
import itertools
import random
import sys
from fractions import Fraction

from mingus.containers.bar import Bar
from mingus.containers.note import Note
from mingus.containers.note_container import NoteContainer
from mingus.core import meter as meter_mod
from mingus.core import value

TOL = 1e-9
CASES = 0


class Failure(Exception):
    pass


def fail(msg):
    raise Failure(msg)


# ---------------------------------------------------------------- vocabulary
# value (as handed to the library) -> exact length in whole notes
VOCAB = {}
for v in value.base_values:
    fv = Fraction(v)
    VOCAB[v] = 1 / fv
    VOCAB[value.dots(v)] = (1 / fv) * Fraction(3, 2)
    VOCAB[value.dots(v, 2)] = (1 / fv) * Fraction(7, 4)
    VOCAB[value.triplet(v)] = (1 / fv) * Fraction(2, 3)
    VOCAB[value.quintuplet(v)] = (1 / fv) * Fraction(4, 5)
    VOCAB[value.septuplet(v)] = (1 / fv) * Fraction(4, 7)
VALUES = sorted(VOCAB)

METERS = [(4, 4), (3, 4), (2, 2), (6, 8), (5, 4), (7, 8), (2, 4), (12, 8), (1, 1), (3, 2), (9, 16), (0, 0)]

CONTENTS = [
    "C",
    "F#",
    Note("E", 5),
    ["C", "E", "G"],
    [Note("A", 3), Note("C", 4)],
    NoteContainer(["D", "F"]),
]


def bar_length(m):
    return Fraction(0) if m == (0, 0) else Fraction(m[0], m[1])


def names(content):
    """Comparable picture of an entry's content."""
    if content is None:
        return None
    return [(n.name, n.octave) for n in content]


def snapshot(b):
    return (
        [(e[0], e[1], names(e[2])) for e in b.bar],
        b.current_beat,
        b.length,
        b.meter,
        len(b),
    )


def expected_names(content):
    if content is None:
        return None
    if isinstance(content, NoteContainer):
        return names(content)
    return names(NoteContainer(copy.deepcopy(content)))


class Model(object):
    def __init__(self, m):
        self.meter = m
        self.length = bar_length(m)
        self.entries = []  # (value, exact length, names)

    def total(self):
        return sum((e[1] for e in self.entries), Fraction(0))

    def fits(self, v):
        if self.meter == (0, 0):
            return True
        return self.total() + VOCAB[v] <= self.length


def check(b, mo, where):
    global CASES
    CASES += 1
    if len(b) != len(mo.entries) or len(b.bar) != len(mo.entries):
        fail("%s: %d entries, expected %d" % (where, len(b), len(mo.entries)))
    start = Fraction(0)
    for i, (e, me) in enumerate(zip(b.bar, mo.entries)):
        if len(e) != 3:
            fail("%s: entry %d is not a [beat, value, content] triple" % (where, i))
        if abs(e[0] - float(start)) > TOL:
            fail("%s: entry %d starts at %r, expected %r" % (where, i, e[0], float(start)))
        if e[1] != me[0]:
            fail("%s: entry %d has value %r, expected %r" % (where, i, e[1], me[0]))
        if me[2] is None:
            if e[2] is not None:
                fail("%s: entry %d should be a rest" % (where, i))
        else:
            if not isinstance(e[2], NoteContainer):
                fail("%s: entry %d content is %r, not a NoteContainer" % (where, i, type(e[2])))
            if names(e[2]) != me[2]:
                fail("%s: entry %d content %r, expected %r" % (where, i, names(e[2]), me[2]))
        if b[i] is not e:
            fail("%s: b[%d] is not the stored entry" % (where, i))
        start += me[1]
    total = start
    if abs(b.current_beat - float(total)) > TOL:
        fail("%s: current_beat %r, expected %r" % (where, b.current_beat, float(total)))
    if abs(b.current_beat + b.space_left() - b.length) > TOL:
        fail("%s: current_beat + space_left != length" % where)
    if abs(b.length - float(mo.length)) > 0:
        fail("%s: length %r, expected %r" % (where, b.length, float(mo.length)))
    if mo.meter != (0, 0):
        exp_full = len(mo.entries) > 0 and abs(mo.length - total) <= Fraction(1, 1000)
        if bool(b.is_full()) != exp_full:
            fail("%s: is_full() is %r, expected %r" % (where, b.is_full(), exp_full))
    else:
        if b.is_full():
            fail("%s: unbounded bar reports full" % where)


def do_place(b, mo, v, content, where, via_plus=False, via_rest=False):
    ok = mo.fits(v)
    before = snapshot(b)
    if via_plus:
        res = b + content
    elif via_rest:
        res = b.place_rest(v)
    else:
        res = b.place_notes(content, v)
    if res is not ok:
        fail("%s: placement of %r returned %r, exact model says %r (total %s, length %s)"
             % (where, v, res, ok, mo.total(), mo.length))
    if ok:
        mo.entries.append((v, VOCAB[v], expected_names(content)))
        if snapshot(b)[0][:-1] != before[0]:
            fail("%s: accepted placement disturbed earlier entries" % where)
    else:
        if snapshot(b) != before:
            fail("%s: refused placement changed the bar" % where)
    check(b, mo, where)


def do_remove(b, mo, where):
    if not mo.entries:
        return
    before = snapshot(b)
    res = b.remove_last_entry()
    mo.entries.pop()
    if snapshot(b)[0] != before[0][:-1]:
        fail("%s: remove_last_entry disturbed earlier entries" % where)
    if abs(res - float(mo.total())) > TOL:
        fail("%s: remove_last_entry returned %r" % (where, res))
    check(b, mo, where)


def plus_value(m):
    return m[1] if m[1] != 0 else 4


def apply_op(b, mo, op, where, rnd=None):
    kind = op[0]
    if kind == "place":
        content = CONTENTS[(len(mo.entries) + int(op[1] * 16)) % len(CONTENTS)] if rnd is None else rnd.choice(CONTENTS)
        do_place(b, mo, op[1], copy.deepcopy(content), where)
    elif kind == "rest":
        do_place(b, mo, op[1], None, where, via_rest=True)
    elif kind == "plus":
        content = CONTENTS[len(mo.entries) % len(CONTENTS)] if rnd is None else rnd.choice(CONTENTS)
        do_place(b, mo, plus_value(mo.meter), copy.deepcopy(content), where, via_plus=True)
    elif kind == "remove":
        do_remove(b, mo, where)


# ------------------------------------------------------------------- sections
def section_exhaustive():
    small = [1, 2, 4, 8, value.dots(4), value.dots(2), value.dots(8, 2), 6.0, 12.0, 5.0, 10.0, 7.0, 14.0, 3.0, 0.5]
    for v in small:
        assert v in VOCAB, v
    ops = [("place", v) for v in small[:9]] + [("rest", v) for v in small[9:]] + [("plus",), ("remove",)]
    for m in [(4, 4), (3, 4), (6, 8), (0, 0), (2, 2), (5, 4)]:
        for seq in itertools.product(ops, repeat=3):
            b = Bar("C", m)
            mo = Model(m)
            for k, op in enumerate(seq):
                apply_op(b, mo, op, "exhaustive %r %r step %d" % (m, seq, k))


def section_fills():
    # fill to capacity with each value, then try every value on the full / nearly full bar
    for m in METERS:
        if m == (0, 0):
            continue
        for v in VALUES:
            b = Bar("C", m)
            mo = Model(m)
            n = 0
            while mo.fits(v) and n < 40:
                do_place(b, mo, v, "C" if n % 2 else None, "fill %r with %r #%d" % (m, v, n))
                n += 1
            if n >= 40:
                continue
            for w in (v, 128, value.dots(128, 2), 224.0, 192.0, 160.0, 1, 4):
                do_place(b, mo, w, ["C", "E"], "overfill %r with %r after %r" % (m, w, v))
    # mixed tuplet fills that end exactly on the bar line
    for m, pattern in [
        ((4, 4), [6.0] * 6 + [10.0] * 5 + [99]),
        ((4, 4), [12.0] * 12 + [4, 4, 128]),
        ((4, 4), [7.0] * 7 + [128]),
        ((4, 4), [14.0] * 14 + [2, 224.0]),
        ((3, 4), [value.dots(4)] * 2 + [192.0]),
        ((6, 8), [value.dots(4)] * 2 + [128]),
        ((6, 8), [value.dots(8, 2)] * 3 + [32, 32, 32.0, 224.0]),
        ((7, 8), [20.0] * 17 + [40.0, 160.0]),
        ((5, 4), [3.0] * 3 + [4, 128]),
        ((2, 2), [0.5, 1, 128]),
        ((2, 2), [1.5] * 1 + [3.0, 3.0, 3.0]),
    ]:
        b = Bar("C", m)
        mo = Model(m)
        for k, v in enumerate(pattern):
            if v == 99:
                do_place(b, mo, 128, "C", "pattern %r step %d" % (m, k))
                continue
            if v not in VOCAB:
                VOCAB[v] = 1 / Fraction(v)
            do_place(b, mo, v, "C", "pattern %r step %d" % (m, k))
        if not b.is_full():
            fail("pattern %r %r did not end full" % (m, pattern))


def section_random():
    rnd = random.Random(1313)
    for run in range(40):
        m = rnd.choice(METERS)
        b = Bar(rnd.choice(["C", "E", "Bb"]), m)
        mo = Model(m)
        pool = rnd.sample(VALUES, 8) + [4, 8, 16, 12.0, 6.0]
        for step in range(150):
            r = rnd.random()
            if r < 0.35:
                op = ("place", rnd.choice(pool))
            elif r < 0.55:
                op = ("rest", rnd.choice(pool))
            elif r < 0.70:
                op = ("plus",)
            else:
                op = ("remove",)
            if m == (0, 0) and len(mo.entries) > 30:
                op = ("remove",)
            apply_op(b, mo, op, "random run %d step %d %r %r" % (run, step, m, op), rnd)


def section_content_edits():
    rnd = random.Random(7)
    for m in [(4, 4), (6, 8), (0, 0), (5, 4)]:
        for trial in range(12):
            b = Bar("C", m)
            mo = Model(m)
            for k in range(6):
                v = rnd.choice([4, 8, 8, 16, 12.0, value.dots(8)])
                if rnd.random() < 0.3:
                    do_place(b, mo, v, None, "edit setup", via_rest=True)
                else:
                    do_place(b, mo, v, copy.deepcopy(rnd.choice(CONTENTS)), "edit setup")
            if not mo.entries:
                continue
            # assignment by index
            for new in ["G", Note("B", 3), ["D", "F#", "A"], [Note("C", 5), Note("E", 5)], NoteContainer(["Eb", "G"])]:
                i = rnd.randrange(len(mo.entries))
                if rnd.random() < 0.3:
                    i -= len(mo.entries)
                b[i] = copy.deepcopy(new)
                e = mo.entries[i]
                mo.entries[i] = (e[0], e[1], expected_names(new))
                check(b, mo, "setitem %r index %d <- %r" % (m, i, new))
            # adding notes to a sounding entry at its beat
            for add in ["B", Note("G", 5), ["Bb", "D"], NoteContainer(["F#"])]:
                cands = [i for i, e in enumerate(mo.entries) if e[2] is not None]
                if not cands:
                    break
                i = rnd.choice(cands)
                at = b[i][0]
                exp = copy.deepcopy(b[i][2])
                exp.add_notes(copy.deepcopy(add))
                b.place_notes_at(copy.deepcopy(add), at)
                e = mo.entries[i]
                mo.entries[i] = (e[0], e[1], names(exp))
                check(b, mo, "place_notes_at %r index %d + %r" % (m, i, add))
            # history continues normally afterwards
            do_remove(b, mo, "edit tail remove")
            do_place(b, mo, 8, "C", "edit tail place")


def section_meters():
    global CASES
    good_units = [1, 2, 4, 8, 16, 32, 64, 128, 256, 1024]
    bad_units = [0, 3, 5, 6, 7, 9, 10, 12, 14, 15, 24, 48, 96, 100, 127, 129, -4, -1]
    for count in [1, 2, 3, 4, 5, 6, 7, 9, 12, 15]:
        for u in good_units:
            CASES += 1
            if meter_mod.valid_beat_duration(u) is not True:
                fail("valid_beat_duration(%r) is not True" % u)
            for b in (Bar("C", (count, u)), Bar()):
                b.set_meter((count, u))
                if b.meter != (count, u) or b.length != count / float(u) or Fraction(b.length) != Fraction(count, u):
                    fail("set_meter(%r): meter %r length %r" % ((count, u), b.meter, b.length))
        for u in bad_units:
            CASES += 1
            if meter_mod.valid_beat_duration(u) is not False:
                fail("valid_beat_duration(%r) is not False" % u)
            b = Bar("C", (3, 4))
            b + "C"
            before = snapshot(b)
            try:
                b.set_meter((count, u))
            except Exception:
                pass
            else:
                fail("set_meter(%r) was accepted" % ((count, u),))
            if snapshot(b) != before:
                fail("rejected set_meter(%r) changed the bar" % ((count, u),))
            try:
                Bar("C", (count, u))
            except Exception:
                pass
            else:
                fail("Bar(meter=%r) was accepted" % ((count, u),))
    b = Bar("C", (4, 4))
    b.set_meter((0, 0))
    if b.meter != (0, 0) or b.length != 0:
        fail("set_meter((0, 0)) gave %r %r" % (b.meter, b.length))
    # the unbounded meter takes anything
    mo = Model((0, 0))
    for k in range(60):
        do_place(b, mo, [1, 0.5, 0.25, 2][k % 4], "C", "unbounded %d" % k)


def main():
    try:
        section_meters()
        section_fills()
        section_content_edits()
        section_exhaustive()
        section_random()
    except Failure as e:
        print("PROPERTY C13 VIOLATED: %s" % e)
        return 1
    print("C13 holds on %d checked states" % CASES)
    return 0


if __name__ == "__main__":
    sys.exit(main())
