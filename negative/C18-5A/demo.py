import mingus, os; assert os.path.realpath(mingus.__file__).startswith(os.path.realpath(os.path.dirname(__file__)))

# Direct check of property C18 (sequencer playback emits a balanced, ordered,
# correctly timed event stream) through the public API.
import bisect
import random
import sys
from collections import Counter
from fractions import Fraction

from mingus.containers import Bar, Composition, Note, NoteContainer, Track
from mingus.containers.instrument import MidiInstrument, Piano
from mingus.midi.sequencer import Sequencer
from mingus.midi.sequencer_observer import SequencerObserver

CASES = [0]


class Failure(Exception):
    pass


def check(cond, msg):
    if not cond:
        raise Failure(msg)


class RecSeq(Sequencer):
    def init(self):
        self.log = []

    def play_event(self, note, channel, velocity):
        self.log.append(("play", note, channel, velocity))

    def stop_event(self, note, channel):
        self.log.append(("stop", note, channel))

    def cc_event(self, channel, control, value):
        self.log.append(("cc", channel, control, value))

    def instr_event(self, channel, instr, bank):
        self.log.append(("instr", channel, instr, bank))

    def sleep(self, seconds):
        self.log.append(("sleep", seconds))


class RecObs(SequencerObserver):
    def __init__(self):
        self.log = []

    def play_int_note_event(self, int_note, channel, velocity):
        self.log.append(("play", int_note, channel, velocity))

    def stop_int_note_event(self, int_note, channel):
        self.log.append(("stop", int_note, channel))

    def cc_event(self, channel, control, value):
        self.log.append(("cc", channel, control, value))

    def instr_event(self, channel, instr, bank):
        self.log.append(("instr", channel, instr, bank))

    def sleep(self, seconds):
        self.log.append(("sleep", seconds))


def rig():
    s = RecSeq()
    o = RecObs()
    s.attach(o)
    return s, o


def close(a, b):
    return abs(a - b) <= 1e-9 * max(1.0, abs(a), abs(b))


# ---------------------------------------------------------------- generators

DQ = 4 / 1.5  # dotted quarter
DH = 2 / 1.5  # dotted half
D8 = 8 / 1.5  # dotted eighth
PATTERNS = [
    [1],
    [2, 2],
    [4, 4, 4, 4],
    [8] * 8,
    [2, 4, 4],
    [4, 8, 8, 2],
    [DQ, 8, 2],
    [12, 12, 12, 4, 2],
    [16, 16, 16, 16, 4, 2],
    [6, 6, 6, 2],
    [DH, 4],
    [10, 10, 10, 10, 10, 2],
    [D8, 16, 4, 2],
    [4, 2, 4],
    [8, 4, 8, 4, 4],
]
NAMES = ["C", "C#", "Db", "D", "Eb", "E", "F", "F#", "G", "Ab", "A", "Bb", "B", "Cb", "B#"]


def rnd_note(rng):
    return Note(
        rng.choice(NAMES),
        rng.randint(1, 7),
        velocity=rng.randint(0, 127),
        channel=rng.randint(0, 15),
    )


def rnd_container(rng):
    k = rng.choice([1, 1, 1, 2, 3, 4, 0])
    return NoteContainer([rnd_note(rng) for _ in range(k)])


def rnd_bar(rng, pattern=None, tempo=False, rests=True):
    pattern = pattern or rng.choice(PATTERNS)
    b = Bar()
    for v in pattern:
        if rests and rng.random() < 0.2:
            ok = b.place_rest(v)
        else:
            nc = rnd_container(rng)
            if tempo and rng.random() < 0.3:
                nc.bpm = rng.choice([40, 60, 72, 90, 100, 120, 133, 150, 180, 240, 97.5])
            ok = b.place_notes(nc, v)
        assert ok, "generator: pattern does not fit"
    assert b.is_full()
    return b


def rnd_tracks(rng, ntracks, nbars, equal):
    tempo_track = rng.randrange(ntracks) if rng.random() < 0.7 else -1
    pats = [rng.choice(PATTERNS) for _ in range(nbars)]
    tracks = []
    for ti in range(ntracks):
        r = rng.random()
        if r < 0.3:
            instr = MidiInstrument(rng.choice(MidiInstrument.names))
        elif r < 0.4:
            instr = MidiInstrument("No such instrument {%s}\né" % ti)
        elif r < 0.5:
            instr = MidiInstrument()
        elif r < 0.6:
            instr = Piano()
        else:
            instr = None
        t = Track(instr)
        for bi in range(nbars):
            t.add_bar(rnd_bar(rng, pats[bi] if equal else None, tempo=(ti == tempo_track)))
        tracks.append(t)
    return tracks


# --------------------------------------------------------------------- model

def dur(v):
    return Fraction(1.0 / v).limit_denominator(1920)


def model(bar_lists, bpm):
    """bar_lists: per voice, a list of Bars (all 4/4, full).  Returns the
    expected plays/stops placed on beats, the tempo map and the total."""
    plays = []  # (beat, voice, idx_in_nc, pitch, ch, vel)
    stops = []  # (beat, pitch, ch)
    tempo = []  # (beat, voice, bpm)
    total = Fraction(0)
    for vi, bars in enumerate(bar_lists):
        pos = Fraction(0)
        for bi, bar in enumerate(bars):
            pos = Fraction(bi)
            for (_start, v, nc) in bar:
                d = dur(v)
                if nc is not None:
                    if hasattr(nc, "bpm"):
                        tempo.append((pos, vi, nc.bpm))
                    for ni, n in enumerate(nc):
                        plays.append((pos, vi, ni, int(n) + 12, n.channel, n.velocity))
                        stops.append((pos + d, int(n) + 12, n.channel))
                pos += d
            total = max(total, pos)
    tempo.sort(key=lambda x: (x[0], x[1]))
    plays.sort(key=lambda x: (x[0], x[1], x[2]))
    return plays, stops, tempo, total


def seconds_fn(tempo, bpm0):
    pts = [(Fraction(0), bpm0)] + [(b, t) for (b, _v, t) in tempo]

    def sec(beat):
        s = 0.0
        for i, (b, t) in enumerate(pts):
            if b >= beat:
                break
            nxt = pts[i + 1][0] if i + 1 < len(pts) else beat
            upto = min(nxt, beat)
            if upto > b:
                s += float(upto - b) * 240.0 / t
        return s

    final = pts[-1][1]
    return sec, final


def verify_stream(log, plays, stops, tempo, total, bpm0, what, ordered_plays):
    sec, final = seconds_fn(tempo, bpm0)
    beats = sorted(set([p[0] for p in plays] + [s[0] for s in stops] + [Fraction(0), total]))
    times = [sec(b) for b in beats]

    def instant(t):
        i = bisect.bisect_left(times, t)
        for j in (i - 1, i, i + 1):
            if 0 <= j < len(times) and abs(times[j] - t) <= 1e-7:
                return j
        raise Failure("%s: event at %.9f s is at no instant of the model" % (what, t))

    idx = {b: i for i, b in enumerate(beats)}
    exp = Counter()
    for (b, _vi, _ni, p, c, v) in plays:
        exp[(idx[b], "play", p, c, v)] += 1
    for (b, p, c) in stops:
        exp[(idx[b], "stop", p, c)] += 1

    got = Counter()
    t = 0.0
    sounding = Counter()
    got_plays = []
    for ev in log:
        if ev[0] == "sleep":
            check(isinstance(ev[1], float) or isinstance(ev[1], int), "%s: sleep not a number" % what)
            check(ev[1] >= 0, "%s: negative sleep" % what)
            t += ev[1]
        elif ev[0] == "play":
            got[(instant(t),) + ev] += 1
            sounding[(ev[1], ev[2])] += 1
            got_plays.append(ev[1:])
        elif ev[0] == "stop":
            got[(instant(t),) + ev] += 1
            check(sounding[(ev[1], ev[2])] > 0, "%s: stop of %r that was not started" % (what, ev))
            sounding[(ev[1], ev[2])] -= 1
        else:
            raise Failure("%s: unexpected event %r in the note stream" % (what, ev))
    check(got == exp, "%s: events differ from model\n missing=%r\n extra=%r" % (what, exp - got, got - exp))
    check(not +sounding, "%s: left sounding %r" % (what, +sounding))
    check(close(t, sec(total)), "%s: slept %r, expected %r" % (what, t, sec(total)))
    if ordered_plays:
        check(
            got_plays == [p[3:] for p in plays],
            "%s: order of play events differs" % what,
        )
    return final


def same_logs(s, o, what):
    check(s.log == o.log, "%s: observer saw a different sequence than the hooks" % what)


# ----------------------------------------------------------------- scenarios

def case_notes(rng):
    s, o = rig()
    n = rnd_note(rng)
    check(s.play_Note(n), "play_Note falsy")
    check(s.stop_Note(n), "stop_Note falsy")
    exp = [("play", int(n) + 12, n.channel, n.velocity), ("stop", int(n) + 12, n.channel)]
    check(s.log == exp, "play/stop note: %r != %r" % (s.log, exp))
    same_logs(s, o, "note")
    # keyword form
    s, o = rig()
    s.play_Note(note=n, channel=3, velocity=5)
    s.stop_Note(note=n, channel=3)
    check(s.log == exp, "play/stop note (kw): %r != %r" % (s.log, exp))
    same_logs(s, o, "note kw")
    # container
    s, o = rig()
    nc = rnd_container(rng)
    check(s.play_NoteContainer(nc), "play_NoteContainer falsy")
    check(s.stop_NoteContainer(nc), "stop_NoteContainer falsy")
    pl = [("play", int(x) + 12, x.channel, x.velocity) for x in nc]
    check(s.log[: len(pl)] == pl, "container plays")
    check(
        Counter(s.log[len(pl):]) == Counter(("stop", int(x) + 12, x.channel) for x in nc),
        "container stops",
    )
    check(len(s.log) == 2 * len(nc), "container count")
    same_logs(s, o, "container")
    CASES[0] += 3


def case_bar(rng):
    s, o = rig()
    bpm = rng.choice([60, 90, 120, 144, 200])
    bar = rnd_bar(rng, tempo=rng.random() < 0.5)
    if rng.random() < 0.5:
        res = s.play_Bar(bar, 1, bpm)
    else:
        res = s.play_Bar(bar=bar, channel=rng.randint(0, 15), bpm=bpm)
    plays, stops, tempo, total = model([[bar]], bpm)
    final = verify_stream(s.log, plays, stops, tempo, total, bpm, "play_Bar", True)
    check(res == {"bpm": final}, "play_Bar returned %r, expected bpm %r" % (res, final))
    same_logs(s, o, "play_Bar")
    CASES[0] += 1


def case_track(rng):
    s, o = rig()
    bpm = rng.choice([50, 120, 132, 180])
    (track,) = rnd_tracks(rng, 1, rng.randint(1, 5), False)
    if rng.random() < 0.5:
        res = s.play_Track(track, 1, bpm)
    else:
        res = s.play_Track(track=track, bpm=bpm)
    plays, stops, tempo, total = model([list(track)], bpm)
    final = verify_stream(s.log, plays, stops, tempo, total, bpm, "play_Track", True)
    check(res == {"bpm": final}, "play_Track returned %r, expected bpm %r" % (res, final))
    same_logs(s, o, "play_Track")
    CASES[0] += 1


def case_bars(rng):
    s, o = rig()
    bpm = rng.choice([60, 120, 150])
    k = rng.randint(1, 4)
    equal = rng.random() < 0.4
    pat = rng.choice(PATTERNS)
    tt = rng.randrange(k)
    bars = [rnd_bar(rng, pat if equal else None, tempo=(i == tt)) for i in range(k)]
    chans = [rng.randint(0, 15) for _ in range(k)]
    if rng.random() < 0.5:
        bars_arg, chans_arg = bars, chans
    else:
        bars_arg, chans_arg = tuple(bars), tuple(chans)
    res = s.play_Bars(bars_arg, chans_arg, bpm)
    plays, stops, tempo, total = model([[b] for b in bars], bpm)
    final = verify_stream(s.log, plays, stops, tempo, total, bpm, "play_Bars", k == 1)
    check(res == {"bpm": final}, "play_Bars returned %r, expected bpm %r" % (res, final))
    same_logs(s, o, "play_Bars")
    CASES[0] += 1


def program(instr):
    if isinstance(instr, MidiInstrument) and instr.name in instr.names:
        return instr.names.index(instr.name)
    return 1


def case_tracks(rng, composition):
    s, o = rig()
    bpm = rng.choice([60, 96, 120, 160, 240])
    k = rng.randint(1, 4)
    tracks = rnd_tracks(rng, k, rng.randint(1, 4), rng.random() < 0.4)
    if composition:
        c = Composition()
        for t in tracks:
            c.add_track(t)
        if rng.random() < 0.5:
            chans = list(range(1, k + 1))
            res = s.play_Composition(c, bpm=bpm)
        else:
            chans = rng.sample(range(16), k)
            res = s.play_Composition(c, chans, bpm)
    else:
        chans = rng.sample(range(16), k)
        if rng.random() < 0.5:
            res = s.play_Tracks(tracks, chans, bpm)
        else:
            res = s.play_Tracks(tracks=tuple(tracks), channels=tuple(chans), bpm=bpm)
    what = "play_Composition" if composition else "play_Tracks"
    head, rest = s.log[:k], s.log[k:]
    exp_head = [("instr", chans[i], program(tracks[i].instrument), 0) for i in range(k)]
    check(sorted(head) == sorted(exp_head), "%s: instrument announcements %r != %r" % (what, head, exp_head))
    plays, stops, tempo, total = model([list(t) for t in tracks], bpm)
    final = verify_stream(rest, plays, stops, tempo, total, bpm, what, k == 1)
    check(res == {"bpm": final}, "%s returned %r, expected bpm %r" % (what, res, final))
    same_logs(s, o, what)
    CASES[0] += 1


def case_long():
    rng = random.Random(99)
    s, o = rig()
    tracks = rnd_tracks(rng, 3, 60, False)
    res = s.play_Tracks(tracks, [1, 2, 3], 120)
    plays, stops, tempo, total = model([list(t) for t in tracks], 120)
    final = verify_stream(s.log[3:], plays, stops, tempo, total, 120, "long", False)
    check(res == {"bpm": final}, "long: return value")
    same_logs(s, o, "long")
    # the same objects again, and one track handed in twice
    s2, o2 = rig()
    res2 = s2.play_Tracks([tracks[0], tracks[0]], [4, 5], 120)
    plays, stops, tempo, total = model([list(tracks[0]), list(tracks[0])], 120)
    # both voices carry the same tempo changes: fine, they coincide
    final = verify_stream(s2.log[2:], plays, stops, tempo, total, 120, "twice", False)
    check(res2 == {"bpm": final}, "twice: return value")
    same_logs(s2, o2, "twice")
    CASES[0] += 2


def case_cc():
    s, o = rig()
    n = 0
    for control in list(range(-4, 5)) + list(range(124, 134)) + [64]:
        for value in list(range(-3, 4)) + list(range(125, 133)) + [64]:
            before_s, before_o = list(s.log), list(o.log)
            ch = (control + value) % 16
            if n % 2:
                res = s.control_change(ch, control, value)
            else:
                res = s.control_change(channel=ch, control=control, value=value)
            refused = control < 0 or control > 128 or value < 0 or value > 128
            if refused:
                check(not res, "cc %r/%r accepted" % (control, value))
                check(s.log == before_s and o.log == before_o, "refused cc %r/%r emitted" % (control, value))
                # refused again: still nothing
                s.control_change(ch, control, value)
                check(s.log == before_s and o.log == before_o, "refused cc emitted on repeat")
            else:
                check(res, "cc %r/%r refused" % (control, value))
                check(s.log == before_s + [("cc", ch, control, value)], "cc hook events")
                check(o.log == before_o + [("cc", ch, control, value)], "cc observer events")
            n += 1
    for (fn, ctl) in ((s.modulation, 1), (s.main_volume, 7), (s.pan, 10)):
        for value in (-1, 0, 100, 128, 129):
            before = list(s.log)
            res = fn(2, value)
            if value < 0 or value > 128:
                check(not res and s.log == before, "helper cc refused")
            else:
                check(res and s.log == before + [("cc", 2, ctl, value)], "helper cc")
            same_logs(s, o, "cc helpers")
    CASES[0] += n


def case_observers(rng):
    s = RecSeq()
    a, b = RecObs(), RecObs()
    s.attach(a)
    s.attach(a)
    s.attach(b)
    bar = rnd_bar(rng)
    s.play_Bar(bar)
    check(a.log == s.log and b.log == s.log, "attach twice duplicated or lost events")
    s.detach(a)
    s.detach(a)
    mark = len(a.log)
    s.play_Bar(bar)
    s.control_change(1, 2, 3)
    check(len(a.log) == mark, "detached observer still receives")
    check(b.log == s.log, "remaining observer lost sync")
    s.detach(b)
    s.set_instrument(1, 5)
    check(b.log != s.log and s.log[-1] == ("instr", 1, 5, 0), "detach b")
    s.attach(a)
    s.play_Note(Note("C", 4))
    check(a.log[mark:] == s.log[-1:], "re-attached observer")
    c = RecObs()
    s.detach(c)  # never attached: nothing happens
    CASES[0] += 1


def main():
    rng = random.Random(20240)
    try:
        for _ in range(40):
            case_notes(rng)
        for _ in range(80):
            case_bar(rng)
        for _ in range(80):
            case_track(rng)
        for _ in range(120):
            case_bars(rng)
        for _ in range(120):
            case_tracks(rng, False)
        for _ in range(60):
            case_tracks(rng, True)
        for _ in range(20):
            case_observers(rng)
        case_long()
        case_cc()
    except Failure as e:
        print("C18 VIOLATED after %d cases: %s" % (CASES[0], e))
        return 1
    print("C18 holds on %d cases" % CASES[0])
    return 0


if __name__ == "__main__":
    sys.exit(main())
