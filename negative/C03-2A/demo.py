import mingus, os; assert os.path.realpath(mingus.__file__).startswith(os.path.realpath(os.path.dirname(__file__)))
"""Direct check of property C03 (interval naming <-> interval shorthand) through
the public API of mingus.core.intervals.  Exit 0 if it holds, 1 otherwise."""
import sys

from mingus.core import intervals

LETTERS = "CDEFGAB"
NATURAL = {"C": 0, "D": 2, "E": 4, "F": 5, "G": 7, "A": 9, "B": 11}
MAJOR_SIZE = [0, 2, 4, 5, 7, 9, 11]
NUMBER = ["unison", "second", "third", "fourth", "fifth", "sixth", "seventh"]
ACCS = ["", "#", "##", "b", "bb"]
NAMES = [l + a for l in LETTERS for a in ACCS]
SHORTHANDS = [a + str(d) for d in range(1, 8) for a in ACCS]

failures = []
checked = [0]


def fail(msg):
    failures.append(msg)


def acc_value(name):
    return name.count("#") - name.count("b")


def pitch(name):
    return (NATURAL[name[0]] + acc_value(name)) % 12


def check_naming():
    for n1 in NAMES:
        for n2 in NAMES:
            steps = (LETTERS.index(n2[0]) - LETTERS.index(n1[0])) % 7
            natural = (NATURAL[n2[0]] - NATURAL[n1[0]]) % 12
            dist = natural + acc_value(n2) - acc_value(n1)
            if not 0 <= dist <= 11:
                continue  # outside the statement
            off = dist - MAJOR_SIZE[steps]
            if off == 0:
                qualities = ("major", "perfect")
            elif off == -1:
                qualities = ("minor",)
            elif off < -1:
                qualities = ("diminished",)
            else:
                qualities = ("augmented",)
            long_name = intervals.determine(n1, n2)
            checked[0] += 1
            if long_name not in ["%s %s" % (q, NUMBER[steps]) for q in qualities]:
                fail("determine(%r, %r) = %r; expected %s %s" % (n1, n2, long_name, "/".join(qualities), NUMBER[steps]))
            want_short = ("#" * off if off > 0 else "b" * -off) + str(steps + 1)
            forms = [
                intervals.determine(n1, n2, True),
                intervals.determine(n1, n2, shorthand=True),
                intervals.determine(note1=n1, note2=n2, shorthand=True),
            ]
            for short in forms:
                checked[0] += 1
                if short != want_short:
                    fail("determine(%r, %r, True) = %r; expected %r" % (n1, n2, short, want_short))
            if intervals.determine(n1, n2, shorthand=False) != long_name:
                fail("determine(%r, %r, shorthand=False) differs from default" % (n1, n2))
            back = intervals.from_shorthand(n1, forms[0])
            checked[0] += 1
            if back != n2:
                fail("from_shorthand(%r, %r) = %r; expected %r" % (n1, forms[0], back, n2))


def check_shorthand():
    for n in NAMES:
        for sh in SHORTHANDS:
            degree = int(sh[-1])
            size = MAJOR_SIZE[degree - 1] + sh.count("#") - sh.count("b")
            up = intervals.from_shorthand(n, sh)
            up_kw = intervals.from_shorthand(note=n, interval=sh, up=True)
            down = intervals.from_shorthand(n, sh, False)
            down_kw = intervals.from_shorthand(n, sh, up=False)
            checked[0] += 4
            if up != up_kw or down != down_kw:
                fail("keyword / positional call forms disagree for %r %r" % (n, sh))
            for res, letter_shift, semis, word in (
                (up, degree - 1, size, "up"),
                (down, -(degree - 1), -size, "down"),
            ):
                if not isinstance(res, str) or not res or res[0] not in LETTERS or res[1:].strip("#b"):
                    fail("from_shorthand(%r, %r, %s) = %r is not a note name" % (n, sh, word, res))
                    continue
                want_letter = LETTERS[(LETTERS.index(n[0]) + letter_shift) % 7]
                if res[0] != want_letter:
                    fail("from_shorthand(%r, %r, %s) = %r: letter should be %s" % (n, sh, word, res, want_letter))
                if pitch(res) != (pitch(n) + semis) % 12:
                    fail("from_shorthand(%r, %r, %s) = %r: wrong pitch" % (n, sh, word, res))
            if isinstance(up, str):
                round_trip = intervals.from_shorthand(up, sh, False)
                checked[0] += 1
                if round_trip != n:
                    fail("up then down with %r from %r gives %r" % (sh, n, round_trip))


def check_invert():
    cases = [
        [],
        ["C"],
        ["C", "E"],
        ["C", "E", "G"],
        ["C", "C", "E", "C"],
        ["Bb", "D##", "Fbb", "A"],
        ["{", "%s", "a\nb", "%r{0}"],
        [n for n in NAMES] * 40,
        [1, 2.5, None, ("x", "y")],
    ]
    shared = ["C", "E", "G"]
    cases += [shared, shared, shared]
    for case in cases:
        before = list(case)
        res = intervals.invert(case)
        checked[0] += 1
        if res != before[::-1]:
            fail("invert(%.60r) is not the reversed list" % (before,))
        if not isinstance(res, list):
            fail("invert(%.60r) does not return a list" % (before,))
        if case != before:
            fail("invert changed its argument %.60r" % (before,))
        if res is case:
            fail("invert returned its argument")
    kw = ["A", "C#", "E"]
    if intervals.invert(interval=kw) != ["E", "C#", "A"] or kw != ["A", "C#", "E"]:
        fail("invert(interval=...) wrong")
    twice = ["D", "F#", "A", "C"]
    if intervals.invert(intervals.invert(twice)) != twice:
        fail("invert twice is not the identity")


def main():
    check_naming()
    check_shorthand()
    check_invert()
    # a few spot values straight from the statement
    spots = [
        (("C", "E"), "major third", "3"),
        (("C", "Eb"), "minor third", "b3"),
        (("C", "E#"), "augmented third", "#3"),
        (("C", "Ebb"), "diminished third", "bb3"),
        (("B", "F"), "minor fifth", "b5"),
        (("F", "B"), "augmented fourth", "#4"),
        (("Cb", "C#"), "augmented unison", "##1"),
        (("B#", "C"), "diminished second", "bb2"),
    ]
    for (a, b), long_name, short in spots:
        if intervals.determine(a, b) != long_name or intervals.determine(a, b, True) != short:
            fail("spot check %s -> %s" % (a, b))
    if failures:
        print("C03 FAILS: %d problem(s) in %d checks" % (len(failures), checked[0]))
        for f in failures[:25]:
            print("  " + f)
        return 1
    print("C03 holds (%d checks)" % checked[0])
    return 0


if __name__ == "__main__":
    sys.exit(main())
