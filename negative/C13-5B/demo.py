import mingus, os; assert os.path.realpath(mingus.__file__).startswith(os.path.realpath(os.path.dirname(__file__)))

import itertools
import random
import sys
from fractions import Fraction as F

from mingus.containers.bar import Bar
from mingus.containers.note import Note
from mingus.containers.note_container import NoteContainer
from mingus.core import value as V

TOL = 1e-9
CASES = [0]


def fail(msg):
    print("C13 demo FAILED: %s" % msg)
    sys.exit(1)


# ---- value vocabulary: (value handed to the library, exact length) ---------
VOCAB = []
for base in (1, 2, 4, 8, 16, 32, 64, 128):
    VOCAB.append((base, F(1, base)))
    VOCAB.append((V.dots(base), F(1, base) * F(3, 2)))
    VOCAB.append((V.dots(base, 2), F(1, base) * F(7, 4)))
    VOCAB.append((V.triplet(base), F(2, 3 * base)))
    VOCAB.append((V.quintuplet(base), F(4, 5 * base)))
    VOCAB.append((V.septuplet(base), F(4, 7 * base)))
    VOCAB.append((V.septuplet(base, False), F(8, 7 * base)))
EXACT = {}
for v, l in VOCAB:
    EXACT.setdefault(v, l)
    if EXACT[v] != l:
        fail("vocabulary clash at %r" % (v,))

SMALL = [
    (1, F(1)), (2, F(1, 2)), (4, F(1, 4)), (8, F(1, 8)),
    (V.dots(4), F(3, 8)), (V.triplet(4), F(1, 6)),
    (V.quintuplet(8), F(1, 10)), (V.septuplet(8), F(1, 14)),
]

METERS = [(4, 4), (3, 4), (2, 2), (6, 8), (5, 8), (7, 16), (1, 1), (12, 8), (3, 2), (0, 0), (2, 4), (9, 16)]

CONTENTS = [
    lambda: "C",
    lambda: Note("E", 5),
    lambda: ["C", "E", "G"],
    lambda: [Note("A", 3), Note("C", 4)],
    lambda: NoteContainer(["D", "F#"]),
    lambda: "Bb-3",
]


def names_of(content):
    if content is None:
        return None
    return ["%s-%d" % (n.name, n.octave) for n in content]


def expected_names(raw):
    if raw is None:
        return None
    return names_of(NoteContainer(raw))


class Model(object):
    def __init__(self, meter):
        self.meter = meter
        self.length = None if meter == (0, 0) else F(meter[0], meter[1])
        self.entries = []  # (exact length, value, expected names)

    def total(self):
        return sum((e[0] for e in self.entries), F(0))

    def fits(self, l):
        return self.length is None or self.total() + l <= self.length


def snapshot(bar):
    return (
        [(e[0], e[1], id(e[2]), names_of(e[2])) for e in bar.bar],
        bar.current_beat, bar.length, bar.meter,
    )


def check(bar, model, where):
    CASES[0] += 1
    if len(bar) != len(model.entries) or len(bar.bar) != len(model.entries):
        fail("%s: %d entries, expected %d" % (where, len(bar), len(model.entries)))
    acc = F(0)
    for i, (l, v, names) in enumerate(model.entries):
        e = bar[i]
        if abs(e[0] - float(acc)) > TOL:
            fail("%s: entry %d starts at %r, expected %s" % (where, i, e[0], acc))
        if e[1] != v:
            fail("%s: entry %d has value %r, expected %r" % (where, i, e[1], v))
        if names is None:
            if e[2] is not None:
                fail("%s: entry %d should be a rest, got %r" % (where, i, e[2]))
        else:
            if not isinstance(e[2], NoteContainer):
                fail("%s: entry %d content is %r, not a NoteContainer" % (where, i, type(e[2])))
            if names_of(e[2]) != names:
                fail("%s: entry %d holds %r, expected %r" % (where, i, names_of(e[2]), names))
        acc += l
    if abs(bar.current_beat - float(acc)) > TOL:
        fail("%s: current_beat %r, expected %s" % (where, bar.current_beat, acc))
    blen = 0.0 if model.length is None else float(model.length)
    if abs(bar.length - blen) > TOL:
        fail("%s: length %r, expected %r" % (where, bar.length, blen))
    if abs(bar.current_beat + bar.space_left() - bar.length) > TOL:
        fail("%s: current_beat + space_left != length" % where)
    if model.length is None:
        full = False
    else:
        full = bool(model.entries) and (model.length - acc) <= F(1, 1000)
    got = bar.is_full()
    if got is not full and got != full:
        fail("%s: is_full() is %r, expected %r" % (where, got, full))


def do_place(bar, model, v, l, raw, how, where):
    fits = model.fits(l)
    before = snapshot(bar)
    if how == "rest":
        r = bar.place_rest(v)
    elif how == "plus":
        r = bar + raw
    elif how == "kw":
        r = bar.place_notes(notes=raw, duration=v)
    else:
        r = bar.place_notes(raw, v)
    if bool(r) != fits or not isinstance(r, bool):
        fail("%s: placing %r returned %r, expected %r" % (where, v, r, fits))
    if fits:
        model.entries.append((l, v, expected_names(raw)))
        after = snapshot(bar)
        if after[0][:-1] != before[0]:
            fail("%s: an accepted placement disturbed earlier entries" % where)
    else:
        if snapshot(bar) != before:
            fail("%s: a refused placement changed the bar" % where)
    check(bar, model, where)


def do_remove(bar, model, where):
    if not model.entries:
        return
    before = snapshot(bar)
    bar.remove_last_entry()
    model.entries.pop()
    if snapshot(bar)[0] != before[0][:-1]:
        fail("%s: remove_last_entry disturbed earlier entries" % where)
    check(bar, model, where)


def plus_value(meter):
    unit = meter[1] if meter[1] != 0 else 4
    return unit, F(1, unit)


def run_history(meter, ops, label):
    bar = Bar("C", meter)
    model = Model(meter)
    check(bar, model, label + " (fresh)")
    for k, op in enumerate(ops):
        where = "%s meter %r step %d %r" % (label, meter, k, op[:2])
        kind = op[0]
        if kind == "remove":
            do_remove(bar, model, where)
        elif kind == "plus":
            v, l = plus_value(meter)
            do_place(bar, model, v, l, op[1], "plus", where)
        elif kind == "rest":
            do_place(bar, model, op[1], op[2], None, "rest", where)
        else:
            do_place(bar, model, op[1], op[2], op[3], kind, where)
    return bar, model


# ---- 1. exhaustive short histories over a small vocabulary -----------------
alphabet = [("place", v, l, "C") for v, l in SMALL]
alphabet += [("rest", v, l) for v, l in SMALL[1:5]]
alphabet += [("plus", ["C", "E"]), ("remove",)]
for meter in [(4, 4), (3, 4), (6, 8), (0, 0), (5, 8)]:
    for depth in (1, 2, 3):
        for ops in itertools.product(alphabet, repeat=depth):
            if depth == 3 and ops[0][0] == "remove":
                continue
            run_history(meter, ops, "exhaustive")

# ---- 2. fills to capacity ---------------------------------------------------
for meter in METERS:
    for v, l in VOCAB:
        bar = Bar("C", meter)
        model = Model(meter)
        n = 0
        limit = 40 if meter == (0, 0) else 5000
        while n < limit:
            fits = model.fits(l)
            r = bar.place_notes("C", v) if n % 2 else bar.place_rest(v)
            if bool(r) != fits:
                fail("fill meter %r value %r: placement %d returned %r, expected %r" % (meter, v, n, r, fits))
            if not fits:
                break
            model.entries.append((l, v, expected_names("C") if n % 2 else None))
            n += 1
        check(bar, model, "fill meter %r value %r" % (meter, v))
        # a refused call repeated still changes nothing
        if meter != (0, 0):
            before = snapshot(bar)
            for _ in range(3):
                if bar.place_notes("D", v) is not False:
                    fail("fill meter %r value %r: repeated refusal accepted" % (meter, v))
            if snapshot(bar) != before:
                fail("fill meter %r value %r: repeated refusal changed the bar" % (meter, v))

# ---- 3. long random histories ----------------------------------------------
rng = random.Random(13)
for trial in range(60):
    meter = rng.choice(METERS)
    ops = []
    for _ in range(rng.randint(30, 120)):
        x = rng.random()
        if x < 0.22:
            ops.append(("remove",))
        elif x < 0.32:
            ops.append(("plus", rng.choice(CONTENTS)()))
        elif x < 0.5:
            v, l = rng.choice(VOCAB)
            ops.append(("rest", v, l))
        else:
            v, l = rng.choice(VOCAB)
            ops.append((rng.choice(["place", "kw"]), v, l, rng.choice(CONTENTS)()))
    bar, model = run_history(meter, ops, "random %d" % trial)

    # assigning content / adding notes at a beat changes only that entry
    if model.entries:
        i = rng.randrange(len(model.entries))
        before = snapshot(bar)
        newc = rng.choice(CONTENTS)()
        bar[i] = newc
        l, v, _ = model.entries[i]
        model.entries[i] = (l, v, expected_names(newc))
        after = snapshot(bar)
        for j in range(len(before[0])):
            if j != i and before[0][j] != after[0][j]:
                fail("random %d: bar[%d] = ... changed entry %d" % (trial, i, j))
        if after[0][i][:2] != before[0][i][:2] or after[1:] != before[1:]:
            fail("random %d: bar[%d] = ... changed the time accounting" % (trial, i))
        check(bar, model, "random %d after setitem" % trial)

        sounding = [j for j, e in enumerate(model.entries) if e[2] is not None]
        if sounding:
            j = rng.choice(sounding)
            before = snapshot(bar)
            bar.place_notes_at(NoteContainer(["G-6", "B-6"]), bar[j][0])
            l, v, names = model.entries[j]
            nc = NoteContainer()
            for n in names:
                nc.add_note(Note(n))
            nc.add_notes(NoteContainer(["G-6", "B-6"]))
            model.entries[j] = (l, v, names_of(nc))
            after = snapshot(bar)
            for k in range(len(before[0])):
                if k != j and before[0][k] != after[0][k]:
                    fail("random %d: place_notes_at changed entry %d" % (trial, k))
            if after[0][j][:2] != before[0][j][:2] or after[1:] != before[1:]:
                fail("random %d: place_notes_at changed the time accounting" % trial)
            check(bar, model, "random %d after place_notes_at" % trial)

# ---- 4. meters ---------------------------------------------------------------
def pow2(u):
    return isinstance(u, int) and u > 0 and (u & (u - 1)) == 0

for count in (1, 2, 3, 4, 5, 6, 7, 9, 12, 15):
    for unit in list(range(0, 40)) + [64, 128, 256, 100, 96, 1024, 1000]:
        CASES[0] += 1
        bar = Bar("C", (4, 4))
        bar.place_notes("C", 4)
        before = snapshot(bar)
        ok = pow2(unit)
        try:
            bar.set_meter((count, unit))
            accepted = True
        except Exception:  # the statement names no exception class
            accepted = False
        if accepted != ok:
            fail("set_meter(%r) accepted=%r, expected %r" % ((count, unit), accepted, ok))
        if ok:
            if bar.meter != (count, unit) or abs(bar.length - count / unit) > 1e-12:
                fail("set_meter(%r): meter %r length %r" % ((count, unit), bar.meter, bar.length))
        elif snapshot(bar) != before:
            fail("refused set_meter(%r) changed the bar" % ((count, unit),))
bar = Bar("C", (3, 4))
bar.set_meter((0, 0))
if bar.meter != (0, 0) or bar.length != 0:
    fail("set_meter((0, 0)) gave %r / %r" % (bar.meter, bar.length))
try:
    Bar("C", (4, 3))
    accepted = True
except Exception:
    accepted = False
if accepted:
    fail("Bar('C', (4, 3)) was accepted")

print("C13 demo OK (%d checks)" % CASES[0])
sys.exit(0)
