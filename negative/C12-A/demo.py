import mingus, os; assert os.path.realpath(mingus.__file__).startswith(os.path.realpath(os.path.dirname(__file__)))
# Direct check of property C12 (NoteContainer = pitch-ordered, duplicate-free set
# under any history) through the public API.  Exit 0 if it holds, 1 otherwise.
import itertools
import random
import sys

from mingus.containers.note import Note
from mingus.containers.note_container import NoteContainer
from mingus.core import chords, intervals, progressions, keys

BASE = {"C": 0, "D": 2, "E": 4, "F": 5, "G": 7, "A": 9, "B": 11}
CASES = [0]


class Failure(Exception):
    pass


def pitch(name, octave):
    return octave * 12 + BASE[name[0]] + name.count("#") - name.count("b")


class Model(object):
    """Set model: pitch -> (name, octave)."""

    def __init__(self):
        self.d = {}

    def content(self):
        return [self.d[p] for p in sorted(self.d)]

    def add(self, name, octave):
        p = pitch(name, octave)
        if p not in self.d:
            self.d[p] = (name, octave)

    def add_bare(self, name):
        if not self.d:
            self.add(name, 4)
            return
        top = max(self.d)
        toct = self.d[top][1]
        if pitch(name, toct) < top:
            self.add(name, toct + 1)
        else:
            self.add(name, toct)

    def remove_name(self, name, octave=None):
        for p in list(self.d):
            n, o = self.d[p]
            if n == name and (octave is None or o == octave):
                del self.d[p]

    def remove_pitch(self, p):
        self.d.pop(p, None)


def check(nc, model, trail):
    CASES[0] += 1
    want = model.content()
    got = [(n.name, n.octave) for n in nc.notes]
    if got != want:
        raise Failure("content %r != model %r after %r" % (got, want, trail))
    ints = [int(n) for n in nc.notes]
    if any(a >= b for a, b in zip(ints, ints[1:])):
        raise Failure("not strictly ascending: %r after %r" % (got, trail))
    if ints != [pitch(n, o) for n, o in want]:
        raise Failure("int() disagrees with pitch model %r after %r" % (got, trail))
    if len(nc) != len(want):
        raise Failure("len %r != %r after %r" % (len(nc), len(want), trail))
    if [(n.name, n.octave) for n in (nc[i] for i in range(len(nc)))] != want:
        raise Failure("indexing disagrees after %r" % (trail,))
    # membership
    for p in range(30, 90):
        if (Note(p) in nc) != (p in model.d):
            raise Failure("membership of pitch %d wrong after %r" % (p, trail))
    for n, o in want:
        if Note(n, o) not in nc:
            raise Failure("member %s-%d not found after %r" % (n, o, trail))
    # equality
    same = NoteContainer([[n, o] for n, o in want])
    if not (nc == same) or not (same == nc) or (nc != same):
        raise Failure("not equal to rebuilt container after %r" % (trail,))
    if not (nc == [Note(n, o) for n, o in want]):
        raise Failure("not equal to list of its notes after %r" % (trail,))
    other = NoteContainer([[n, o] for n, o in want])
    xo = 9
    while pitch("F#", xo) in model.d:
        xo += 1
    other.add_note("F#", xo)
    if nc == other or other == nc:
        raise Failure("equal to a superset after %r" % (trail,))
    if want:
        sub = NoteContainer([[n, o] for n, o in want[1:]])
        if nc == sub or sub == nc:
            raise Failure("equal to a subset after %r" % (trail,))
        sw = NoteContainer([[n, o] for n, o in want[1:]] + [["F#", xo]])
        if nc == sw:
            raise Failure("equal to same-size different container after %r" % (trail,))
    # unique-name list
    names = []
    for n, _ in want:
        if n not in names:
            names.append(n)
    if nc.get_note_names() != names:
        raise Failure("get_note_names %r != %r after %r" % (nc.get_note_names(), names, trail))
    # consonance predicates
    pairs = list(itertools.combinations([n for n, _ in want], 2))
    for f in (True, False):
        e = all(intervals.is_consonant(a, b, f) for a, b in pairs)
        if bool(nc.is_consonant(f)) != e:
            raise Failure("is_consonant(%r) wrong for %r" % (f, want))
        e = all(intervals.is_perfect_consonant(a, b, f) for a, b in pairs)
        if bool(nc.is_perfect_consonant(f)) != e:
            raise Failure("is_perfect_consonant(%r) wrong for %r" % (f, want))
        if bool(nc.is_dissonant(f)) != (not nc.is_consonant(not f)):
            raise Failure("is_dissonant(%r) wrong for %r" % (f, want))
    e = all(intervals.is_consonant(a, b) for a, b in pairs)
    if bool(nc.is_consonant()) != e:
        raise Failure("is_consonant() wrong for %r" % (want,))
    e = all(intervals.is_imperfect_consonant(a, b) for a, b in pairs)
    if bool(nc.is_imperfect_consonant()) != e:
        raise Failure("is_imperfect_consonant wrong for %r" % (want,))


# ---------------------------------------------------------------- operations
# each op: (label, function(nc, model) -> nc)

def op_add_note_obj(name, octave):
    def f(nc, m):
        nc.add_note(Note(name, octave))
        m.add(name, octave)
        return nc
    return ("add_note(Note(%s,%d))" % (name, octave), f)


def op_add_bare(name):
    def f(nc, m):
        nc.add_note(name)
        m.add_bare(name)
        return nc
    return ("add_note(%r)" % name, f)


def op_add_notes_str(name):
    def f(nc, m):
        nc.add_notes(name)
        m.add_bare(name)
        return nc
    return ("add_notes(%r)" % name, f)


def op_add_name_oct(name, octave):
    def f(nc, m):
        nc.add_note(name, octave)
        m.add(name, octave)
        return nc
    return ("add_note(%r,%d)" % (name, octave), f)


def op_add_dashed(name, octave):
    def f(nc, m):
        nc.add_note("%s-%d" % (name, octave))
        m.add(name, octave)
        return nc
    return ("add_note('%s-%d')" % (name, octave), f)


def op_add_list_bare(names, plus=False):
    def f(nc, m):
        if plus:
            nc = nc + list(names)
        else:
            nc.add_notes(list(names))
        for n in names:
            m.add_bare(n)
        return nc
    return ("%s(%r)" % ("+" if plus else "add_notes", names), f)


def op_add_list_pairs(pairs, plus=False):
    def f(nc, m):
        arg = [[n, o] for n, o in pairs]
        if plus:
            nc = nc + arg
        else:
            nc.add_notes(arg)
        for n, o in pairs:
            m.add(n, o)
        return nc
    return ("%s(%r)" % ("+" if plus else "add_notes", pairs), f)


def op_add_list_mixed(items):
    # items: Note specs (name, oct), bare names, dashed strings
    def f(nc, m):
        arg = []
        for it in items:
            if isinstance(it, tuple):
                arg.append(Note(it[0], it[1]))
            else:
                arg.append(it)
        nc.add_notes(arg)
        for it in items:
            if isinstance(it, tuple):
                m.add(it[0], it[1])
            elif "-" in it:
                n, o = it.split("-")
                m.add(n, int(o))
            else:
                m.add_bare(it)
        return nc
    return ("add_notes(mixed %r)" % (items,), f)


def op_add_container(pairs, plus=False):
    def f(nc, m):
        other = NoteContainer([[n, o] for n, o in pairs])
        if plus:
            nc = nc + other
        else:
            nc.add_notes(other)
        src = Model()
        for n, o in pairs:
            src.add(n, o)
        for n, o in src.content():
            m.add(n, o)
        if [(x.name, x.octave) for x in other.notes] != src.content():
            raise Failure("source container changed by being added")
        return nc
    return ("%s(NoteContainer(%r))" % ("+" if plus else "add_notes", pairs), f)


def op_add_single_note_via_notes(name, octave, plus=False):
    def f(nc, m):
        if plus:
            nc = nc + Note(name, octave)
        else:
            nc.add_notes(Note(name, octave))
        m.add(name, octave)
        return nc
    return ("%s(Note(%s,%d))" % ("+" if plus else "add_notes", name, octave), f)


def op_remove_name(name, how):
    def f(nc, m):
        if how == "note":
            nc.remove_note(name)
        elif how == "notes":
            nc.remove_notes(name)
        else:
            nc = nc - name
        m.remove_name(name)
        return nc
    return ("remove[%s](%r)" % (how, name), f)


def op_remove_name_oct(name, octave):
    def f(nc, m):
        nc.remove_note(name, octave)
        m.remove_name(name, octave)
        return nc
    return ("remove_note(%r,%d)" % (name, octave), f)


def op_remove_obj(name, octave, how):
    def f(nc, m):
        n = Note(name, octave)
        if how == "note":
            nc.remove_note(n)
        elif how == "notes":
            nc.remove_notes(n)
        else:
            nc = nc - n
        m.remove_pitch(pitch(name, octave))
        return nc
    return ("remove[%s](Note(%s,%d))" % (how, name, octave), f)


def op_remove_list(items, minus=False):
    def f(nc, m):
        arg = [Note(*it) if isinstance(it, tuple) else it for it in items]
        if minus:
            nc = nc - arg
        else:
            nc.remove_notes(arg)
        for it in items:
            if isinstance(it, tuple):
                m.remove_pitch(pitch(*it))
            else:
                m.remove_name(it)
        return nc
    return ("%s(%r)" % ("-" if minus else "remove_notes", items), f)


def run_sequence(ops, start=None):
    nc = NoteContainer()
    m = Model()
    trail = []
    if start:
        nc = NoteContainer(list(start))
        for n in start:
            m.add_bare(n)
        trail.append("init%r" % (start,))
        check(nc, m, trail)
    for label, f in ops:
        trail.append(label)
        nc2 = f(nc, m)
        if nc2 is not nc:
            raise Failure("operator did not return the container itself: %r" % (trail,))
        check(nc, m, trail)


SMALL = [
    op_add_note_obj("E", 4),
    op_add_bare("C"),
    op_add_bare("G"),
    op_add_name_oct("C", 5),
    op_add_dashed("Db", 4),
    op_add_note_obj("C#", 4),
    op_add_list_bare(("A", "C", "E"), plus=True),
    op_add_container((("G", 3), ("C", 5)), plus=True),
    op_add_list_pairs((("B#", 3), ("E", 5))),
    op_remove_name("C", "note"),
    op_remove_name_oct("C", 5),
    op_remove_obj("E", 4, "minus"),
    op_remove_list(("G", ("C", 4)), minus=True),
    op_remove_name("E", "minus"),
]

NAMES = ["C", "C#", "Db", "D", "Eb", "E", "Fb", "E#", "F", "F#", "G", "Ab", "A", "Bb", "B", "Cb", "B#", "C##", "Dbb"]


def random_op(rng):
    k = rng.randrange(18)
    nm = lambda: rng.choice(NAMES)
    oc = lambda: rng.randrange(2, 7)
    if k == 0:
        return op_add_note_obj(nm(), oc())
    if k == 1:
        return op_add_bare(nm())
    if k == 2:
        return op_add_notes_str(nm())
    if k == 3:
        return op_add_name_oct(nm(), oc())
    if k == 4:
        return op_add_dashed(nm(), oc())
    if k == 5:
        return op_add_list_bare(tuple(nm() for _ in range(rng.randrange(0, 5))), plus=rng.random() < 0.5)
    if k == 6:
        return op_add_list_pairs(tuple((nm(), oc()) for _ in range(rng.randrange(0, 4))), plus=rng.random() < 0.5)
    if k == 7:
        items = []
        for _ in range(rng.randrange(1, 5)):
            r = rng.randrange(3)
            if r == 0:
                items.append((nm(), oc()))
            elif r == 1:
                items.append(nm())
            else:
                items.append("%s-%d" % (nm(), oc()))
        return op_add_list_mixed(tuple(items))
    if k == 8:
        return op_add_container(tuple((nm(), oc()) for _ in range(rng.randrange(0, 4))), plus=rng.random() < 0.5)
    if k == 9:
        return op_add_single_note_via_notes(nm(), oc(), plus=rng.random() < 0.5)
    if k in (10, 11):
        return op_remove_name(nm(), rng.choice(["note", "notes", "minus"]))
    if k in (12, 13):
        return op_remove_name_oct(nm(), oc())
    if k in (14, 15):
        return op_remove_obj(nm(), oc(), rng.choice(["note", "notes", "minus"]))
    items = []
    for _ in range(rng.randrange(0, 4)):
        items.append((nm(), oc()) if rng.random() < 0.5 else nm())
    return op_remove_list(tuple(items), minus=rng.random() < 0.5)


def voiced(names):
    m = Model()
    for n in names:
        m.add_bare(n)
    return m


def check_voicing_statement(names, nc, what):
    """Bare names in order: each at or above the previous top, < an octave above."""
    if not names:
        return
    if any(not 0 <= pitch(n, 0) <= 11 for n in names):
        # spellings that cross the octave line (Cb, B#, ...) carry a nominal octave
        # different from their sounding one; the exact model check covers them.
        if (nc.notes[0].name, nc.notes[0].octave) != (names[0], 4):
            raise Failure("%s does not start on %s-4: %r" % (what, names[0], nc.notes))
        return
    first = nc.notes[0]
    if (first.name, first.octave) != (names[0], 4):
        raise Failure("%s does not start on %s-4: %r" % (what, names[0], nc.notes))
    top = pitch(names[0], 4)
    seq = [top]
    for n in names[1:]:
        cands = [o for o in range(0, 12) if top <= pitch(n, o) < top + 12]
        if len(cands) != 1:
            raise Failure("internal: no unique voicing")
        p = pitch(n, cands[0])
        if p not in [int(x) for x in nc.notes]:
            raise Failure("%s: %s-%d missing in %r" % (what, n, cands[0], nc.notes))
        top = max(top, p)
        seq.append(p)
    if sorted(set(seq)) != [int(x) for x in nc.notes]:
        raise Failure("%s: pitches %r != expected %r" % (what, [int(x) for x in nc.notes], sorted(set(seq))))


def constructors():
    roots = ["C", "C#", "Db", "D", "Eb", "E", "F", "F#", "Gb", "G", "Ab", "A", "Bb", "B", "Cb", "B#"]
    for sh in sorted(chords.chord_shorthand):
        for root in roots:
            names = chords.from_shorthand(root + sh)
            nc = NoteContainer(["A", "B"])
            r = nc.from_chord_shorthand(root + sh)
            if r is not nc:
                raise Failure("from_chord_shorthand does not return self")
            check(nc, voiced(names), ["from_chord_shorthand(%r)" % (root + sh)])
            check_voicing_statement(names, nc, "chord %s" % (root + sh))
            nc2 = NoteContainer().from_chord(root + sh)
            if not nc2 == nc:
                raise Failure("from_chord differs from from_chord_shorthand")
            nc3 = NoteContainer(names)
            if not nc3 == nc:
                raise Failure("NoteContainer(list) differs from from_chord_shorthand")
    for start in roots:
        for acc in ["", "b", "#", "bb"]:
            for num in "1234567":
                sh = acc + num
                for up in (True, False):
                    n = intervals.from_shorthand(start, sh, up)
                    if up:
                        o = 4 + (1 if pitch(n, 4) < pitch(start, 4) else 0)
                    else:
                        o = 4 - (1 if pitch(n, 4) > pitch(start, 4) else 0)
                    m = Model()
                    m.add(start, 4)
                    m.add(n, o)
                    nc = NoteContainer(["F", "G"])
                    r = nc.from_interval_shorthand(start, sh, up)
                    if r is not nc:
                        raise Failure("from_interval_shorthand does not return self")
                    check(nc, m, ["from_interval_shorthand(%r,%r,%r)" % (start, sh, up)])
                    if up:
                        if (nc[0].name, nc[0].octave) != (start, 4):
                            raise Failure("interval does not start on root-4")
                        plain = 0 <= pitch(start, 0) <= 11 and 0 <= pitch(n, 0) <= 11
                        if plain and not 0 <= int(nc[-1]) - int(nc[0]) < 12:
                            raise Failure("interval %s %s not within an octave above the root: %r" % (start, sh, nc.notes))
                    nc2 = NoteContainer().from_interval(Note(start, 4), sh, up)
                    if not nc2 == nc:
                        raise Failure("from_interval(Note) differs")
    for key in keys.major_keys:
        for num in progressions.numerals:
            for suf in ["", "7", "m", "dim", "m7", "dom7", "M6", "sus4", "9"]:
                for pre in ["", "b", "#"]:
                    sh = pre + num + suf
                    names = progressions.to_chords(sh, key)[0]
                    nc = NoteContainer(["D"])
                    r = nc.from_progression_shorthand(sh, key)
                    if r is not nc:
                        raise Failure("from_progression_shorthand does not return self")
                    check(nc, voiced(names), ["from_progression_shorthand(%r,%r)" % (sh, key)])
                    check_voicing_statement(names, nc, "progression %s in %s" % (sh, key))
    nc = NoteContainer().from_progression("V7")
    check(nc, voiced(["G", "B", "D", "F"]), ["from_progression('V7')"])


def main():
    try:
        # documented examples
        if [(n.name, n.octave) for n in NoteContainer().from_chord_shorthand("Am").notes] != [("A", 4), ("C", 5), ("E", 5)]:
            raise Failure("Am example")
        if [(n.name, n.octave) for n in NoteContainer().from_interval_shorthand("C", "5", False).notes] != [("F", 3), ("C", 4)]:
            raise Failure("interval down example")
        # exhaustive to depth 3 over SMALL, with three starting points
        for depth in range(0, 4):
            for seq in itertools.product(SMALL, repeat=depth):
                run_sequence(seq)
        for start in (("C", "E", "G"), ("A", "C", "E", "G", "B")):
            for seq in itertools.product(SMALL, repeat=2):
                run_sequence(seq, start)
        rng = random.Random(1212)
        for _ in range(400):
            run_sequence([random_op(rng) for _ in range(rng.randrange(5, 25))])
        # bare-name voicing on random name lists
        for _ in range(400):
            names = [rng.choice(NAMES) for _ in range(rng.randrange(1, 8))]
            nc = NoteContainer(names)
            check(nc, voiced(names), ["NoteContainer(%r)" % names])
            check_voicing_statement(names, nc, "list %r" % names)
        constructors()
    except Failure as e:
        print("C12 VIOLATED: %s" % e)
        return 1
    print("C12 holds on %d checked states" % CASES[0])
    return 0


if __name__ == "__main__":
    sys.exit(main())
