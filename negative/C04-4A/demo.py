import mingus, os; assert os.path.realpath(mingus.__file__).startswith(os.path.realpath(os.path.dirname(__file__)))
import sys

from mingus.core import keys, intervals, notes
from mingus.core.mt_exceptions import NoteFormatError, RangeError

MAJOR = ["Cb", "Gb", "Db", "Ab", "Eb", "Bb", "F", "C", "G", "D", "A", "E", "B", "F#", "C#"]
MINOR = ["ab", "eb", "bb", "f", "c", "g", "d", "a", "e", "b", "f#", "c#", "g#", "d#", "a#"]
LETTERS = "CDEFGAB"
NATURAL = {"C": 0, "D": 2, "E": 4, "F": 5, "G": 7, "A": 9, "B": 11}
SHARP_ORDER = list("FCGDAEB")
FLAT_ORDER = list("BEADGCF")
MAJOR_STEPS = [2, 2, 1, 2, 2, 2, 1]
MINOR_STEPS = [2, 1, 2, 2, 1, 2, 2]

failures = []
cases = [0]


def check(cond, msg):
    cases[0] += 1
    if not cond:
        failures.append(msg)


def pitch(note):
    v = NATURAL[note[0]]
    for c in note[1:]:
        v += 1 if c == "#" else -1
    return v % 12


def raises(exc, fn, *args, **kwargs):
    try:
        fn(*args, **kwargs)
    except exc:
        return True
    except Exception as e:  # wrong class
        return "raised %s: %s" % (type(e).__name__, e)
    return "no exception"


def check_key(key, sig, minor):
    # signature number
    check(keys.get_key_signature(key) == sig, "signature of %r" % key)
    check(keys.get_key_signature(key=key) == sig, "signature (kw) of %r" % key)
    check(keys.is_valid_key(key) is True, "is_valid_key(%r)" % key)
    # key lookup is the inverse
    couple = keys.get_key(sig)
    check(tuple(couple)[1 if minor else 0] == key, "get_key(%d) gives %r" % (sig, key))
    check(len(couple) == 2, "get_key(%d) is a pair" % sig)
    # signature accidentals
    acc = keys.get_key_signature_accidentals(key)
    check(isinstance(acc, list), "accidentals list type for %r" % key)
    if sig >= 0:
        expected = [l + "#" for l in SHARP_ORDER[:sig]]
    else:
        expected = [l + "b" for l in FLAT_ORDER[:-sig]]
    check(acc == expected, "accidentals of %r: %r != %r" % (key, acc, expected))
    check(len(acc) == abs(sig), "accidental count of %r" % key)
    # notes
    ns = keys.get_notes(key)
    check(isinstance(ns, list) and len(ns) == 7, "7 notes in %r" % key)
    tonic = key[0].upper() + key[1:]
    check(ns[0] == tonic, "tonic first in %r: %r" % (key, ns))
    start = LETTERS.index(tonic[0])
    check(
        [n[0] for n in ns] == [LETTERS[(start + i) % 7] for i in range(7)],
        "letters in order in %r: %r" % (key, ns),
    )
    steps = [(pitch(ns[(i + 1) % 7]) - pitch(ns[i])) % 12 for i in range(7)]
    check(steps == (MINOR_STEPS if minor else MAJOR_STEPS), "steps of %r: %r" % (key, steps))
    check(
        sorted(n for n in ns if len(n) > 1) == sorted(acc),
        "accidentals inside notes of %r: %r vs %r" % (key, ns, acc),
    )
    check(all(len(n) <= 2 for n in ns), "single accidentals in %r" % key)
    # a returned list is the caller's own
    ns.append("X")
    ns[0] = "Q"
    check(keys.get_notes(key) == keys.get_notes(key=key) and len(keys.get_notes(key)) == 7
          and keys.get_notes(key)[0] == tonic, "get_notes(%r) unaffected by caller edits" % key)
    acc.append("X")
    check(keys.get_key_signature_accidentals(key) == expected, "accidentals unaffected by caller edits %r" % key)
    # key object
    k = keys.Key(key)
    check(k.key == key, "Key(%r).key" % key)
    check(k.mode == ("minor" if minor else "major"), "Key(%r).mode" % key)
    check(k.signature == sig, "Key(%r).signature" % key)
    sym = {"": "", "#": "sharp ", "b": "flat "}[key[1:]]
    check(
        k.name == "%s %s%s" % (key[0].upper(), sym, "minor" if minor else "major"),
        "Key(%r).name = %r" % (key, k.name),
    )
    check(k == keys.Key(key) and not (k != keys.Key(key)), "Key(%r) equals itself" % key)
    # diatonic steps
    fns = [intervals.second, intervals.third, intervals.fourth, intervals.fifth,
           intervals.sixth, intervals.seventh]
    real = keys.get_notes(key)
    by_letter = dict((n[0], i) for i, n in enumerate(real))
    for spelling in ["", "#", "b", "##", "bb", "#b#"]:
        for letter in LETTERS:
            note = letter + spelling
            for step, fn in enumerate(fns, 1):
                want = real[(by_letter[letter] + step) % 7]
                got = fn(note, key)
                check(got == want, "%s(%r, %r) = %r, want %r" % (fn.__name__, note, key, got, want))
            # keyword form and the generic function
            check(intervals.third(note=note, key=key) == real[(by_letter[letter] + 2) % 7],
                  "third kw (%r, %r)" % (note, key))
            check(intervals.interval(key, note, 4) == real[(by_letter[letter] + 4) % 7],
                  "interval(%r, %r, 4)" % (key, note))


for passes in range(2):  # twice: whatever is remembered between calls must not matter
    for i, (M, m) in enumerate(zip(MAJOR, MINOR)):
        sig = i - 7
        check_key(M, sig, False)
        check_key(m, sig, True)
        check(tuple(keys.get_key(sig)) == (M, m), "get_key(%d)" % sig)
        check(tuple(keys.get_key(accidentals=sig)) == (M, m), "get_key(accidentals=%d)" % sig)
        # relatives
        check(keys.relative_minor(M) == m, "relative_minor(%r)" % M)
        check(keys.relative_major(m) == M, "relative_major(%r)" % m)
        check(keys.relative_major(keys.relative_minor(M)) == M, "relatives inverse %r" % M)
        check(keys.relative_minor(keys.relative_major(m)) == m, "relatives inverse %r" % m)
        check(sorted(keys.get_notes(M)) == sorted(keys.get_notes(m)), "relatives share notes %r" % M)
        check((pitch(keys.get_notes(m)[0]) - pitch(keys.get_notes(M)[0])) % 12 == 9,
              "minor tonic 9 semitones above major %r" % M)
        check(keys.get_notes(m) == keys.get_notes(M)[5:] + keys.get_notes(M)[:5], "minor is rotation %r" % M)
        check(keys.get_key_signature(M) == keys.get_key_signature(m), "same signature %r/%r" % (M, m))
        # wrong-mode relatives are refused
        check(raises(NoteFormatError, keys.relative_major, M) is True, "relative_major(%r) refused" % M)
        check(raises(NoteFormatError, keys.relative_minor, m) is True, "relative_minor(%r) refused" % m)

    check(keys.get_key() == keys.get_key(0), "default get_key")
    check(keys.get_key_signature() == 0 and keys.get_notes() == list(LETTERS), "defaults")
    check(keys.Key().key == "C" and keys.Key().name == "C major", "default Key")

    # out-of-range signature numbers
    for n in [-8, 8, -9, 9, 15, -15, 100, -100, 10 ** 30, -(10 ** 30), 2 ** 63, 10 ** 5000, -(10 ** 5000), 12, -12, 7 + 15, -7 - 15]:
        shown = hex(n)
        r = raises(RangeError, keys.get_key, n)
        check(r is True, "get_key(%s): %s" % (shown, r))
        r = raises(RangeError, keys.get_key, accidentals=n)
        check(r is True, "get_key(accidentals=%s): %s" % (shown, r))

    # unknown keys
    bad = ["", "H", "c b", "C ", " C", "Cb ", "CB", "cb", "Ab#", "A##", "a##", "fb", "Fb", "G#", "D#", "A#",
           "db", "gb", "E#", "e#", "B#", "b#", "C\n", "\nC", "{", "{0}", "%", "%s", "%(key)s", "%d", "C%s",
           "é", "С", "c♯", "Do", "C major", "Cmaj", "a minor", "C" * 5000, "ab" * 3000,
           "('C', 'a')", "C,a", "Ca", "0", "-3", "c#b", "\x00", "C\x00", "'", '"', "\\"]
    for s in bad:
        check(keys.is_valid_key(s) is False, "is_valid_key(%r)" % s[:20])
        for fn in (keys.get_key_signature, keys.get_key_signature_accidentals, keys.get_notes, keys.Key):
            r = raises(NoteFormatError, fn, s)
            check(r is True, "%s(%r): %s" % (fn.__name__, s[:20], r))
            r = raises(NoteFormatError, fn, s)  # a refused call repeated is refused again
            check(r is True, "%s(%r) again: %s" % (fn.__name__, s[:20], r))
        for fn in (keys.relative_major, keys.relative_minor):
            r = raises(NoteFormatError, fn, s)
            check(r is True, "%s(%r): %s" % (fn.__name__, s[:20], r))
        r = raises(NoteFormatError, intervals.third, "C", s)
        check(r is True, "third('C', %r): %s" % (s[:20], r))
    # refused keys leave the good ones as they were
    check(keys.get_notes("F") == ["F", "G", "A", "Bb", "C", "D", "E"], "F after refusals")
    check(keys.get_notes("c") == ["C", "D", "Eb", "F", "G", "Ab", "Bb"], "c after refusals")

    # many distinct candidate strings in one process
    for i in range(400):
        s = "K%d" % i
        check(keys.is_valid_key(s) is False and raises(NoteFormatError, keys.get_notes, s) is True,
              "made-up key %r" % s)
    check(keys.get_notes("d#") == ["D#", "E#", "F#", "G#", "A#", "B", "C#"], "d# after many refusals")

if failures:
    print("PROPERTY VIOLATED (%d of %d checks):" % (len(failures), cases[0]))
    for f in failures[:30]:
        print("  " + f)
    sys.exit(1)
print("ok: %d checks" % cases[0])
sys.exit(0)
