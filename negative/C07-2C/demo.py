import mingus, os; assert os.path.realpath(mingus.__file__).startswith(os.path.realpath(os.path.dirname(__file__)))

# Direct check of property C07 through the public API.
import itertools
import random
import sys

from mingus.core import chords, intervals

ORDINALS = [
    "",
    ", first inversion",
    ", second inversion",
    ", third inversion",
    ", fourth inversion",
    ", fifth inversion",
    ", sixth inversion",
]

LETTERS = "CDEFGAB"
ROOTS_1 = [l + a for l in LETTERS for a in ("", "#", "b")]
ROOTS_2 = [l + a for l in LETTERS for a in ("##", "bb")]

failures = []
counts = {"construct": 0, "three": 0, "long": 0, "trivial": 0}


def fail(msg):
    failures.append(msg)
    if len(failures) >= 20:
        finish()


def finish():
    if failures:
        for f in failures:
            print("FAIL: " + f)
        print("%d failure(s)" % len(failures))
        sys.exit(1)
    print("C07 holds on all checked inputs: %r" % (counts,))
    sys.exit(0)


def both_forms(chord, **kw):
    """determine in both forms; never raises, same length, same positions
    for polychord names, input left alone."""
    before = list(chord)
    try:
        short = chords.determine(chord, True, **kw)
        if random.random() < 0.5:
            long_ = chords.determine(chord, **kw)
        else:
            long_ = chords.determine(chord=chord, shorthand=False, **kw)
    except Exception as e:  # noqa
        fail("determine(%r) raised %r" % (chord, e))
        return None, None
    if list(chord) != before:
        fail("determine changed its argument %r -> %r" % (before, chord))
    if not isinstance(short, list) or not isinstance(long_, list):
        fail("determine(%r) did not return lists: %r %r" % (chord, short, long_))
        return None, None
    if len(short) != len(long_):
        fail("length differs for %r: %r vs %r" % (chord, short, long_))
        return None, None
    for s, l in zip(short, long_):
        if ("|" in s) != ("|" in l):
            fail("order differs for %r: %r vs %r" % (chord, short, long_))
        # the long form of an ordinary name begins with the same root
        if "|" not in s:
            root = root_of(s)
            if not l.startswith(root + " "):
                fail("order differs for %r: %r vs %r" % (chord, short, long_))
    return short, long_


def root_of(name):
    i = 1
    while i < len(name) and name[i] in "#b":
        i += 1
    return name[:i]


_accept_cache = {}


def accepted(name):
    """The shorthand name (and each half of a polychord name) is accepted by
    chord construction; return the notes of the whole name."""
    if name in _accept_cache:
        return _accept_cache[name]
    try:
        res = chords.from_shorthand(name)
        for half in name.split("|"):
            h = chords.from_shorthand(half)
            if not isinstance(h, list) or not h:
                raise ValueError("half %r builds %r" % (half, h))
    except Exception as e:  # noqa
        fail("from_shorthand does not accept returned name %r: %r" % (name, e))
        res = None
    _accept_cache[name] = res
    return res


def check_constructed(sh, root):
    chord = chords.from_shorthand(root + sh)
    if chord[0] != root:
        fail("from_shorthand(%r) does not start on its root: %r" % (root + sh, chord))
    n = len(chord)
    if n < 3:
        # e.g. the '5' power chord: two notes, trivial answer
        for form in (True, False):
            got = chords.determine(list(chord), form)
            if got != [intervals.determine(chord[0], chord[1])]:
                fail("two-note answer for %r: %r" % (chord, got))
        return
    expected_meaning = chords.chord_shorthand_meaning[sh]
    for k in range(n):
        rot = chord[k:] + chord[:k]
        short, long_ = both_forms(rot)
        counts["construct"] += 1
        if short is None:
            continue
        for s in short:
            accepted(s)
        want_long = root + expected_meaning + ORDINALS[k]
        hit = False
        for s, l in zip(short, long_):
            if l == want_long and accepted(s) == chord:
                hit = True
                break
        if not hit:
            fail(
                "%r (rotation %d of %s%s) not recognised: short=%r long=%r, wanted %r"
                % (rot, k, root, sh, short, long_, want_long)
            )


def check_three(a, b, c):
    given = [a, b, c]
    short, long_ = both_forms(given)
    counts["three"] += 1
    if short is None:
        return
    for s in short:
        built = accepted(s)
        if built is None:
            continue
        if not set(given) <= set(built):
            fail("name %r for %r builds %r which lacks some given note" % (s, given, built))
    # the long names denote the same chords at the same positions
    for s, l in zip(short, long_):
        sh = s[len(root_of(s)):]
        if sh in chords.chord_shorthand_meaning:
            if not l.startswith(root_of(s) + chords.chord_shorthand_meaning[sh]):
                fail("long name %r does not match short %r for %r" % (l, s, given))


def check_trivial():
    for form in (True, False):
        counts["trivial"] += 1
        if chords.determine([], form) != []:
            fail("determine([]) -> %r" % (chords.determine([], form),))
        for n in ROOTS_1 + ROOTS_2:
            if chords.determine([n], form) != [n]:
                fail("determine([%r]) -> %r" % (n, chords.determine([n], form)))
        for a in ROOTS_1:
            for b in ROOTS_1[::2] + ROOTS_2[::3]:
                got = chords.determine([a, b], form)
                if got != [intervals.determine(a, b)]:
                    fail("determine(%r) -> %r" % ([a, b], got))
                if not (isinstance(got[0], str) and " " in got[0]):
                    fail("interval name expected for %r, got %r" % ([a, b], got))
    if chords.determine(["C", "E"]) != ["major third"]:
        fail("determine(['C','E']) -> %r" % chords.determine(["C", "E"]))
    if chords.determine(["C", "G"], True) != ["perfect fifth"]:
        fail("determine(['C','G'], True) -> %r" % chords.determine(["C", "G"], True))


def check_long_inputs(rng):
    pool = ROOTS_1 + ROOTS_2
    for n in (4, 5, 6, 7):
        for _ in range(120):
            chord = [rng.choice(pool) for _ in range(n)]
            short, long_ = both_forms(chord)
            counts["long"] += 1
            if short:
                for s in short:
                    accepted(s)
    # stacked thirds in a key are the inputs that give many answers
    from mingus.core import keys

    for key in ("C", "Eb", "F#", "a", "g#"):
        scale = keys.get_notes(key)
        for start in range(7):
            for n in (4, 5, 6, 7):
                chord = [scale[(start + 2 * i) % 7] for i in range(n)]
                for k in (0, 1, n - 1):
                    rot = chord[k:] + chord[:k]
                    short, long_ = both_forms(rot)
                    counts["long"] += 1
                    if short:
                        for s in short:
                            accepted(s)
    # flags passed by keyword
    for chord in (["C", "E", "G", "B"], ["G", "B", "D", "F", "A"], ["A", "C", "E", "G", "B", "D"]):
        both_forms(chord, no_inversions=True)
        both_forms(chord, no_polychords=True)
        both_forms(chord, no_inversions=True, no_polychords=True)
        a = chords.determine(chord, True)
        b = chords.determine(chord, True)
        if a != b:
            fail("repeated call differs for %r" % (chord,))
        a.append("x")
        if chords.determine(chord, True) != b:
            fail("changing a returned list changed a later answer for %r" % (chord,))


def main():
    rng = random.Random(7)
    random.seed(7)
    check_trivial()

    shorthands = sorted(chords.chord_shorthand)
    for sh in shorthands:
        for root in ROOTS_1:
            check_constructed(sh, root)
        for root in rng.sample(ROOTS_2, 4):
            check_constructed(sh, root)
    # the same object used twice, and a name with the long spellings
    c = chords.from_shorthand("Amin7")
    if c != chords.from_shorthand("Am7") or c != chords.from_shorthand("A-7"):
        fail("Amin7 / Am7 / A-7 differ")
    both_forms(c)
    both_forms(c)

    for a, b, c3 in itertools.product(ROOTS_1, repeat=3):
        check_three(a, b, c3)

    check_long_inputs(rng)
    finish()


main()
