import mingus, os; assert os.path.realpath(mingus.__file__).startswith(os.path.realpath(os.path.dirname(__file__)))
"""Direct check of property C06 (chord shorthand builds the chord its formula
prescribes on every root) through the public API only."""
import sys

from mingus.core import chords
from mingus.core.mt_exceptions import FormatError, NoteFormatError

LETTERS = "CDEFGAB"
SEMI = {"C": 0, "D": 2, "E": 4, "F": 5, "G": 7, "A": 9, "B": 11}

# interval name -> (letter steps above the root, semitones above the root)
I = {
    "m2": (1, 1), "M2": (1, 2), "A2": (1, 3),
    "m3": (2, 3), "M3": (2, 4),
    "P4": (3, 5), "A4": (3, 6),
    "d5": (4, 6), "P5": (4, 7), "A5": (4, 8),
    "M6": (5, 9),
    "d7": (6, 9), "m7": (6, 10), "M7": (6, 11),
}

# chord formula per textual meaning, and the named builder that goes with it
FORMULA = {
    " minor triad": ("m3 P5", "minor_triad"),
    " major triad": ("M3 P5", "major_triad"),
    " diminished triad": ("m3 d5", "diminished_triad"),
    " augmented triad": ("M3 A5", "augmented_triad"),
    " augmented minor seventh": ("M3 A5 m7", "augmented_minor_seventh"),
    " augmented major seventh": ("M3 A5 M7", "augmented_major_seventh"),
    " suspended seventh": ("P4 P5 m7", "suspended_seventh"),
    " suspended fourth triad": ("P4 P5", "suspended_fourth_triad"),
    " suspended second triad": ("M2 P5", "suspended_second_triad"),
    " eleventh": ("P5 m7 P4", "eleventh"),
    " suspended fourth ninth": ("P4 P5 m2", "suspended_fourth_ninth"),
    " minor seventh": ("m3 P5 m7", "minor_seventh"),
    " major seventh": ("M3 P5 M7", "major_seventh"),
    " dominant seventh": ("M3 P5 m7", "dominant_seventh"),
    " half diminished seventh": ("m3 d5 m7", "half_diminished_seventh"),
    " diminished seventh": ("m3 d5 d7", "diminished_seventh"),
    " minor/major seventh": ("m3 P5 M7", "minor_major_seventh"),
    " minor sixth": ("m3 P5 M6", "minor_sixth"),
    " major sixth": ("M3 P5 M6", "major_sixth"),
    " dominant sixth": ("M3 P5 M6 m7", "dominant_sixth"),
    " sixth ninth": ("M3 P5 M6 M2", "sixth_ninth"),
    " dominant ninth": ("M3 P5 m7 M2", "dominant_ninth"),
    " dominant flat ninth": ("M3 P5 m7 m2", "dominant_flat_ninth"),
    " dominant sharp ninth": ("M3 P5 m7 A2", "dominant_sharp_ninth"),
    " major ninth": ("M3 P5 M7 M2", "major_ninth"),
    " minor ninth": ("m3 P5 m7 M2", "minor_ninth"),
    " lydian dominant seventh": ("M3 P5 m7 A4", "lydian_dominant_seventh"),
    " minor eleventh": ("m3 P5 m7 P4", "minor_eleventh"),
    " major eleventh": ("M3 P5 M7 M2 P4", "major_eleventh"),
    " major thirteenth": ("M3 P5 M7 M2 M6", "major_thirteenth"),
    " minor thirteenth": ("m3 P5 m7 M2 M6", "minor_thirteenth"),
    " dominant thirteenth": ("M3 P5 m7 M2 M6", "dominant_thirteenth"),
    " dominant flat five": ("M3 d5 m7", "dominant_flat_five"),
    " hendrix chord": ("M3 P5 m7 m3", "hendrix_chord"),
    " perfect fifth": ("P5", None),
}

ROOTS = [l + a for l in LETTERS for a in ("", "#", "b", "##", "bb")]
failures = []
count = [0]


def fail(msg):
    failures.append(msg)


def pitch(note):
    return (SEMI[note[0]] + note.count("#") - note.count("b")) % 12


def well_formed(note):
    return (
        isinstance(note, str)
        and len(note) >= 1
        and note[0] in SEMI
        and all(c in "#b" for c in note[1:])
    )


def expected_ok(root, formula, chord, label):
    """chord must be root followed by the prescribed letters / distances."""
    count[0] += 1
    names = formula.split()
    if not isinstance(chord, list):
        return fail("%s: not a list: %r" % (label, chord))
    if len(chord) != len(names) + 1:
        return fail("%s: wrong length %r" % (label, chord))
    if chord[0] != root:
        return fail("%s: does not start on the root: %r" % (label, chord))
    for name, note in zip(names, chord[1:]):
        steps, semis = I[name]
        if not well_formed(note):
            return fail("%s: malformed note %r" % (label, note))
        want_letter = LETTERS[(LETTERS.index(root[0]) + steps) % 7]
        if note[0] != want_letter:
            return fail("%s: %s on wrong letter: %r" % (label, name, chord))
        if (pitch(note) - pitch(root)) % 12 != semis:
            return fail("%s: %s at wrong distance: %r" % (label, name, chord))


def raises(exc, fn, *args, **kwargs):
    count[0] += 1
    try:
        got = fn(*args, **kwargs)
    except exc:
        return True
    except Exception as e:  # wrong class
        fail("%r%r raised %s instead of %s" % (fn.__name__, args, type(e).__name__, exc.__name__))
        return False
    fail("%r%r returned %r instead of raising %s" % (fn.__name__, args, got, exc.__name__))
    return False


def alias_spellings(key):
    out = set()
    for a in ("min", "mi", "-"):
        out.add(key.replace("m", a))
    for a in ("maj", "ma"):
        out.add(key.replace("M", a))
    for a in ("min", "mi", "-"):
        for b in ("maj", "ma"):
            out.add(key.replace("m", a).replace("M", b))
    out.discard(key)
    return sorted(out)


def main():
    keys = sorted(chords.chord_shorthand)
    meaning = chords.chord_shorthand_meaning

    # constructible shorthands == shorthands with a textual meaning
    if set(chords.chord_shorthand) != set(meaning):
        fail("key sets differ: %r" % sorted(set(chords.chord_shorthand) ^ set(meaning)))
    for k in keys:
        if meaning.get(k) not in FORMULA:
            fail("no formula known to the demo for %r (%r)" % (k, meaning.get(k)))
    if failures:
        return

    # every shorthand x every root: formula, named builder, table entry
    for k in keys:
        formula, builder = FORMULA[meaning[k]]
        for root in ROOTS:
            chord = chords.from_shorthand(root + k)
            expected_ok(root, formula, chord, "from_shorthand(%r)" % (root + k))
            if chords.from_shorthand(shorthand_string=root + k) != chord:
                fail("keyword call differs for %r" % (root + k))
            if chords.chord_shorthand[k](root) != chord:
                fail("chord_shorthand[%r](%r) differs" % (k, root))
            if builder is not None:
                named = getattr(chords, builder)
                if named(root) != chord or named(note=root) != chord:
                    fail("%s(%r) != from_shorthand(%r)" % (builder, root, root + k))
            # fresh result objects every time
            again = chords.from_shorthand(root + k)
            if again is chord or again != chord:
                fail("repeated call differs / shares the list for %r" % (root + k))
            chord.append("X")
            if chords.from_shorthand(root + k) != again:
                fail("mutating a result leaks into later calls for %r" % (root + k))

    # same meaning -> same chord
    by_meaning = {}
    for k in keys:
        by_meaning.setdefault(meaning[k], []).append(k)
    for group in by_meaning.values():
        for root in ("C", "F#", "Bb", "E##", "Abb"):
            first = chords.from_shorthand(root + group[0])
            for other in group[1:]:
                count[0] += 1
                if chords.from_shorthand(root + other) != first:
                    fail("%r and %r differ on %r" % (group[0], other, root))

    # extra aliases of the builders
    for root in ROOTS:
        count[0] += 1
        if chords.minor_seventh_flat_five(root) != chords.from_shorthand(root + "m7b5"):
            fail("minor_seventh_flat_five(%r)" % root)
        if chords.suspended_triad(root) != chords.from_shorthand(root + "sus"):
            fail("suspended_triad(%r)" % root)

    # concrete spellings named in the statement
    concrete = {
        "Cm7": ["C", "Eb", "G", "Bb"],
        "C7#11": ["C", "E", "G", "Bb", "F#"],
        "Cdim7": ["C", "Eb", "Gb", "Bbb"],
        "Cbdim7": ["Cb", "Ebb", "Gbb", "Bbbb"],
        "F#dim7": ["F#", "A", "C", "Eb"],
        "Amin": ["A", "C", "E"],
        "Am/M7": ["A", "C", "E", "G#"],
        "A/G": ["G", "A", "C#", "E"],
        "Dm|G": ["G", "B", "D", "F", "A"],
        "Bb7b9": ["Bb", "D", "F", "Ab", "Cb"],
        "E##M": ["E##", "G###", "B##"],
    }
    for s, want in concrete.items():
        count[0] += 1
        got = chords.from_shorthand(s)
        if got != want:
            fail("from_shorthand(%r) = %r, wanted %r" % (s, got, want))

    # alias spellings
    for k in keys:
        for spelled in alias_spellings(k):
            for root in ("C", "Eb", "F##"):
                count[0] += 1
                a = chords.from_shorthand(root + spelled)
                b = chords.from_shorthand(root + k)
                if a != b:
                    fail("alias %r != %r on %r: %r %r" % (spelled, k, root, a, b))

    # slash chords: bass note followed by the chord
    for k in keys:
        for root, bass in (("C", "G"), ("F#", "A#"), ("Bb", "Ebb"), ("D", "D")):
            count[0] += 1
            got = chords.from_shorthand("%s%s/%s" % (root, k, bass))
            if got != [bass] + chords.from_shorthand(root + k):
                fail("slash chord %r%s/%s = %r" % (root, k, bass, got))

    # polychords: Y's notes then X's notes, no immediate repeat
    partners = ["", "m", "7", "dim7", "M13", "sus4b9", "5", "6/9", "m/M7"]
    for k in keys:
        for p in partners:
            for rx, ry in (("C", "G"), ("Eb", "Bb"), ("F#", "F#"), ("A", "C##")):
                count[0] += 1
                x = chords.from_shorthand(rx + k)
                y = chords.from_shorthand(ry + p)
                want = list(y)
                for n in x:
                    if n != want[-1]:
                        want.append(n)
                got = chords.from_shorthand("%s%s|%s%s" % (rx, k, ry, p))
                if got != want:
                    fail("polychord %s%s|%s%s = %r, wanted %r" % (rx, k, ry, p, got, want))

    # NC and lists
    count[0] += 3
    if chords.from_shorthand("NC") != []:
        fail("NC is not the empty chord")
    names = ["Am7", "NC", "Dm|G", "C/E", "F#dim7"] + ["C" + k for k in keys]
    if chords.from_shorthand(names) != [chords.from_shorthand(n) for n in names]:
        fail("list input does not map element-wise")
    if chords.from_shorthand([]) != []:
        fail("empty list")

    # malformed input
    for bad in ["Cfoo", "Cm77", "C7 ", "C m", "Csus3", "CM7++", "Dxyz", "C{", "C%s", "C%r",
                "C\n", "Cm\n7", "Cé", "Cm7" + "x" * 5000, "C#" * 50, "Ebb7#", "C7#12"]:
        raises(FormatError, chords.from_shorthand, bad)
    for bad in ["H", "Hm7", "c", "cm7", "xC", " C", "#C", "bC", "1", "{", "%s", "\n", "ém7",
                "Z" * 5000, "hendrix", "dim7", "7"]:
        raises(NoteFormatError, chords.from_shorthand, bad)
    for bad in ["C/H", "Cm7/x", "C/c", "C7/G!", "Am/{"]:
        raises(NoteFormatError, chords.from_shorthand, bad)
    # refused calls repeated: still refused, and good input still fine afterwards
    for _ in range(3):
        raises(FormatError, chords.from_shorthand, "Cfoo")
        raises(NoteFormatError, chords.from_shorthand, "Hm7")
        if chords.from_shorthand("Cm7") != ["C", "Eb", "G", "Bb"]:
            fail("Cm7 after refused calls")

    # many distinct inputs in one process
    for n in range(0, 13):
        for acc in ("#", "b"):
            root = "G" + acc * n
            got = chords.from_shorthand(root + "m7")
            expected_ok(root, "m3 P5 m7", got, "from_shorthand(%r)" % (root + "m7"))


main()
if failures:
    print("C06 demo: %d FAILURES (of %d checks)" % (len(failures), count[0]))
    for f in failures[:20]:
        print("  " + f)
    sys.exit(1)
print("C06 demo: property holds (%d checks)" % count[0])
sys.exit(0)
