import mingus, os; assert os.path.realpath(mingus.__file__).startswith(os.path.realpath(os.path.dirname(__file__)))

import math
import signal
import sys

from mingus.core import meter, value

BASES = [0.25, 0.5, 1, 2, 4, 8, 16, 32, 64, 128]
failures = []
ncases = [0]


def check(cond, msg):
    ncases[0] += 1
    if not cond:
        failures.append(msg)


def close(a, b, rel=1e-9):
    return math.isclose(a, b, rel_tol=rel, abs_tol=0.0)


def on_timeout(signum, frame):
    print("FAIL: a call did not terminate within the time limit")
    sys.stdout.flush()
    os._exit(1)


signal.signal(signal.SIGALRM, on_timeout)
signal.alarm(60)

# ---- 1. determine inverts construction -------------------------------------
TUPLETS = [
    ("triplet", value.triplet, 3, 2),
    ("quintuplet", value.quintuplet, 5, 4),
    ("septuplet", value.septuplet, 7, 4),
]
PERTURB = [0.9905, 0.993, 0.997, 0.9995, 1.0, 1.0005, 1.003, 1.007, 1.0095]

for b in BASES:
    for variant in (b, float(b)):
        for n in range(0, 5):
            v = value.dots(variant, n)
            got = value.determine(v)
            check(
                isinstance(got, tuple) and got == (b, n, 1, 1),
                "determine(dots(%r, %d)=%r) = %r, expected %r" % (variant, n, v, got, (b, n, 1, 1)),
            )
        for (name, fn, r1, r2) in TUPLETS:
            v = fn(variant)
            got = value.determine(v)
            check(
                isinstance(got, tuple) and got == (b, 0, r1, r2),
                "determine(%s(%r)=%r) = %r, expected %r" % (name, variant, v, got, (b, 0, r1, r2)),
            )
            v2 = value.tuplet(variant, r1, r2)
            got = value.determine(v2)
            check(got == (b, 0, r1, r2), "determine(tuplet(%r,%d,%d)) = %r" % (variant, r1, r2, got))

    # within 1% of an undotted or single-dotted recognised value
    recognised = [
        (value.dots(b, 0), (b, 0, 1, 1)),
        (value.dots(b, 1), (b, 1, 1, 1)),
        (value.triplet(b), (b, 0, 3, 2)),
        (value.quintuplet(b), (b, 0, 5, 4)),
        (value.septuplet(b), (b, 0, 7, 4)),
    ]
    for (v, expected) in recognised:
        for f in PERTURB:
            got = value.determine(v * f)
            check(got == expected, "determine(%r * %r) = %r, expected %r" % (v, f, got, expected))

# ---- 2. add / subtract -------------------------------------------------------
pool = []
for b in BASES:
    pool.extend([b, value.dots(b), value.dots(b, 2), value.triplet(b), value.quintuplet(b), value.septuplet(b)])
pool.extend([3.7, 11.0, 100, 0.3])
pairs = [(pool[i], pool[(i * 7 + 3) % len(pool)]) for i in range(len(pool))]
pairs += [(pool[i], pool[(i * 11 + 5) % len(pool)]) for i in range(len(pool))]
for (a, b) in pairs:
    s = value.add(a, b)
    check(close(s, 1.0 / (1.0 / a + 1.0 / b)), "add(%r, %r) = %r is not the sum of the durations" % (a, b, s))
    check(close(1.0 / s, 1.0 / a + 1.0 / b), "1/add(%r, %r) wrong" % (a, b))
    check(close(value.subtract(s, b), a, 1e-7), "subtract(add(%r, %r), %r) = %r" % (a, b, b, value.subtract(s, b)))
    check(close(value.subtract(s, a), b, 1e-7), "subtract(add(%r, %r), %r) = %r" % (a, b, a, value.subtract(s, a)))
    if a != b:
        d = value.subtract(a, b)
        check(close(d, 1.0 / (1.0 / a - 1.0 / b), 1e-7), "subtract(%r, %r) = %r" % (a, b, d))
        check(close(value.add(d, b), a, 1e-7), "add(subtract(%r, %r), %r) = %r" % (a, b, b, value.add(d, b)))

# ---- 3. tuplet helpers equal the ratio formula --------------------------------
for v in pool + [1.0, 3, 5, 6.5, 12, 1000]:
    check(close(value.triplet(v), value.tuplet(v, 3, 2), 1e-12), "triplet(%r)" % (v,))
    check(close(value.triplet(v), 3 * v / 2.0, 1e-12), "triplet(%r) formula" % (v,))
    check(close(value.quintuplet(v), value.tuplet(v, 5, 4), 1e-12), "quintuplet(%r)" % (v,))
    check(close(value.quintuplet(v), 5 * v / 4.0, 1e-12), "quintuplet(%r) formula" % (v,))
    check(close(value.septuplet(v), value.tuplet(v, 7, 4), 1e-12), "septuplet(%r)" % (v,))
    check(close(value.septuplet(v, True), 7 * v / 4.0, 1e-12), "septuplet(%r, True) formula" % (v,))
    check(close(value.septuplet(v, False), value.tuplet(v, 7, 8), 1e-12), "septuplet(%r, False)" % (v,))
    check(close(value.tuplet(v, 9, 8), 9 * v / 8.0, 1e-12), "tuplet(%r, 9, 8)" % (v,))

# ---- 4. meters ----------------------------------------------------------------
POWERS = set(2 ** k for k in range(0, 1100))


def is_power(u):
    # u is one of 1, 2, 4, 8, ... (as a number; 4.0 == 4)
    if isinstance(u, float) and (math.isnan(u) or math.isinf(u)):
        return False
    return u in POWERS


units = list(range(-20, 300))
units += [512, 1024, 2048, 4096, 65536, 2 ** 20, 2 ** 20 + 1, 2 ** 20 - 1, 2 ** 31, 2 ** 40, 3 * 2 ** 20, 10 ** 6]
units += [0.0, -0.0, 0.5, 0.25, 0.125, 1.0, 1.5, 2.0, 2.5, 3.0, 4.0, 4.000001, 3.999999, 6.0, 8.0, 12.0, 16.0]
units += [-1.0, -2.0, -4.0, -0.5, 1e-9, 1e9, 1e300, 2.0 ** 30, 2.0 ** 100, 2.0 ** 100 * 3, 2.0 ** 1023, 1.7e308]
units += [float("inf"), float("-inf"), float("nan"), True, False]

for u in units:
    got = meter.valid_beat_duration(u)
    check(bool(got) == is_power(u), "valid_beat_duration(%r) = %r" % (u, got))

counts = list(range(-12, 40)) + [100, 99, 1000, 1001, 2 ** 20, 2 ** 20 + 1]
sel_units = [u for (i, u) in enumerate(units) if i % 9 == 0] + [1, 2, 4, 8, 16, 3, 6, 0, -4, 0.5, 2.0, 8.0, float("inf"), float("nan")]
for c in counts:
    for u in sel_units:
        for m in ((c, u), [c, u]):
            valid = c > 0 and is_power(u)
            check(bool(meter.is_valid(m)) == valid, "is_valid(%r)" % (m,))
            check(bool(meter.is_compound(m)) == (valid and c % 3 == 0 and c >= 6), "is_compound(%r)" % (m,))
            check(bool(meter.is_asymmetrical(m)) == (valid and c % 2 == 1), "is_asymmetrical(%r)" % (m,))
            meter.is_simple(m)  # must terminate

signal.alarm(0)
if failures:
    print("FAIL: %d of %d checks failed" % (len(failures), ncases[0]))
    for f in failures[:25]:
        print("  " + f)
    sys.exit(1)
print("OK: %d checks" % ncases[0])
sys.exit(0)
