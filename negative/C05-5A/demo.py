import mingus, os; assert os.path.realpath(mingus.__file__).startswith(os.path.realpath(os.path.dirname(__file__)))
"""Direct check of property C05 (scales realise their step pattern; recognition is exact)."""
import random
import sys

from mingus.core import scales, keys
from mingus.core.notes import note_to_int

LETTERS = "CDEFGAB"
NATURAL = {"C": 0, "D": 2, "E": 4, "F": 5, "G": 7, "A": 9, "B": 11}
checked = [0]


def fail(msg):
    print("C05 VIOLATED: " + msg)
    sys.exit(1)


def ensure(cond, msg):
    checked[0] += 1
    if not cond:
        fail(msg)


def steps(seq):
    return [(note_to_int(b) - note_to_int(a)) % 12 for a, b in zip(seq, seq[1:])]


def own_spelling(tonic, pattern):
    """Independent speller for heptatonic scales: consecutive letters, given semitone steps."""
    res = [tonic]
    pitch = note_to_int(tonic)
    li = LETTERS.index(tonic[0])
    for st in pattern[:-1]:
        pitch += st
        li += 1
        letter = LETTERS[li % 7]
        off = (pitch - NATURAL[letter] + 6) % 12 - 6
        res.append(letter + ("#" * off if off > 0 else "b" * -off))
    return res


PATTERNS = {
    "Ionian": [2, 2, 1, 2, 2, 2, 1],
    "Dorian": [2, 1, 2, 2, 2, 1, 2],
    "Phrygian": [1, 2, 2, 2, 1, 2, 2],
    "Lydian": [2, 2, 2, 1, 2, 2, 1],
    "Mixolydian": [2, 2, 1, 2, 2, 1, 2],
    "Aeolian": [2, 1, 2, 2, 1, 2, 2],
    "Locrian": [1, 2, 2, 1, 2, 2, 2],
    "Major": [2, 2, 1, 2, 2, 2, 1],
    "HarmonicMajor": [2, 2, 1, 2, 1, 3, 1],
    "NaturalMinor": [2, 1, 2, 2, 1, 2, 2],
    "HarmonicMinor": [2, 1, 2, 2, 1, 3, 1],
    "MelodicMinor": [2, 1, 2, 2, 2, 2, 1],
    "Bachian": [2, 1, 2, 2, 2, 2, 1],
    "MinorNeapolitan": [1, 2, 2, 2, 1, 3, 1],
    "Chromatic": [1] * 12,
    "WholeTone": [2] * 6,
    "Octatonic": [2, 1] * 4,
}
NOTE_TONICS = [l + a for l in LETTERS for a in ("", "#", "b", "##", "bb")]
MAJOR_TONICS = list(keys.major_keys)
MINOR_TONICS = [k[0].upper() + k[1:] for k in keys.minor_keys]
ALL_KEYS = [k for couple in keys.keys for k in couple]
ensure(len(keys.keys) == 15 and len(set(ALL_KEYS)) == 30, "there should be 15 key pairs")


def tonics_for(name):
    if name in ("Major", "HarmonicMajor"):
        return MAJOR_TONICS
    if name in ("NaturalMinor", "HarmonicMinor", "MelodicMinor", "Bachian", "MinorNeapolitan"):
        return MINOR_TONICS
    if name == "Chromatic":
        return ALL_KEYS
    return NOTE_TONICS


def check_scale(label, s, tonic, pattern, n, natural_minor=None):
    asc = s.ascending()
    desc = s.descending()
    ensure(isinstance(asc, list) and isinstance(desc, list), "%s: lists expected" % label)
    ensure(steps(asc) == pattern * n, "%s: ascending steps %r, expected %r x %d (%r)"
           % (label, steps(asc), pattern, n, asc))
    ensure(asc[0] == tonic and asc[-1] == tonic, "%s: ascending %r not from/to %r" % (label, asc, tonic))
    ensure(desc[0] == tonic and desc[-1] == tonic, "%s: descending %r not from/to %r" % (label, desc, tonic))
    if len(pattern) == 7:
        ensure(asc == (own_spelling(tonic, pattern) * n + [tonic]),
               "%s: ascending %r is not the consecutive-letter spelling" % (label, asc))
        for a, b in zip(asc, asc[1:]):
            ensure((LETTERS.index(a[0]) + 1) % 7 == LETTERS.index(b[0]),
                   "%s: letters not consecutive in %r" % (label, asc))
    kind = type(s).__name__
    if kind == "MelodicMinor":
        ensure(desc == natural_minor.descending(), "%s: descending %r is not natural minor" % (label, desc))
        ensure(desc == list(reversed(own_spelling(tonic, PATTERNS["NaturalMinor"]) * n + [tonic])),
               "%s: descending %r is not natural minor (spec)" % (label, desc))
    elif kind == "MinorNeapolitan":
        nm = natural_minor.descending()
        ensure(len(nm) == len(desc), "%s: descending length" % label)
        for i, (x, y) in enumerate(zip(nm, desc)):
            if (len(nm) - 1 - i) % 7 == 1:
                ensure(y[0] == x[0] and (note_to_int(x) - note_to_int(y)) % 12 == 1,
                       "%s: second degree not lowered in %r" % (label, desc))
            else:
                ensure(x == y, "%s: descending %r differs from natural minor %r" % (label, desc, nm))
    elif kind == "Chromatic":
        ensure(steps(desc) == [11] * (12 * n), "%s: descending %r is not chromatic" % (label, desc))
        ensure([note_to_int(x) for x in desc] == [note_to_int(x) for x in reversed(asc)],
               "%s: descending pitches are not the reverse of the ascending ones" % label)
    else:
        ensure(desc == list(reversed(asc)), "%s: descending %r is not the reverse of %r" % (label, desc, asc))
    # degrees, length, equality
    ensure(len(s) == len(asc) == len(pattern) * n + 1, "%s: len %d" % (label, len(s)))
    up = list(reversed(desc))
    for k in range(1, len(asc)):
        ensure(s.degree(k) == asc[k - 1], "%s: degree(%d) %r != %r" % (label, k, s.degree(k), asc[k - 1]))
        ensure(s.degree(k, "a") == asc[k - 1], "%s: degree(%d,'a')" % (label, k))
        ensure(s.degree(k, "d") == up[k - 1], "%s: degree(%d,'d') %r != %r" % (label, k, s.degree(k, "d"), up[k - 1]))
    ensure(s.degree(degree_number=2, direction="d") == up[1], "%s: degree by keyword" % label)
    # repeated calls give equal, independent lists
    again = s.ascending()
    ensure(again == asc and again is not asc, "%s: ascending() not repeatable" % label)
    asc.append("X")
    desc.insert(0, "Y")
    ensure(s.ascending() == again and s.descending() == desc[1:], "%s: result lists are shared" % label)


def build(name, tonic, n, how):
    cls = getattr(scales, name)
    if how == 0:
        return cls(tonic, n)
    if how == 1:
        return cls(tonic, octaves=n)
    if name == "Chromatic":
        return cls(key=tonic, octaves=n)
    return cls(note=tonic, octaves=n)


def scale_checks():
    for name in sorted(PATTERNS):
        pattern = PATTERNS[name]
        for ti, tonic in enumerate(tonics_for(name)):
            for n in (1, 2, 3, 5):
                if n == 5 and ti % 4:
                    continue
                s = build(name, tonic, n, (ti + n) % 3)
                shown = keys.get_notes(tonic)[0] if name == "Chromatic" else tonic
                nm = scales.NaturalMinor(tonic, n) if name in ("MelodicMinor", "MinorNeapolitan") else None
                check_scale("%s(%r, %d)" % (name, tonic, n), s, shown, pattern, n, nm)
                ensure(s.tonic == shown, "%s(%r).tonic" % (name, tonic))
                t = build(name, tonic, n, 0)
                ensure(s == t and not (s != t), "%s(%r,%d): equal scales compare unequal" % (name, tonic, n))
                other = build(name, tonic, n + 1, 0)
                ensure(s != other and not (s == other), "%s(%r): different octave counts compare equal" % (name, tonic))
    # Diatonic: pattern fixed by the two semitone positions
    for tonic in NOTE_TONICS[::2]:
        for semis in [(3, 7), (2, 6), (1, 5), (4, 7), (3, 6), (2, 5), (1, 4)]:
            pattern = [1 if i in semis else 2 for i in range(1, 8)]
            for n in (1, 2, 4):
                s = scales.Diatonic(tonic, semis, n) if n != 2 else scales.Diatonic(note=tonic, semitones=semis, octaves=n)
                check_scale("Diatonic(%r,%r,%d)" % (tonic, semis, n), s, tonic, pattern, n)
    # equality follows the note lists across classes
    for t in MAJOR_TONICS:
        ensure(scales.Major(t) == scales.Ionian(t), "Major(%r) != Ionian(%r)" % (t, t))
        ensure(scales.Major(t, 2) == scales.Diatonic(t, (3, 7), 2), "Major/Diatonic %r" % t)
        ensure(scales.Major(t) != scales.HarmonicMajor(t), "Major(%r) == HarmonicMajor" % t)
        ensure(scales.Major(t) != scales.Lydian(t), "Major(%r) == Lydian" % t)
    for t in MINOR_TONICS:
        ensure(scales.NaturalMinor(t) == scales.Aeolian(t), "NaturalMinor(%r) != Aeolian" % t)
        ensure(scales.MelodicMinor(t) != scales.Bachian(t), "MelodicMinor(%r) == Bachian (descending differs)" % t)
        ensure(scales.MelodicMinor(t) != scales.NaturalMinor(t), "MelodicMinor(%r) == NaturalMinor" % t)
        ensure(scales.Bachian(t, 3).ascending() == scales.MelodicMinor(t, 3).ascending(), "Bachian asc %r" % t)
    # a long one, and an object whose attributes are changed afterwards
    big = scales.Dorian("D", 2000)
    ensure(len(big) == 14001 and steps(big.ascending()) == PATTERNS["Dorian"] * 2000, "Dorian x2000")
    ensure(big.degree(13999) == big.ascending()[13998] and big.degree(9, "d") == "E", "Dorian x2000 degree")
    s = scales.HarmonicMinor("A")
    first = s.ascending()
    s.octaves = 2
    ensure(s.ascending() == first[:-1] * 2 + ["A"] and len(s) == 15, "octaves changed on a live object")
    s.tonic = "E"
    ensure(s.ascending() == scales.HarmonicMinor("E", 2).ascending(), "tonic changed on a live object")
    ensure(s == scales.HarmonicMinor("E", 2), "equality after change")


# recognition -----------------------------------------------------------------
def reference_table():
    table = []
    for major, minor in keys.keys:
        mt = minor[0].upper() + minor[1:]
        for cname, label, tonic in [
            ("Major", "major", major), ("HarmonicMajor", "harmonic major", major),
            ("NaturalMinor", "natural minor", mt), ("HarmonicMinor", "harmonic minor", mt),
            ("MelodicMinor", "melodic minor", mt), ("Bachian", "Bachian", mt),
            ("MinorNeapolitan", "minor Neapolitan", mt),
        ]:
            asc = own_spelling(tonic, PATTERNS[cname])
            if cname == "MelodicMinor":
                desc = own_spelling(tonic, PATTERNS["NaturalMinor"])
            elif cname == "MinorNeapolitan":
                desc = own_spelling(tonic, [1, 2, 2, 2, 1, 2, 2])
            else:
                desc = asc
            table.append(("%s %s" % (tonic, label), frozenset(asc), frozenset(desc)))
    return table


def recognition_checks():
    table = reference_table()
    ensure(len(table) == 105 and len(set(t[0] for t in table)) == 105, "reference table")

    def expected(notes):
        ns = set(notes)
        return sorted(name for name, a, d in table if ns <= a or ns <= d)

    rnd = random.Random(505)
    pool = ["C", "C#", "Db", "D", "D#", "Eb", "E", "E#", "Fb", "F", "F#", "Gb", "G", "G#", "Ab",
            "A", "A#", "Bb", "B", "B#", "Cb", "F##", "C##", "G##", "Bbb", "Ebb"]
    cases = [[], ["C"], ["A", "Bb", "E", "F#", "G"], ["C", "E", "G"], ("C", "C", "D"),
             ["Q"], ["C", "Q"], ["c"], ["C", "D", "E", "F", "G", "A", "B", "C#"]]
    for name, a, d in table:
        for src in (sorted(a), sorted(d)):
            cases.append(list(src))
            cases.append(rnd.sample(src, rnd.randint(1, 6)))
            cases.append(tuple(rnd.sample(src, 6)) + (src[0],))
    for _ in range(250):
        cases.append(rnd.sample(pool, rnd.randint(1, 7)))
    for c in cases:
        got = scales.determine(c)
        ensure(isinstance(got, list), "determine(%r) is not a list" % (c,))
        ensure(sorted(got) == expected(c), "determine(%r) = %r, expected %r" % (c, sorted(got), expected(c)))
    # other iterables, keyword form, repeated calls
    ensure(sorted(scales.determine(iter(["A", "Bb", "E", "F#", "G"]))) == expected(["A", "Bb", "E", "F#", "G"]), "iterator")
    ensure(sorted(scales.determine(notes={"B", "E#"})) == expected(["B", "E#"]), "keyword/set")
    r1 = scales.determine(["F#", "C#"])
    r1.append("junk")
    ensure(sorted(scales.determine(["F#", "C#"])) == expected(["F#", "C#"]), "result list shared between calls")
    # recognition agrees with the scale objects themselves
    for major, minor in keys.keys:
        mt = keys.get_notes(minor)[0]
        for cls, t in [(scales.Major, major), (scales.HarmonicMajor, major), (scales.NaturalMinor, mt),
                       (scales.HarmonicMinor, mt), (scales.MelodicMinor, mt), (scales.Bachian, mt),
                       (scales.MinorNeapolitan, mt)]:
            s = cls(t)
            ensure(s.name in scales.determine(s.ascending()), "%s not recognised from its ascending notes" % s.name)
            ensure(s.name in scales.determine(s.descending()), "%s not recognised from its descending notes" % s.name)
            ensure(s.name in scales.determine(cls(t, 3).ascending()), "%s not recognised (3 octaves)" % s.name)


try:
    scale_checks()
    recognition_checks()
except SystemExit:
    raise
except BaseException as e:  # noqa
    import traceback

    traceback.print_exc()
    fail("unexpected %s: %s" % (type(e).__name__, e))
print("C05 holds (%d checks)" % checked[0])
sys.exit(0)
