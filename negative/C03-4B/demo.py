import mingus, os; assert os.path.realpath(mingus.__file__).startswith(os.path.realpath(os.path.dirname(__file__)))
"""Direct check of property C03 (interval naming <-> interval shorthand).

Exit 0 when the statement holds on every case tried, 1 with a message otherwise.
"""
import sys

from mingus.core import intervals

LETTERS = "CDEFGAB"
NATURAL = {"C": 0, "D": 2, "E": 4, "F": 5, "G": 7, "A": 9, "B": 11}
MAJOR = [0, 2, 4, 5, 7, 9, 11]
NUMBER = ["unison", "second", "third", "fourth", "fifth", "sixth", "seventh"]
ACCS = ["", "#", "##", "b", "bb"]

NAMES = [l + a for l in LETTERS for a in ACCS]
SHORTHANDS = [a + str(d) for d in range(1, 8) for a in ACCS]

failures = []
checked = [0]


def fail(msg):
    failures.append(msg)
    if len(failures) >= 20:
        report()


def report():
    for f in failures:
        print("FAIL: " + f)
    print("%d case(s) failed out of %d" % (len(failures), checked[0]))
    sys.exit(1)


def acc_value(name):
    return name[1:].count("#") - name[1:].count("b")


def spell(letter, acc):
    return letter + ("#" * acc if acc >= 0 else "b" * -acc)


def check_naming():
    for n1 in NAMES:
        for n2 in NAMES:
            i1, i2 = LETTERS.index(n1[0]), LETTERS.index(n2[0])
            degree = (i2 - i1) % 7
            span = (NATURAL[n2[0]] - NATURAL[n1[0]]) % 12
            dist = span + acc_value(n2) - acc_value(n1)
            if not 0 <= dist <= 11:
                continue  # outside the quantifier
            off = dist - MAJOR[degree]
            if off == 0:
                qualities = ("major", "perfect")
            elif off == -1:
                qualities = ("minor",)
            elif off < -1:
                qualities = ("diminished",)
            else:
                qualities = ("augmented",)
            checked[0] += 1
            # alternate between positional and keyword call forms
            if (i1 + i2) % 2:
                long_name = intervals.determine(n1, n2)
                short = intervals.determine(n1, n2, True)
            else:
                long_name = intervals.determine(note1=n1, note2=n2, shorthand=False)
                short = intervals.determine(note1=n1, note2=n2, shorthand=True)
            if not isinstance(long_name, str) or long_name.split(" ") not in [
                [q, NUMBER[degree]] for q in qualities
            ]:
                fail(
                    "determine(%r, %r) = %r, expected %s %s"
                    % (n1, n2, long_name, "/".join(qualities), NUMBER[degree])
                )
            if not isinstance(short, str):
                fail("determine(%r, %r, True) = %r is not a string" % (n1, n2, short))
                continue
            back = intervals.from_shorthand(n1, short)
            if back != n2:
                fail(
                    "from_shorthand(%r, %r) = %r, expected %r (shorthand came from determine)"
                    % (n1, short, back, n2)
                )
            # the shorthand itself: accidentals give the offset, the digit the number
            body = short[:-1]
            if (
                short[-1:] != str(degree + 1)
                or body.strip("#b") != ""
                or body.count("#") - body.count("b") != off
                or (body.count("#") and body.count("b"))
            ):
                fail(
                    "determine(%r, %r, True) = %r does not say offset %d on a %s"
                    % (n1, n2, short, off, NUMBER[degree])
                )


def check_shorthands():
    for n1 in NAMES:
        i1 = LETTERS.index(n1[0])
        a1 = acc_value(n1)
        for k, sh in enumerate(SHORTHANDS):
            steps = int(sh[-1]) - 1
            semis = MAJOR[steps] + sh.count("#") - sh.count("b")
            # upward
            up_letter = LETTERS[(i1 + steps) % 7]
            up_span = (NATURAL[up_letter] - NATURAL[n1[0]]) % 12
            want_up = spell(up_letter, a1 + semis - up_span)
            # downward
            dn_letter = LETTERS[(i1 - steps) % 7]
            dn_span = (NATURAL[n1[0]] - NATURAL[dn_letter]) % 12
            want_dn = spell(dn_letter, a1 - semis + dn_span)
            checked[0] += 1
            if k % 3 == 0:
                got_up = intervals.from_shorthand(note=n1, interval=sh, up=True)
                got_dn = intervals.from_shorthand(note=n1, interval=sh, up=False)
                got_default = intervals.from_shorthand(note=n1, interval=sh)
            else:
                got_up = intervals.from_shorthand(n1, sh, True)
                got_dn = intervals.from_shorthand(n1, sh, False)
                got_default = intervals.from_shorthand(n1, sh)
            if got_up != want_up or not isinstance(got_up, str):
                fail("from_shorthand(%r, %r) = %r, expected %r" % (n1, sh, got_up, want_up))
                continue
            if got_default != want_up:
                fail(
                    "from_shorthand(%r, %r) with default direction = %r, expected %r"
                    % (n1, sh, got_default, want_up)
                )
            if got_dn != want_dn or not isinstance(got_dn, str):
                fail(
                    "from_shorthand(%r, %r, False) = %r, expected %r"
                    % (n1, sh, got_dn, want_dn)
                )
                continue
            back = intervals.from_shorthand(got_up, sh, False)
            if back != n1:
                fail(
                    "up then down: %r --%s--> %r --%s down--> %r" % (n1, sh, got_up, sh, back)
                )


def check_invert():
    samples = [
        [],
        ["C"],
        ["C", "E"],
        ["E", "C"],
        ["C", "C"],
        ["C", "E", "G"],
        ["Cb", "E##", "G", "Bbb", "D#"],
        NAMES,
        NAMES * 40,
        [n for n in NAMES for _ in range(2)],
    ]
    nested = ["C", ["E", "G"]]
    samples.append(nested)
    selfref = ["C", "E"]
    selfref.append(selfref)
    for k, sample in enumerate(samples + [selfref]):
        arg = list(sample)
        before = list(arg)
        checked[0] += 1
        res = intervals.invert(arg) if k % 2 else intervals.invert(interval=arg)
        want = before[::-1]
        same = (
            type(res) is list
            and len(res) == len(want)
            and all(a is b for a, b in zip(res, want))
        )
        if not same:
            fail("invert(<list of %d>) is not the reversed list" % len(before))
        if len(arg) != len(before) or any(a is not b for a, b in zip(arg, before)):
            fail("invert(<list of %d>) changed its argument" % len(before))
        # doing it twice gives the original order again
        again = intervals.invert(res)
        if len(again) != len(before) or any(a is not b for a, b in zip(again, before)):
            fail("invert(invert(x)) != x for a list of %d" % len(before))


def main():
    # run the whole thing twice: a second pass over the same inputs in the same
    # process has to give the same answers
    for _ in range(2):
        check_naming()
        check_shorthands()
        check_invert()
    if failures:
        report()
    print("C03 holds on %d cases" % checked[0])
    sys.exit(0)


main()
