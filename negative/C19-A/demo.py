import mingus, os; assert os.path.realpath(mingus.__file__).startswith(os.path.realpath(os.path.dirname(__file__)))
"""Direct check of property C19 (notation exports decode back to the same music).

Independent readers for the LilyPond subset and for the MusicXML output are
implemented here; nothing from mingus.extra is used for decoding.
Exit status 0 when the property holds on all generated cases, 1 otherwise.
"""
import random
import re
import sys
import xml.etree.ElementTree as ET
from fractions import Fraction

import mingus.core.value as value
import mingus.extra.lilypond as lilypond
import mingus.extra.musicxml as musicxml
from mingus.containers import Bar, Composition, Note, NoteContainer, Track
from mingus.containers.instrument import Instrument, MidiInstrument, Piano, Guitar

FAILURES = []
CASES = [0]


def check(cond, msg):
    CASES[0] += 1
    if not cond:
        FAILURES.append(msg)
        if len(FAILURES) > 15:
            finish()


def finish():
    if FAILURES:
        print("PROPERTY C19 VIOLATED (%d failures)" % len(FAILURES))
        for f in FAILURES[:15]:
            print(" -", f)
        sys.exit(1)
    print("C19 holds on %d checks" % CASES[0])
    sys.exit(0)


# ---------------------------------------------------------------------------
# vocabulary
LETTERS = "CDEFGAB"
ACCS = ["", "#", "b", "##", "bb"]
NAMES = [l + a for l in LETTERS for a in ACCS]
OCTAVES = list(range(0, 9))
MAJOR = ["Cb", "Gb", "Db", "Ab", "Eb", "Bb", "F", "C", "G", "D", "A", "E", "B", "F#", "C#"]
MINOR = ["ab", "eb", "bb", "f", "c", "g", "d", "a", "e", "b", "f#", "c#", "g#", "d#", "a#"]
FIFTHS = {}
for i, k in enumerate(MAJOR):
    FIFTHS[k] = i - 7
for i, k in enumerate(MINOR):
    FIFTHS[k] = i - 7
KEYS = MAJOR + MINOR
METERS = [(4, 4), (3, 4), (6, 8), (2, 2), (5, 4), (7, 8), (12, 8), (2, 4), (9, 8), (3, 2), (64, 4), (8, 1), (16, 2)]
BASES = [0.25, 0.5, 1, 2, 4, 8, 16, 32, 64, 128]

# (value as handed to the library, base, dots, (actual, normal))
VOCAB = []
for b in BASES:
    VOCAB.append((b, b, 0, (1, 1)))
    if b >= 1:
        VOCAB.append((float(b), b, 0, (1, 1)))
    for d in range(1, 5):
        VOCAB.append((value.dots(b, d), b, d, (1, 1)))
    VOCAB.append((value.triplet(b), b, 0, (3, 2)))
    VOCAB.append((value.quintuplet(b), b, 0, (5, 4)))
    VOCAB.append((value.septuplet(b), b, 0, (7, 4)))
    VOCAB.append((value.tuplet(b, 3, 2), b, 0, (3, 2)))


def quarter_length(base, dots, ratio):
    q = Fraction(4) / Fraction(base)
    q = q * (2 - Fraction(1, 2 ** dots))
    return q * Fraction(ratio[1], ratio[0])


def pitch_of(note):
    """(letter, alteration, octave) read straight off the Note object."""
    alt = note.name[1:].count("#") - note.name[1:].count("b")
    return (note.name[0].upper(), alt, note.octave)


def key_of(k):
    """(tonic letter, alteration, mode) of a mingus key string."""
    mode = "minor" if k[0].islower() else "major"
    alt = k[1:].count("#") - k[1:].count("b")
    return (k[0].upper(), alt, mode)


# ---------------------------------------------------------------------------
# independent LilyPond subset reader
NOTE_RE = re.compile(r"^([a-g])((?:is|es)*)([',]*)(\d+|\\longa|\\breve)?(\.*)$")
REST_RE = re.compile(r"^r(\d+|\\longa|\\breve)?(\.*)$")
DUR_RE = re.compile(r"^(\d+|\\longa|\\breve)?(\.*)$")
HEADER_RE = re.compile(
    r'^\s*\\header\s*\{\s*title\s*=\s*"(.*?)"\s*composer\s*=\s*"(.*?)"\s*opus\s*=\s*"(.*?)"\s*\}(.*)$',
    re.S,
)


def ly_tokens(text):
    for ch in "{}<>":
        text = text.replace(ch, " %s " % ch)
    return text.split()


def ly_pitch(tok):
    m = NOTE_RE.match(tok)
    if not m:
        raise ValueError("bad pitch token %r" % tok)
    acc = m.group(2)
    alt = acc.count("is") - acc.count("es")
    marks = m.group(3)
    octave = 3 + marks.count("'") - marks.count(",")
    return (m.group(1).upper(), alt, octave), m.group(4), m.group(5)


def ly_dur(base, dots):
    if base is None:
        return None
    if base == "\\longa":
        b = Fraction(1, 4)
    elif base == "\\breve":
        b = Fraction(1, 2)
    else:
        b = Fraction(int(base))
    return (b, len(dots))


class LyReader(object):
    def __init__(self, text):
        self.toks = ly_tokens(text)
        self.pos = 0

    def peek(self):
        return self.toks[self.pos] if self.pos < len(self.toks) else None

    def next(self):
        t = self.peek()
        if t is None:
            raise ValueError("unexpected end of LilyPond text")
        self.pos += 1
        return t

    def expect(self, t):
        got = self.next()
        if got != t:
            raise ValueError("expected %r got %r" % (t, got))

    def done(self):
        return self.pos >= len(self.toks)

    def entries(self, ratio, out):
        """Read music entries until the closing brace (not consumed)."""
        while self.peek() != "}":
            t = self.next()
            if t == "\\time":
                n, d = self.next().split("/")
                out.append(("time", (int(n), int(d))))
            elif t == "\\key":
                p, base, dots = ly_pitch(self.next())
                if base is not None or dots:
                    raise ValueError("duration on key tonic")
                mode = self.next()
                if mode not in ("\\major", "\\minor"):
                    raise ValueError("bad mode %r" % mode)
                out.append(("key", (p[0], p[1], mode[1:])))
            elif t == "\\times":
                n, d = self.next().split("/")
                inner = (ratio[0] * int(d), ratio[1] * int(n))
                self.expect("{")
                self.entries(inner, out)
                self.expect("}")
            elif t == "<":
                ps = []
                while self.peek() != ">":
                    p, base, dots = ly_pitch(self.next())
                    if base is not None or dots:
                        raise ValueError("duration inside chord")
                    ps.append(p)
                self.expect(">")
                dur = None
                nt = self.peek()
                if nt is not None and nt not in "{}<>" and DUR_RE.match(nt) and nt != "":
                    m = DUR_RE.match(self.next())
                    dur = ly_dur(m.group(1), m.group(2))
                out.append(("entry", ps, dur, ratio))
            elif REST_RE.match(t):
                m = REST_RE.match(t)
                out.append(("entry", [], ly_dur(m.group(1), m.group(2)), ratio))
            else:
                p, base, dots = ly_pitch(t)
                out.append(("entry", [p], ly_dur(base, dots), ratio))
        return out

    def block(self):
        self.expect("{")
        out = self.entries((1, 1), [])
        self.expect("}")
        return out

    def track(self):
        self.expect("{")
        bars = []
        while self.peek() != "}":
            bars.append(self.block())
        self.expect("}")
        return bars


def norm_ratio(r):
    f = Fraction(r[0], r[1])
    return (f.numerator, f.denominator)


def expected_entries(bar, spec):
    """spec: list of (base, dots, ratio) parallel to bar.bar."""
    res = []
    for entry, (base, dots, ratio) in zip(bar.bar, spec):
        nc = entry[2]
        ps = [pitch_of(n) for n in nc.notes] if nc is not None else []
        res.append((ps, (Fraction(base), dots), norm_ratio(ratio)))
    return res


def compare_bar_events(events, bar, spec, label, state=None, must_show=(False, False)):
    """Check decoded events of one bar against the bar; `state` is the running
    [key, meter] of the enclosing track (None for a standalone bar)."""
    got = []
    shown_key = shown_time = None
    for ev in events:
        if ev[0] == "key":
            check(not got, label + ": key after notes")
            shown_key = ev[1]
        elif ev[0] == "time":
            check(not got, label + ": time after notes")
            shown_time = ev[1]
        else:
            got.append((ev[1], ev[2], norm_ratio(ev[3])))
    if must_show[0]:
        check(shown_key is not None, label + ": key not shown")
    if must_show[1]:
        check(shown_time is not None, label + ": time not shown")
    if shown_key is not None:
        check(shown_key == key_of(bar.key.key), label + ": key %r != %r" % (shown_key, key_of(bar.key.key)))
    if shown_time is not None:
        check(shown_time == tuple(bar.meter), label + ": time %r != %r" % (shown_time, bar.meter))
    if state is not None:
        if shown_key is not None:
            state[0] = shown_key
        if shown_time is not None:
            state[1] = shown_time
        check(state[0] == key_of(bar.key.key), label + ": running key %r != %r" % (state[0], bar.key.key))
        check(state[1] == tuple(bar.meter), label + ": running meter %r != %r" % (state[1], bar.meter))
    exp = expected_entries(bar, spec)
    check(got == exp, label + ": entries differ\n     got %r\n     exp %r" % (got, exp))


# ---------------------------------------------------------------------------
# independent MusicXML reader
def xml_check_composition(comp, specs, label):
    text = musicxml.from_Composition(comp)
    try:
        root = ET.fromstring(text)
    except ET.ParseError as e:
        check(False, label + ": XML not well-formed: %s" % e)
        return
    check(root.tag == "score-partwise", label + ": root is %r" % root.tag)
    parts = root.findall("part")
    sparts = root.findall("part-list/score-part")
    ids = [p.get("id") for p in parts]
    check(len(parts) == len(comp.tracks), label + ": %d parts for %d tracks" % (len(parts), len(comp.tracks)))
    check(len(set(ids)) == len(ids) and None not in ids, label + ": part ids not unique %r" % ids)
    check([s.get("id") for s in sparts] == ids, label + ": part-list does not match parts")
    if comp.title:
        check(root.findtext("movement-title") == comp.title, label + ": title %r" % root.findtext("movement-title"))
    if comp.author:
        creators = [c.text for c in root.iter("creator")]
        check(comp.author in creators, label + ": author %r not in %r" % (comp.author, creators))
    for track, part, spart, tspec in zip(comp.tracks, parts, sparts, specs):
        check((spart.findtext("part-name") or "") == track.name, label + ": part-name %r" % spart.findtext("part-name"))
        if track.instrument:
            names = [e.text or "" for e in spart.iter("instrument-name")]
            check(names == [track.instrument.name], label + ": instrument-name %r" % names)
        measures = part.findall("measure")
        check(len(measures) == len(track.bars), label + ": measure count")
        check([m.get("number") for m in measures] == [str(i + 1) for i in range(len(track.bars))],
              label + ": measure numbers %r" % [m.get("number") for m in measures])
        for bi, (bar, meas, spec) in enumerate(zip(track.bars, measures, tspec)):
            bl = "%s bar %d" % (label, bi)
            attrs = meas.find("attributes")
            check(attrs is not None, bl + ": no attributes")
            if attrs is None:
                continue
            beats = attrs.findtext("time/beats")
            btype = attrs.findtext("time/beat-type")
            check(beats is not None and btype is not None and (int(beats), int(btype)) == tuple(bar.meter),
                  bl + ": meter %r/%r" % (beats, btype))
            fifths = attrs.findtext("key/fifths")
            mode = attrs.findtext("key/mode")
            check(fifths is not None and int(fifths) == FIFTHS[bar.key.key], bl + ": fifths %r for %s" % (fifths, bar.key.key))
            check(mode == key_of(bar.key.key)[2], bl + ": mode %r" % mode)
            divisions = Fraction(attrs.findtext("divisions"))
            check(divisions > 0, bl + ": divisions")
            exp = []
            for entry, (base, dots, ratio) in zip(bar.bar, spec):
                nc = entry[2]
                ql = quarter_length(base, dots, ratio)
                if nc is None or len(nc.notes) == 0:
                    exp.append((None, False, dots, ql))
                else:
                    for j, n in enumerate(nc.notes):
                        exp.append((pitch_of(n), j > 0, dots, ql))
            got = []
            for ne in meas.findall("note"):
                if ne.find("rest") is not None:
                    p = None
                    check(ne.find("pitch") is None, bl + ": rest with pitch")
                else:
                    alter = ne.findtext("pitch/alter")
                    p = (ne.findtext("pitch/step"), int(alter) if alter is not None else 0, int(ne.findtext("pitch/octave")))
                got.append((p, ne.find("chord") is not None, len(ne.findall("dot")),
                            Fraction(ne.findtext("duration")) / divisions))
            check(got == exp, bl + ": notes differ\n     got %r\n     exp %r" % (got, exp))


# ---------------------------------------------------------------------------
# generators
def rand_note(rnd):
    return Note(rnd.choice(NAMES), rnd.choice(OCTAVES))


def rand_container(rnd):
    r = rnd.random()
    if r < 0.12:
        return None
    if r < 0.17:
        return NoteContainer()
    n = rnd.choice([1, 1, 1, 2, 3, 4, 5])
    return NoteContainer([rand_note(rnd) for _ in range(n)])


def rand_bar(rnd, key=None, meter=None, vocab=None, maxlen=7):
    key = key or rnd.choice(KEYS)
    meter = meter or rnd.choice(METERS)
    bar = Bar(key, meter)
    spec = []
    if rnd.random() < 0.1:
        return bar, spec  # empty bar
    for _ in range(rnd.randint(1, maxlen)):
        v, base, dots, ratio = rnd.choice(vocab or VOCAB)
        if bar.place_notes(rand_container(rnd), v):
            spec.append((base, dots, ratio))
    return bar, spec


def rand_track(rnd, nbars=None, instrument=None):
    t = Track(instrument)
    specs = []
    key, meter = rnd.choice(KEYS), rnd.choice(METERS)
    for _ in range(nbars if nbars is not None else rnd.randint(0, 5)):
        if rnd.random() < 0.4:
            key = rnd.choice(KEYS)
        if rnd.random() < 0.4:
            meter = rnd.choice(METERS)
        bar, spec = rand_bar(rnd, key, meter)
        t.add_bar(bar)
        specs.append(spec)
    return t, specs


def check_ly_track_events(bars_events, track, specs, label):
    check(len(bars_events) == len(track.bars), label + ": %d bar blocks for %d bars" % (len(bars_events), len(track.bars)))
    state = [("C", 0, "major"), (4, 4)]
    prev = None
    for i, (ev, bar, spec) in enumerate(zip(bars_events, track.bars, specs)):
        must = (False, False)
        if prev is not None:
            must = (prev.key.key != bar.key.key, tuple(prev.meter) != tuple(bar.meter))
        compare_bar_events(ev, bar, spec, "%s bar %d" % (label, i), state, must)
        prev = bar


def guarded(label, fn):
    try:
        fn()
    except SystemExit:
        raise
    except Exception as e:  # decoding failure counts as a violation
        check(False, "%s: %s: %s" % (label, type(e).__name__, e))


def main():
    rnd = random.Random(19)

    # --- single notes, systematically: all names x all octaves
    for name in NAMES:
        for octv in OCTAVES:
            n = Note(name, octv)

            def f(n=n):
                r = LyReader(lilypond.from_Note(n))
                ev = r.block()
                check(r.done(), "note %r: trailing text" % n)
                check(ev == [("entry", [pitch_of(n)], None, (1, 1))], "ly from_Note(%s-%d) -> %r" % (n.name, n.octave, ev))
                p, b, d = ly_pitch(lilypond.from_Note(n, standalone=False))
                check(p == pitch_of(n) and b is None and d == "", "ly from_Note standalone=False %r" % n)

            guarded("note %s-%d" % (name, octv), f)

    # --- note containers with every vocabulary value
    for (v, base, dots, ratio) in VOCAB:
        for _ in range(2):
            nc = rand_container(rnd)

            def f(nc=nc, v=v, base=base, dots=dots):
                r = LyReader(lilypond.from_NoteContainer(nc, v))
                ev = r.block()
                check(r.done(), "nc: trailing text")
                ps = [pitch_of(n) for n in nc.notes] if nc is not None else []
                check(len(ev) == 1 and ev[0][1] == ps and ev[0][2] == (Fraction(base), dots),
                      "ly from_NoteContainer(%r, %r) -> %r" % (nc, v, ev))

            guarded("nc %r" % (v,), f)
    for _ in range(40):
        nc = rand_container(rnd)

        def f(nc=nc):
            ev = LyReader(lilypond.from_NoteContainer(nc)).block()
            ps = [pitch_of(n) for n in nc.notes] if nc is not None else []
            check(len(ev) == 1 and ev[0][1] == ps and ev[0][2] is None, "ly from_NoteContainer no duration %r -> %r" % (nc, ev))

        guarded("nc nodur", f)

    # --- bars: every key, every meter, every value, plus random ones
    bars = []
    for k in KEYS:
        bars.append(rand_bar(rnd, key=k))
    for m in METERS:
        bars.append(rand_bar(rnd, meter=m))
    for item in VOCAB:
        big = Bar(rnd.choice(KEYS), (64, 4))
        spec = []
        for it in (item, rnd.choice(VOCAB), item, item, rnd.choice(VOCAB)):
            if big.place_notes(rand_container(rnd), it[0]):
                spec.append(it[1:])
        bars.append((big, spec))
    for _ in range(120):
        bars.append(rand_bar(rnd))
    # tuplets only / mixing plain after tuplets
    tup = [x for x in VOCAB if x[3] != (1, 1)]
    for _ in range(30):
        bars.append(rand_bar(rnd, meter=(64, 4), vocab=tup, maxlen=9))
    for bar, spec in bars:
        for showkey in (True, False):
            for showtime in (True, False):

                def f(bar=bar, spec=spec, showkey=showkey, showtime=showtime):
                    r = LyReader(lilypond.from_Bar(bar, showkey, showtime))
                    ev = r.block()
                    check(r.done(), "bar: trailing text")
                    compare_bar_events(ev, bar, spec, "ly from_Bar(%r,%s,%s)" % (bar, showkey, showtime),
                                       None, (showkey, showtime))

                guarded("bar", f)

    # --- tracks
    tracks = [rand_track(rnd) for _ in range(60)]
    tracks.append(rand_track(rnd, 0))
    for ti, (t, specs) in enumerate(tracks):

        def f(t=t, specs=specs, ti=ti):
            r = LyReader(lilypond.from_Track(t))
            ev = r.track()
            check(r.done(), "track: trailing text")
            check_ly_track_events(ev, t, specs, "ly track %d" % ti)

        guarded("track %d" % ti, f)

    # --- compositions (LilyPond + MusicXML)
    texts = ["Untitled", "", "Suite & Fugue", "a < b > c", "Tom's 'tune'", "x &amp; y", "<b>bold</b>", "Opus 5; n° 3 ♯",
             "100% [done] {ok}", "a&&b<<c>>d"]
    xml_only_texts = ['say "hi"', 'quote " & <tag attr="1">']
    instruments = [None, Instrument(), Piano(), Guitar(), MidiInstrument()]
    for ci in range(45):
        comp = Composition()
        title = rnd.choice(texts)
        subtitle = rnd.choice(texts)
        author = rnd.choice(texts)
        comp.set_title(title, subtitle)
        comp.set_author(author, "me@example.org")
        specs = []
        for _ in range(rnd.randint(0, 4)):
            ins = rnd.choice(instruments)
            if ins is not None:
                ins = type(ins)()
                ins.name = rnd.choice([ins.name, "Kazoo & <Comb>", "Bass 'n' Drum"])
            t, s = rand_track(rnd, instrument=ins)
            t.name = rnd.choice(texts[2:] + ["Untitled", "Violin I"])
            comp.add_track(t)
            specs.append(s)

        def f(comp=comp, specs=specs, ci=ci):
            text = lilypond.from_Composition(comp)
            m = HEADER_RE.match(text)
            check(m is not None, "ly comp %d: no header in %r" % (ci, text[:80]))
            if m is None:
                return
            check((m.group(1), m.group(2), m.group(3)) == (comp.title, comp.author, comp.subtitle),
                  "ly comp %d: header %r" % (ci, m.groups()[:3]))
            r = LyReader(m.group(4))
            k = 0
            while not r.done():
                ev = r.track()
                check(k < len(comp.tracks), "ly comp %d: too many tracks" % ci)
                if k < len(comp.tracks):
                    check_ly_track_events(ev, comp.tracks[k], specs[k], "ly comp %d track %d" % (ci, k))
                k += 1
            check(k == len(comp.tracks), "ly comp %d: %d track blocks for %d tracks" % (ci, k, len(comp.tracks)))

        guarded("ly comp %d" % ci, f)
        guarded("xml comp %d" % ci, lambda comp=comp, specs=specs, ci=ci: xml_check_composition(comp, specs, "xml comp %d" % ci))
        # markup incl. double quotes only for the XML side
        comp.set_title(rnd.choice(xml_only_texts), "")
        comp.set_author(rnd.choice(xml_only_texts))
        for t in comp.tracks:
            if rnd.random() < 0.5:
                t.name = rnd.choice(xml_only_texts)
        guarded("xml comp %d q" % ci, lambda comp=comp, specs=specs, ci=ci: xml_check_composition(comp, specs, "xml comp %d q" % ci))

    # --- MusicXML of systematic one-bar compositions (every vocabulary value, every key)
    for k in KEYS:
        comp = Composition()
        t = Track()
        bar, spec = rand_bar(rnd, key=k)
        t.add_bar(bar)
        comp.add_track(t)
        guarded("xml key %s" % k, lambda comp=comp, spec=spec, k=k: xml_check_composition(comp, [[spec]], "xml key %s" % k))
    for item in VOCAB:
        comp = Composition()
        t = Track()
        big = Bar(rnd.choice(KEYS), (64, 4))
        spec = []
        for it in (item, rnd.choice(VOCAB), item):
            if big.place_notes(rand_container(rnd), it[0]):
                spec.append(it[1:])
        t.add_bar(big)
        comp.add_track(t)
        guarded("xml value %r" % (item,), lambda comp=comp, spec=spec, item=item: xml_check_composition(comp, [[spec]], "xml value %r" % (item,)))

    # the convenience wrappers produce the same kind of document
    b, spec = rand_bar(rnd, key="Eb", meter=(6, 8))
    for text in (musicxml.from_Bar(b), musicxml.from_Track(Track().add_bar(b))):
        root = ET.fromstring(text)
        check(len(root.findall("part")) == 1 and len(root.findall("part/measure")) == 1, "xml wrapper structure")
    finish()


if __name__ == "__main__":
    main()
