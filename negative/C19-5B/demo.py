import mingus, os; assert os.path.realpath(mingus.__file__).startswith(os.path.realpath(os.path.dirname(__file__)))
"""Direct check of property C19 through the public API.

LilyPond text and MusicXML produced by mingus.extra.lilypond / musicxml are
decoded with two small independent readers (a hand written scanner for the
LilyPond subset, xml.etree for the XML) and compared with the music that was
put in.  Exit status 0 when everything matches, 1 with a message otherwise.
"""
import random
import re
import sys
import xml.etree.ElementTree as ET
from fractions import Fraction

import mingus.core.value as value
import mingus.extra.lilypond as lilypond
import mingus.extra.musicxml as musicxml
from mingus.containers import Bar, Composition, Note, NoteContainer, Track
from mingus.containers.instrument import Instrument, MidiInstrument

CASES = [0]


class Mismatch(Exception):
    pass


def check(cond, msg, *args):
    CASES[0] += 1
    if not cond:
        raise Mismatch(msg % args if args else msg)


# ---------------------------------------------------------------------------
# vocabulary
# ---------------------------------------------------------------------------
LETTERS = "CDEFGAB"
ACCS = ["", "#", "##", "b", "bb"]
NAMES = [l + a for l in LETTERS for a in ACCS]
KEYS = [
    ("Cb", "ab"), ("Gb", "eb"), ("Db", "bb"), ("Ab", "f"), ("Eb", "c"),
    ("Bb", "g"), ("F", "d"), ("C", "a"), ("G", "e"), ("D", "b"),
    ("A", "f#"), ("E", "c#"), ("B", "g#"), ("F#", "d#"), ("C#", "a#"),
]
FIFTHS = {}
for _i, (_maj, _min) in enumerate(KEYS):
    FIFTHS[_maj] = _i - 7
    FIFTHS[_min] = _i - 7
ALL_KEYS = [k for pair in KEYS for k in pair]
METERS = [(4, 4), (3, 4), (2, 4), (6, 8), (2, 2), (5, 4), (7, 8), (12, 8),
          (9, 16), (3, 2), (1, 1), (16, 4), (32, 4), (8, 1), (64, 8)]
BASES = [0.25, 0.5, 1, 2, 4, 8, 16, 32, 64, 128]

# every spec is (base, dots, (rat1, rat2)); the mingus value is made with the
# public helpers of mingus.core.value
SPECS = []
for _b in BASES:
    SPECS.append((_b, 0, (1, 1)))
    for _d in (1, 2, 3, 4):
        SPECS.append((_b, _d, (1, 1)))
    SPECS.append((_b, 0, (3, 2)))
    SPECS.append((_b, 0, (5, 4)))
    SPECS.append((_b, 0, (7, 4)))


def spec_value(spec):
    base, dots, (r1, r2) = spec
    if dots:
        return value.dots(base, dots)
    if (r1, r2) == (1, 1):
        return base
    if (r1, r2) == (3, 2):
        return value.triplet(base)
    if (r1, r2) == (5, 4):
        return value.quintuplet(base)
    return value.septuplet(base)


def quarter_length(spec):
    base, dots, (r1, r2) = spec
    return Fraction(4) / Fraction(base) * (2 - Fraction(1, 2 ** dots)) * Fraction(r2, r1)


def pitch_of(note):
    """(letter, alteration, octave) of a mingus Note, read off its name."""
    name = note.name
    return (name[0], name.count("#") - name.count("b"), note.octave)


# ---------------------------------------------------------------------------
# independent LilyPond-subset reader
# ---------------------------------------------------------------------------
class Ly(object):
    def __init__(self, text):
        self.t = text
        self.p = 0

    def ws(self):
        while self.p < len(self.t) and self.t[self.p] in " \t\r\n":
            self.p += 1

    def at_end(self):
        self.ws()
        return self.p >= len(self.t)

    def m(self, pattern):
        self.ws()
        mo = re.compile(pattern).match(self.t, self.p)
        if mo:
            self.p = mo.end()
        return mo

    def peek(self, pattern):
        self.ws()
        return re.compile(pattern).match(self.t, self.p) is not None

    def need(self, pattern):
        mo = self.m(pattern)
        if not mo:
            raise Mismatch("LilyPond: expected %r at %d in %r" % (pattern, self.p, self.t[:300]))
        return mo

    # pitch: letter, (is|es)*, octave marks
    def pitch(self):
        mo = self.need(r"([a-g])((?:is|es)*)([',]*)(?![a-z])")
        acc = mo.group(2)
        alter = acc.count("is") - acc.count("es")
        if alter and (acc.count("is") and acc.count("es")):
            raise Mismatch("mixed accidentals %r" % acc)
        marks = mo.group(3)
        if "'" in marks and "," in marks:
            raise Mismatch("mixed octave marks %r" % marks)
        return (mo.group(1).upper(), alter, 3 + marks.count("'") - marks.count(","))

    def duration(self):
        mo = self.m(r"\\longa(?![a-zA-Z])")
        if mo:
            base = Fraction(1, 4)
        else:
            mo = self.m(r"\\breve(?![a-zA-Z])")
            if mo:
                base = Fraction(1, 2)
            else:
                mo = self.m(r"\d+")
                if not mo:
                    return None
                base = Fraction(int(mo.group(0)))
        dots = 0
        while self.m(r"\."):
            dots += 1
        return (base, dots)

    def entry(self):
        """one rest / note / chord with its optional duration"""
        if self.m(r"r(?![a-z])"):
            notes = []
        elif self.m(r"<"):
            notes = []
            while not self.m(r">"):
                notes.append(self.pitch())
        else:
            notes = [self.pitch()]
        return (notes, self.duration())

    def starts_entry(self):
        return self.peek(r"[a-gr<]")

    def bar(self):
        """-> dict(time=None|(n,d), key=None|(letter, alter, mode), entries=[(notes, dur, ratio)])"""
        self.need(r"\{")
        out = {"time": None, "key": None, "entries": []}
        while True:
            if self.m(r"\}"):
                return out
            if self.m(r"\\time(?![a-zA-Z])"):
                mo = self.need(r"(\d+)\s*/\s*(\d+)")
                out["time"] = (int(mo.group(1)), int(mo.group(2)))
            elif self.m(r"\\key(?![a-zA-Z])"):
                letter, alter, octave = self.pitch()
                if octave != 3:
                    raise Mismatch("octave marks on a key tonic")
                mode = self.need(r"\\(major|minor)(?![a-zA-Z])").group(1)
                out["key"] = (letter, alter, mode)
            elif self.m(r"\\times(?![a-zA-Z])"):
                mo = self.need(r"(\d+)\s*/\s*(\d+)")
                ratio = Fraction(int(mo.group(2)), int(mo.group(1)))
                self.need(r"\{")
                while not self.m(r"\}"):
                    notes, dur = self.entry()
                    out["entries"].append((notes, dur, ratio))
            elif self.starts_entry():
                notes, dur = self.entry()
                out["entries"].append((notes, dur, Fraction(1)))
            else:
                raise Mismatch("LilyPond: cannot read at %d: %r" % (self.p, self.t[self.p:self.p + 40]))

    def track(self):
        self.need(r"\{")
        bars = []
        while not self.m(r"\}"):
            bars.append(self.bar())
        return bars


def key_triple(key):
    name = key.key
    return (name[0].upper(), name[1:].count("#") - name[1:].count("b"), key.mode)


def expect_entries(got, model, what):
    """model: list of (list of Note | None, spec | None)"""
    check(len(got) == len(model), "%s: %d entries read, %d expected", what, len(got), len(model))
    for (notes, dur, ratio), (mnotes, spec) in zip(got, model):
        want = [pitch_of(n) for n in (mnotes or [])]
        check(notes == want, "%s: pitches %r, expected %r", what, notes, want)
        if spec is None:
            check(dur is None, "%s: unexpected duration %r", what, dur)
            check(ratio == 1, "%s: unexpected ratio", what)
        else:
            base, dots, (r1, r2) = spec
            check(dur is not None and dur[0] == Fraction(base) and dur[1] == dots,
                  "%s: duration %r, expected base %r dots %r", what, dur, base, dots)
            check(ratio == Fraction(r1, r2), "%s: ratio %r, expected %d:%d", what, ratio, r1, r2)


def model_of_bar(bar, specs):
    """bar entries (through the public list) paired with the specs that made them"""
    assert len(bar.bar) == len(specs)
    out = []
    for entry, spec in zip(bar.bar, specs):
        nc = entry[2]
        out.append((list(nc.notes) if nc is not None else None, spec))
    return out


def check_ly_bar(text, bar, specs, showkey, showtime, what):
    rd = Ly(text)
    got = rd.bar()
    check(rd.at_end(), "%s: trailing text %r", what, text[rd.p:])
    if showkey:
        check(got["key"] == key_triple(bar.key), "%s: key %r, expected %r", what, got["key"], key_triple(bar.key))
    if showtime:
        check(got["time"] == tuple(bar.meter), "%s: time %r, expected %r", what, got["time"], bar.meter)
    expect_entries(got["entries"], model_of_bar(bar, specs), what)


def check_ly_track_bars(got_bars, track, specs_per_bar, what):
    check(len(got_bars) == len(track.bars), "%s: %d bars read, %d expected", what, len(got_bars), len(track.bars))
    cur_key = ("C", 0, "major")
    cur_time = (4, 4)
    for i, (got, bar, specs) in enumerate(zip(got_bars, track.bars, specs_per_bar)):
        if got["key"] is not None:
            cur_key = got["key"]
        if got["time"] is not None:
            cur_time = got["time"]
        w = "%s bar %d" % (what, i)
        check(cur_key == key_triple(bar.key), "%s: key in force %r, expected %r", w, cur_key, key_triple(bar.key))
        check(cur_time == tuple(bar.meter), "%s: meter in force %r, expected %r", w, cur_time, bar.meter)
        expect_entries(got["entries"], model_of_bar(bar, specs), w)


def check_ly_composition(text, comp, specs_per_track, what):
    head = (r'\s*\\header\s*\{\s*title\s*=\s*"' + re.escape(comp.title) + r'"\s*composer\s*=\s*"'
            + re.escape(comp.author) + r'"\s*opus\s*=\s*"' + re.escape(comp.subtitle) + r'"\s*\}')
    mo = re.compile(head).match(text)
    check(mo is not None, "%s: header does not carry title/author/subtitle: %r", what, text[:200])
    rd = Ly(text)
    rd.p = mo.end()
    tracks = []
    while not rd.at_end():
        tracks.append(rd.track())
    check(len(tracks) == len(comp.tracks), "%s: %d tracks read", what, len(tracks))
    for j, (got, track, spb) in enumerate(zip(tracks, comp.tracks, specs_per_track)):
        check_ly_track_bars(got, track, spb, "%s track %d" % (what, j))


# ---------------------------------------------------------------------------
# independent MusicXML reader
# ---------------------------------------------------------------------------
def one(node, tag, what):
    found = node.findall(tag)
    check(len(found) == 1, "%s: %d <%s> elements", what, len(found), tag)
    return found[0]


def check_xml(text, comp, specs_per_track, what):
    check(isinstance(text, str), "%s: not text", what)
    try:
        root = ET.fromstring(text.encode("utf-8"))
    except ET.ParseError as e:
        raise Mismatch("%s: not well-formed: %s" % (what, e))
    check(root.tag == "score-partwise", "%s: root %r", what, root.tag)
    if comp.title:
        check(one(root, "movement-title", what).text == comp.title, "%s: title %r", what,
              root.findtext("movement-title"))
    if comp.author:
        creators = [c.text for c in root.iter("creator")]
        check(creators == [comp.author], "%s: creators %r", what, creators)
    part_list = one(root, "part-list", what)
    score_parts = part_list.findall("score-part")
    parts = root.findall("part")
    ids = [p.get("id") for p in parts]
    check(len(parts) == len(comp.tracks), "%s: %d parts for %d tracks", what, len(parts), len(comp.tracks))
    check(None not in ids and "" not in ids, "%s: part without id", what)
    check(len(set(ids)) == len(ids), "%s: part ids not unique %r", what, ids)
    check([sp.get("id") for sp in score_parts] == ids, "%s: part-list does not match parts", what)
    for j, (sp, part, track, spb) in enumerate(zip(score_parts, parts, comp.tracks, specs_per_track)):
        w = "%s part %d" % (what, j)
        pn = one(sp, "part-name", w).text or ""
        check(pn == track.name, "%s: part-name %r, expected %r", w, pn, track.name)
        if track.instrument:
            iname = one(one(sp, "score-instrument", w), "instrument-name", w).text or ""
            check(iname == str(track.instrument.name), "%s: instrument-name %r", w, iname)
        measures = part.findall("measure")
        check(len(measures) == len(track.bars), "%s: %d measures for %d bars", w, len(measures), len(track.bars))
        check(len(list(part)) == len(measures), "%s: stray children in part", w)
        for i, (meas, bar, specs) in enumerate(zip(measures, track.bars, spb)):
            wm = "%s measure %d" % (w, i + 1)
            check(meas.get("number") == str(i + 1), "%s: number %r", wm, meas.get("number"))
            attrs = one(meas, "attributes", wm)
            divisions = int(one(attrs, "divisions", wm).text)
            check(divisions > 0, "%s: divisions %r", wm, divisions)
            time = one(attrs, "time", wm)
            got_meter = (int(one(time, "beats", wm).text), int(one(time, "beat-type", wm).text))
            check(got_meter == tuple(bar.meter), "%s: meter %r, expected %r", wm, got_meter, bar.meter)
            key = one(attrs, "key", wm)
            check(int(one(key, "fifths", wm).text) == FIFTHS[bar.key.key], "%s: fifths %r for %r", wm,
                  key.findtext("fifths"), bar.key.key)
            check(one(key, "mode", wm).text == bar.key.mode, "%s: mode", wm)
            want = []
            for (mnotes, spec) in model_of_bar(bar, specs):
                if not mnotes:
                    want.append((None, False, spec))
                else:
                    for k, n in enumerate(mnotes):
                        want.append((pitch_of(n), k > 0, spec))
            notes = meas.findall("note")
            check(len(notes) == len(want), "%s: %d note elements, expected %d", wm, len(notes), len(want))
            for el, (pitch, in_chord, spec) in zip(notes, want):
                if pitch is None:
                    check(len(el.findall("rest")) == 1 and not el.findall("pitch"), "%s: rest expected", wm)
                else:
                    check(not el.findall("rest"), "%s: rest where note expected", wm)
                    p = one(el, "pitch", wm)
                    alter = p.findall("alter")
                    check(len(alter) <= 1, "%s: several alters", wm)
                    got = (one(p, "step", wm).text, int(alter[0].text) if alter else 0,
                           int(one(p, "octave", wm).text))
                    check(got == pitch, "%s: pitch %r, expected %r", wm, got, pitch)
                check((len(el.findall("chord")) == 1) == in_chord and len(el.findall("chord")) <= 1,
                      "%s: chord flag wrong for %r", wm, pitch)
                check(len(el.findall("dot")) == spec[1], "%s: %d dots, expected %d", wm,
                      len(el.findall("dot")), spec[1])
                dur = int(one(el, "duration", wm).text)
                check(Fraction(dur, divisions) == quarter_length(spec),
                      "%s: duration %d/%d, expected %s quarters", wm, dur, divisions, quarter_length(spec))


# ---------------------------------------------------------------------------
# building music
# ---------------------------------------------------------------------------
def fill_bar(rng, key, meter, tries, spec_pool=SPECS):
    """a Bar plus the list of specs of the entries that were accepted"""
    bar = Bar(key, meter)
    specs = []
    for _ in range(tries):
        spec = rng.choice(spec_pool)
        kind = rng.random()
        if kind < 0.2:
            ok = bar.place_rest(spec_value(spec))
        else:
            n = 1 if kind < 0.55 else rng.randint(2, 5)
            notes = [Note(rng.choice(NAMES), rng.randint(0, 8)) for _ in range(n)]
            form = rng.randint(0, 2)
            if form == 0 or n > 1:
                ok = bar.place_notes(NoteContainer(notes), spec_value(spec))
            elif form == 1:
                ok = bar.place_notes(notes[0], spec_value(spec))
            else:
                ok = bar.place_notes(notes, spec_value(spec))
        if ok:
            specs.append(spec)
    return bar, specs


TITLES = [
    ("Untitled", "", ""),
    ("Plain title", "Some Author", "Op. 1"),
    ("Tom & Jerry <theme>", "A&B <c>", "x > y & y < z"),
    ("50% {braces} %s %d", "Jörg Åström", "étude n° 3"),
    ("it's 'quoted'", "O'Neil", "a'b"),
    ("]]> <!-- not a comment --> <?pi?>", "&amp; &lt; &#65;", "<![CDATA[x]]>"),
    ("♫ 音楽", "Бах", "αβγ"),
    ("long " * 300, "A" * 2000, "sub"),
]
XML_ONLY_TITLES = [
    ('say "hello"', 'the "author"', ""),
    ("back\\slash", "two\nlines", ""),
    ("  padded  ", " x ", ""),
]
NAMES_FOR_TRACKS = ["Untitled", "Violin & Viola", "<lead>", 'bass "line"', "Flöte", "a'b", "{%s}"]


def main():
    rng = random.Random(19)

    # --- single notes: every name up to double accidentals, octaves 0-8
    for name in NAMES:
        for octave in range(9):
            n = Note(name, octave)
            rd = Ly(lilypond.from_Note(n))
            rd.need(r"\{")
            got = rd.pitch()
            rd.need(r"\}")
            check(rd.at_end() and got == pitch_of(n), "from_Note(%s-%d) read back as %r", name, octave, got)
            rd = Ly(lilypond.from_Note(n, standalone=False))
            got = rd.pitch()
            check(rd.at_end() and got == pitch_of(n), "from_Note(%s-%d, standalone=False) -> %r", name, octave, got)
            rd = Ly(lilypond.from_Note(n, False, False))
            got = rd.pitch()
            check(rd.at_end() and got == (name[0], pitch_of(n)[1], 3), "from_Note without octaves -> %r", got)

    # --- note containers: rests, single notes, chords, every value
    for idx, spec in enumerate(SPECS + [None] * 10):
        for size in (0, 1, 2, 3, 5):
            notes = [Note(rng.choice(NAMES), rng.randint(0, 8)) for _ in range(size)]
            nc = NoteContainer(notes) if size else (None if idx % 2 else NoteContainer())
            dur = None if spec is None else spec_value(spec)
            for standalone in (True, False):
                if spec is None and standalone:
                    text = lilypond.from_NoteContainer(nc)
                else:
                    text = lilypond.from_NoteContainer(nc, duration=dur, standalone=standalone)
                rd = Ly(text)
                if standalone:
                    rd.need(r"\{")
                got_notes, got_dur = rd.entry()
                if standalone:
                    rd.need(r"\}")
                check(rd.at_end(), "from_NoteContainer: trailing text in %r", text)
                model = [(list(nc.notes) if nc is not None else None, spec)]
                expect_entries([(got_notes, got_dur, Fraction(1) if spec is None else Fraction(*spec[2]))],
                               model, "from_NoteContainer %r" % text)

    # --- bars: every key, a spread of meters, random content, all show flags
    bars_seen = []
    for k, key in enumerate(ALL_KEYS):
        for r in range(3):
            meter = METERS[(k + 5 * r) % len(METERS)]
            bar, specs = fill_bar(rng, key, meter, rng.choice([0, 3, 8, 20]))
            bars_seen.append((bar, specs))
            for showkey in (True, False):
                for showtime in (True, False):
                    if showkey and showtime and r == 0:
                        text = lilypond.from_Bar(bar)
                    else:
                        text = lilypond.from_Bar(bar, showkey=showkey, showtime=showtime)
                    check_ly_bar(text, bar, specs, showkey, showtime, "from_Bar %s %r" % (key, meter))

    # a bar holding the whole vocabulary in turn, with ratios going back and forth
    for base in BASES:
        bar = Bar("C", (0, 0))
        specs = [s for s in SPECS if s[0] == base]
        order = specs + specs[::-1] + [specs[0], specs[5], specs[0], specs[6], specs[6], specs[1], specs[7]]
        for s in order:
            assert bar.place_notes(NoteContainer([Note("A", 4), Note("C#", 5)]), spec_value(s))
        text = lilypond.from_Bar(bar, showtime=False)
        check_ly_bar(text, bar, order, True, False, "vocabulary bar %r" % base)
        bars_seen.append((bar, order))
        bar2 = Bar("eb", (512, 1))
        for s in order:
            assert bar2.place_notes(NoteContainer([Note("A", 4), Note("C#", 5)]), spec_value(s))
        bars_seen.append((bar2, order))

    # --- tracks and compositions
    comps = []
    for c in range(len(TITLES) + len(XML_ONLY_TITLES)):
        comp = Composition()
        title, author, sub = (TITLES + XML_ONLY_TITLES)[c]
        comp.set_title(title, sub)
        comp.set_author(author, "someone@example.org")
        specs_per_track = []
        for t in range(rng.randint(1, 4)):
            if rng.random() < 0.5:
                track = Track()
            else:
                ins = MidiInstrument() if rng.random() < 0.5 else Instrument()
                ins.name = rng.choice(NAMES_FOR_TRACKS)
                track = Track(ins)
            track.name = NAMES_FOR_TRACKS[(c + t) % len(NAMES_FOR_TRACKS)]
            spb = []
            prev = None
            for b in range(rng.randint(0, 7)):
                roll = rng.random()
                if prev is not None and roll < 0.3:
                    key, meter = prev  # unchanged key and meter
                elif prev is not None and roll < 0.45:
                    key, meter = prev[0], rng.choice(METERS)
                elif prev is not None and roll < 0.6:
                    key, meter = rng.choice(ALL_KEYS), prev[1]
                else:
                    key, meter = rng.choice(ALL_KEYS + ["C", "a"]), rng.choice(METERS + [(4, 4)])
                prev = (key, meter)
                if rng.random() < 0.15 and bars_seen:
                    bar, specs = rng.choice(bars_seen)  # a bar used several times
                    prev = (bar.key.key, tuple(bar.meter))
                else:
                    bar, specs = fill_bar(rng, key, meter, rng.choice([0, 2, 6, 12]))
                track.add_bar(bar)
                spb.append(specs)
            comp.add_track(track)
            specs_per_track.append(spb)
        comps.append((comp, specs_per_track))

    # one very long track
    comp = Composition()
    comp.set_title("long one")
    track = Track()
    spb = []
    for b in range(300):
        bar, specs = fill_bar(rng, ALL_KEYS[b % 30], METERS[b % 7], 6)
        track.add_bar(bar)
        spb.append(specs)
    comp.add_track(track)
    comps.append((comp, [spb]))

    for c, (comp, specs_per_track) in enumerate(comps):
        what = "composition %d" % c
        ly_ok = c < len(TITLES) or c >= len(TITLES) + len(XML_ONLY_TITLES)
        if ly_ok:
            check_ly_composition(lilypond.from_Composition(comp), comp, specs_per_track, "ly " + what)
        for j, (track, spb) in enumerate(zip(comp.tracks, specs_per_track)):
            rd = Ly(lilypond.from_Track(track))
            got = rd.track()
            check(rd.at_end(), "from_Track: trailing text")
            check_ly_track_bars(got, track, spb, "ly %s track %d" % (what, j))
        for rep in range(2):  # exported twice: nothing may depend on earlier calls
            check_xml(musicxml.from_Composition(comp), comp, specs_per_track, "xml " + what)
        # the smaller entry points wrap the object in a fresh composition
        track = comp.tracks[0]
        wrapper = Composition()
        wrapper.add_track(track)
        check_xml(musicxml.from_Track(track), wrapper, specs_per_track[:1], "xml from_Track " + what)
        if track.bars:
            wrapper = Composition()
            t = Track()
            t.add_bar(track.bars[0])
            wrapper.add_track(t)
            check_xml(musicxml.from_Bar(track.bars[0]), wrapper, [specs_per_track[0][:1]], "xml from_Bar " + what)

    # every pitch and every value through MusicXML, systematically
    comp = Composition()
    comp.set_title("systematic")
    track = Track()
    spb = []
    flat = [Note(name, octave) for name in NAMES for octave in range(9)]
    for i in range(0, len(flat), 5):
        bar = Bar(ALL_KEYS[(i // 5) % 30], (0, 0))
        specs = []
        for j, n in enumerate(flat[i:i + 5]):
            spec = SPECS[(i + j) % len(SPECS)]
            assert bar.place_notes(NoteContainer(flat[i:i + j + 1]), spec_value(spec))
            specs.append(spec)
            assert bar.place_rest(spec_value(spec))
            specs.append(spec)
        track.add_bar(bar)
        spb.append(specs)
    comp.add_track(track)
    check_xml(musicxml.from_Composition(comp), comp, [spb], "xml systematic")
    check_ly_composition(lilypond.from_Composition(comp), comp, [spb], "ly systematic")


if __name__ == "__main__":
    try:
        main()
    except Mismatch as e:
        print("PROPERTY C19 VIOLATED: %s" % e)
        sys.exit(1)
    print("C19 holds on %d checks" % CASES[0])
    sys.exit(0)
