import mingus, os; assert os.path.realpath(mingus.__file__).startswith(os.path.realpath(os.path.dirname(__file__)))
import itertools
import sys

from mingus.core import notes
from mingus.core.mt_exceptions import NoteFormatError, RangeError, FormatError

NATURAL = {"C": 0, "D": 2, "E": 4, "F": 5, "G": 7, "A": 9, "B": 11}
failures = []
checked = [0]


def check(cond, msg):
    checked[0] += 1
    if not cond:
        failures.append(msg)


def expected_pc(name):
    return (NATURAL[name[0]] + name.count("#") - name.count("b")) % 12


def raises(exc, f, *a, **k):
    try:
        f(*a, **k)
    except exc:
        return True
    except Exception as e:  # wrong class
        return "wrong class %s" % type(e).__name__
    return False


def all_names(maxlen):
    for letter in "CDEFGAB":
        for k in range(maxlen + 1):
            for acc in itertools.product("#b", repeat=k):
                yield letter + "".join(acc)


def check_name(n):
    pc = expected_pc(n)
    net = n.count("#") - n.count("b")
    check(notes.is_valid_note(n) is True, "is_valid_note(%r) not True" % n)
    check(notes.note_to_int(n) == pc, "note_to_int(%r) != %d" % (n, pc))
    check(notes.note_to_int(note=n) == pc, "note_to_int(note=%r) != %d" % (n, pc))
    a = notes.augment(n)
    check(a[0] == n[0] and notes.is_valid_note(a) and notes.note_to_int(a) == (pc + 1) % 12,
          "augment(%r) -> %r" % (n, a))
    d = notes.diminish(n)
    check(d[0] == n[0] and notes.is_valid_note(d) and notes.note_to_int(d) == (pc - 1) % 12,
          "diminish(%r) -> %r" % (n, d))
    r = notes.remove_redundant_accidentals(n)
    want = n[0] + ("#" * net if net > 0 else "b" * (-net))
    check(r == want, "remove_redundant_accidentals(%r) -> %r, want %r" % (n, r, want))
    check(notes.note_to_int(r) == pc, "remove_redundant_accidentals(%r) changed pitch class" % n)
    q = notes.reduce_accidentals(n)
    ok = notes.is_valid_note(q) and notes.note_to_int(q) == pc and len(q) <= 2
    if len(q) == 2:
        ok = ok and ((net > 0 and q[1] == "#") or (net < 0 and q[1] == "b"))
    check(ok, "reduce_accidentals(%r) -> %r" % (n, q))


# 1. every spelling up to 5 accidentals (7 * 63 names), twice, second pass in
# reverse order so that any internal state has been exercised
names = list(all_names(5))
for n in names:
    check_name(n)
for n in reversed(names):
    check_name(n)

# 2. long names
for letter in "CDEFGAB":
    for acc in ("#" * 1000, "b" * 1000, "#b" * 700 + "#", "b" * 13 + "#" * 25, "#" * 12, "b" * 12,
                "b#" * 6, "#" * 4301, "b" * 5003):
        check_name(letter + acc)

# 3. enharmonic exactly when pitch classes are equal
small = list(all_names(2))
for x in small:
    for y in small:
        check(notes.is_enharmonic(x, y) == (expected_pc(x) == expected_pc(y)),
              "is_enharmonic(%r, %r)" % (x, y))
check(notes.is_enharmonic(note1="C#", note2="Db") is True, "is_enharmonic keywords")
check(notes.is_enharmonic("C" + "#" * 30, "F" + "b#" * 9 + "b") == (30 % 12 == 4), "is_enharmonic long")

# 4. number -> name -> number
for i in range(12):
    s = notes.int_to_note(i)
    f = notes.int_to_note(i, "b")
    check(s == notes.int_to_note(i, "#") == notes.int_to_note(note_int=i, accidentals="#"),
          "int_to_note(%d) default/keyword forms differ" % i)
    check(notes.note_to_int(s) == i and notes.note_to_int(f) == i, "round trip of %d" % i)
    check(s[0] in NATURAL and s[1:] in ("", "#"), "sharp style %r" % s)
    check(f[0] in NATURAL and f[1:] in ("", "b"), "flat style %r" % f)
    check(f == notes.int_to_note(accidentals="b", note_int=i), "int_to_note keyword flat %d" % i)

# 5. integers out of range
for i in [-1, -2, -11, -12, -13, 12, 13, 23, 24, 100, -100, 2 ** 31, -2 ** 63, 10 ** 30, -10 ** 30,
          10 ** 5000, -10 ** 5000]:
    for style in ("#", "b"):
        for _ in range(2):
            check(raises(RangeError, notes.int_to_note, i, style) is True,
                  "int_to_note(<%d-bit int>, %r) not RangeError" % (i.bit_length(), style))
    check(raises(RangeError, notes.int_to_note, i) is True, "int_to_note out of range default style")

# 6. unknown accidental styles
for style in ["", "x", "##", "bb", "#b", "sharp", "B", " #", "#\n", "%s", "%(a)s", "{0}", "{", "♯", "♭", "\xe9"]:
    for i in (0, 1, 6, 11):
        for _ in range(2):
            check(raises(FormatError, notes.int_to_note, i, style) is True,
                  "int_to_note(%d, %r) not FormatError" % (i, style))

# 7. malformed names
bad = ["c", "d", "h", "H", "I", "Z", "asdasd", "C###f", "E*", "C ", " C", "C\n", "Cb\n", "\nC", "C#\n#",
       "C-4", "C4", "C#4", "Cis", "C♯", "C♭", "С", "Ｃ", "\xc7", "\xe9", "C\xe9", "#", "b",
       "##", "bC", "#C", "CC", "C#C", "Cx", "CB", "C%s", "%s", "%d", "%(note)s", "C%", "{0}", "{", "C{}",
       "C{0}", "}", "C\x00", "\x00", "C#\t", "C,", "C'", "'C'", "C\"", "C\\", "C#" * 50, "C" + "#" * 500 + "x",
       "C" + "x" + "b" * 500, "X" + "#" * 500, "1", "0", "-", "Do", "Re", "None"]
for s in bad:
    for _ in range(2):
        check(notes.is_valid_note(s) is False, "is_valid_note(%r) not False" % s)
        check(raises(NoteFormatError, notes.note_to_int, s) is True, "note_to_int(%r) not NoteFormatError" % s)
        check(raises(NoteFormatError, notes.reduce_accidentals, s) is True,
              "reduce_accidentals(%r) not NoteFormatError" % s)
# valid names still fine after the refusals
for n in small:
    check_name(n)

if failures:
    print("PROPERTY VIOLATED (%d of %d checks):" % (len(failures), checked[0]))
    for m in failures[:20]:
        print("  " + m[:200])
    sys.exit(1)
print("ok: %d checks" % checked[0])
sys.exit(0)
