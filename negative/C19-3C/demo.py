import mingus, os; assert os.path.realpath(mingus.__file__).startswith(os.path.realpath(os.path.dirname(__file__)))
"""Direct check of C19: LilyPond and MusicXML exports decode back to the same
music.  Exit 0 when the statement holds on every case, 1 with a message
otherwise."""
import random
import re
import sys
import xml.etree.ElementTree as ET
from fractions import Fraction

import mingus.core.value as value
import mingus.extra.lilypond as LilyPond
import mingus.extra.musicxml as MusicXML
from mingus.containers import Bar, Composition, Note, NoteContainer, Track
from mingus.containers.instrument import Instrument, MidiInstrument, Piano

CASES = [0]


class Failure(Exception):
    pass


def check(cond, msg):
    CASES[0] += 1
    if not cond:
        raise Failure(msg)


# ---------------------------------------------------------------- vocabulary
LETTERS = "CDEFGAB"
ACCS = ["", "#", "b", "##", "bb"]
NAMES = [l + a for l in LETTERS for a in ACCS]
SIGNATURES = {}
_major = ["Cb", "Gb", "Db", "Ab", "Eb", "Bb", "F", "C", "G", "D", "A", "E", "B", "F#", "C#"]
_minor = ["ab", "eb", "bb", "f", "c", "g", "d", "a", "e", "b", "f#", "c#", "g#", "d#", "a#"]
for i, k in enumerate(_major):
    SIGNATURES[k] = (i - 7, "major")
for i, k in enumerate(_minor):
    SIGNATURES[k] = (i - 7, "minor")
KEYS = _major + _minor
assert len(KEYS) == 30
BASES = [0.25, 0.5, 1, 2, 4, 8, 16, 32, 64, 128]

# every value of the vocabulary with the (base, dots, actual, normal) it is
VOCAB = []
for b in BASES:
    VOCAB.append((b, (b, 0, 1, 1)))
    for d in range(1, 5):
        VOCAB.append((value.dots(b, d), (b, d, 1, 1)))
    VOCAB.append((value.triplet(b), (b, 0, 3, 2)))
    VOCAB.append((value.quintuplet(b), (b, 0, 5, 4)))
    VOCAB.append((value.septuplet(b), (b, 0, 7, 4)))


def quarter_length(spec):
    (b, d, r1, r2) = spec
    return Fraction(4) / Fraction(b) * (2 - Fraction(1, 2 ** d)) * Fraction(r2, r1)


# ------------------------------------------------------- LilyPond subset reader
TOKEN = re.compile(
    r"""\s+
      | (?P<str>"(?:[^"\\]|\\.)*")
      | (?P<cmd>\\[A-Za-z]+)
      | (?P<frac>\d+/\d+)
      | (?P<pitch>[a-g](?:is|es)*[',]*(?![A-Za-z]))
      | (?P<rest>r(?![A-Za-z]))
      | (?P<num>\d+)
      | (?P<dots>\.+)
      | (?P<word>[A-Za-z]+)
      | (?P<punct>[{}<>=])
    """,
    re.X | re.S,
)


def ly_tokens(text):
    pos = 0
    out = []
    while pos < len(text):
        m = TOKEN.match(text, pos)
        if not m:
            raise Failure("LilyPond: cannot tokenise at %r" % text[pos : pos + 20])
        pos = m.end()
        if m.lastgroup:
            out.append((m.lastgroup, m.group(m.lastgroup), m.start() > 0 and text[m.start() - 1].isspace()))
    return out


def ly_pitch(tok):
    m = re.match(r"^([a-g])((?:is|es)*)([',]*)$", tok)
    acc = m.group(2).replace("is", "#").replace("es", "b")
    marks = m.group(3)
    if marks and len(set(marks)) != 1:
        raise Failure("LilyPond: mixed octave marks in %r" % tok)
    octave = 3 + (len(marks) if marks.startswith("'") else -len(marks))
    return (m.group(1).upper() + acc, octave)


class LyReader(object):
    def __init__(self, text):
        self.toks = ly_tokens(text)
        self.i = 0

    def peek(self):
        return self.toks[self.i] if self.i < len(self.toks) else (None, None, False)

    def take(self, kind=None, val=None):
        t = self.peek()
        if t[0] is None or (kind and t[0] != kind) or (val and t[1] != val):
            raise Failure("LilyPond: expected %s %s, found %r" % (kind, val, t))
        self.i += 1
        return t

    def duration(self):
        """Optional duration glued to what precedes it."""
        t = self.peek()
        if t[2]:
            return None
        if t[0] == "cmd" and t[1] in ("\\longa", "\\breve"):
            self.i += 1
            base = 0.25 if t[1] == "\\longa" else 0.5
        elif t[0] == "num":
            self.i += 1
            base = int(t[1])
        else:
            return None
        dots = 0
        t = self.peek()
        if t[0] == "dots" and not t[2]:
            self.i += 1
            dots = len(t[1])
        return (base, dots)

    def header(self):
        fields = {}
        if self.peek()[:2] == ("cmd", "\\header"):
            self.take()
            self.take("punct", "{")
            while self.peek()[:2] != ("punct", "}"):
                name = self.take()[1]
                self.take("punct", "=")
                s = self.take("str")[1]
                fields[name] = s[1:-1]
            self.take("punct", "}")
        return fields

    def block(self, ratio=(1, 1)):
        """Read '{ ... }' into a list of items."""
        self.take("punct", "{")
        items = []
        while True:
            t = self.peek()
            if t[0] is None:
                raise Failure("LilyPond: unbalanced braces")
            if t[:2] == ("punct", "}"):
                self.take()
                return items
            if t[:2] == ("punct", "{"):
                items.append(("block", self.block(ratio)))
            elif t[:2] == ("cmd", "\\time"):
                self.take()
                n, d = self.take("frac")[1].split("/")
                items.append(("time", (int(n), int(d))))
            elif t[:2] == ("cmd", "\\key"):
                self.take()
                tonic = ly_pitch(self.take("pitch")[1])
                if tonic[1] != 3:
                    raise Failure("LilyPond: octave marks on a key tonic")
                mode = self.take("cmd")[1][1:]
                items.append(("key", (tonic[0], mode)))
            elif t[:2] == ("cmd", "\\times"):
                self.take()
                n, d = self.take("frac")[1].split("/")
                inner = (ratio[0] * int(d), ratio[1] * int(n))
                items.extend(self.block(inner))
            elif t[0] == "pitch":
                self.take()
                items.append(("entry", [ly_pitch(t[1])], self.duration(), ratio))
            elif t[0] == "rest":
                self.take()
                items.append(("entry", [], self.duration(), ratio))
            elif t[:2] == ("punct", "<"):
                self.take()
                notes = []
                while self.peek()[:2] != ("punct", ">"):
                    notes.append(ly_pitch(self.take("pitch")[1]))
                self.take()
                items.append(("entry", notes, self.duration(), ratio))
            else:
                raise Failure("LilyPond: unexpected token %r" % (t,))

    def end(self):
        if self.peek()[0] is not None:
            raise Failure("LilyPond: trailing text %r" % (self.peek(),))


def norm_ratio(r):
    f = Fraction(r[0], r[1])
    return (f.numerator, f.denominator)


def expected_entries(bar, specs):
    out = []
    for entry, spec in zip(bar.bar, specs):
        nc = entry[2]
        notes = [] if nc is None else [(n.name, int(n.octave)) for n in nc.notes]
        out.append((notes, spec))
    return out


def compare_bar_items(items, bar, specs, what, state=None, must_show=(False, False)):
    """items: the reader's items for one bar. state: [key, meter] in force
    before the bar (None: nothing known)."""
    entries = [it for it in items if it[0] == "entry"]
    keys = [it[1] for it in items if it[0] == "key"]
    times = [it[1] for it in items if it[0] == "time"]
    check(all(it[0] in ("entry", "key", "time") for it in items), "%s: nested block inside a bar" % what)
    want_key = (bar.key.key[0].upper() + bar.key.key[1:], bar.key.mode)
    want_meter = tuple(bar.meter)
    check(bar.key.mode == SIGNATURES[bar.key.key][1], "%s: mode" % what)
    if must_show[0]:
        check(len(keys) >= 1, "%s: key not shown" % what)
    if must_show[1]:
        check(len(times) >= 1, "%s: time not shown" % what)
    for k in keys:
        check(k == want_key, "%s: key shown %r, bar has %r" % (what, k, want_key))
    for t in times:
        check(t == want_meter, "%s: time shown %r, bar has %r" % (what, t, want_meter))
    if state is not None:
        if keys:
            state[0] = keys[-1]
        if times:
            state[1] = times[-1]
        check(state[0] == want_key, "%s: key in force %r, bar has %r" % (what, state[0], want_key))
        check(state[1] == want_meter, "%s: meter in force %r, bar has %r" % (what, state[1], want_meter))
    want = expected_entries(bar, specs)
    check(len(entries) == len(want), "%s: %d entries decoded, %d placed" % (what, len(entries), len(want)))
    for n, (got, (notes, spec)) in enumerate(zip(entries, want)):
        check(got[1] == notes, "%s entry %d: notes %r, expected %r" % (what, n, got[1], notes))
        check(got[2] is not None, "%s entry %d: no duration" % (what, n))
        check(
            got[2][0] == spec[0] and got[2][1] == spec[1],
            "%s entry %d: base/dots %r, expected %r" % (what, n, got[2], spec[:2]),
        )
        check(
            norm_ratio(got[3]) == norm_ratio(spec[2:]),
            "%s entry %d: ratio %r, expected %r" % (what, n, got[3], spec[2:]),
        )


def check_ly_bar(bar, specs, what):
    for showkey in (True, False):
        for showtime in (True, False):
            text = LilyPond.from_Bar(bar, showkey, showtime)
            rd = LyReader(text)
            items = rd.block()
            rd.end()
            compare_bar_items(items, bar, specs, "%s from_Bar(%s,%s) %r" % (what, showkey, showtime, text),
                              must_show=(showkey, showtime))
    text = LilyPond.from_Bar(bar)
    rd = LyReader(text)
    items = rd.block()
    rd.end()
    compare_bar_items(items, bar, specs, "%s from_Bar %r" % (what, text), must_show=(True, True))


def check_ly_track_items(items, track, specs, what):
    blocks = [it for it in items if it[0] == "block"]
    check(len(blocks) == len(items), "%s: stray material between bars" % what)
    check(len(blocks) == len(track.bars), "%s: %d bars decoded of %d" % (what, len(blocks), len(track.bars)))
    state = [("C", "major"), (4, 4)]
    for n, (blk, bar, sp) in enumerate(zip(blocks, track.bars, specs)):
        compare_bar_items(blk[1], bar, sp, "%s bar %d" % (what, n), state=state)


def check_ly_track(track, specs, what):
    text = LilyPond.from_Track(track)
    rd = LyReader(text)
    items = rd.block()
    rd.end()
    check_ly_track_items(items, track, specs, "%s from_Track" % what)


def check_ly_composition(comp, specs, what):
    text = LilyPond.from_Composition(comp)
    rd = LyReader(text)
    fields = rd.header()
    plain = lambda s: '"' not in s and "\\" not in s
    if plain(comp.title) and plain(comp.author) and plain(comp.subtitle):
        vals = list(fields.values())
        check(comp.title in vals, "%s: header lacks title %r (%r)" % (what, comp.title, fields))
        check(comp.author in vals, "%s: header lacks author %r" % (what, comp.author))
        check(comp.subtitle in vals, "%s: header lacks subtitle %r" % (what, comp.subtitle))
        check(fields.get("title") == comp.title, "%s: title field" % what)
        check(fields.get("composer") == comp.author, "%s: composer field" % what)
    for n, (track, sp) in enumerate(zip(comp.tracks, specs)):
        items = rd.block()
        check_ly_track_items(items, track, sp, "%s from_Composition track %d" % (what, n))
    rd.end()


# ------------------------------------------------------------- MusicXML reader
def alter_of(name):
    return name.count("#") - name.count("b")


def check_xml(comp, specs, what):
    text = MusicXML.from_Composition(comp)
    check(isinstance(text, str), "%s: MusicXML is not text" % what)
    try:
        root = ET.fromstring(text)
    except ET.ParseError as e:
        raise Failure("%s: MusicXML not well-formed: %s" % (what, e))
    check(root.tag == "score-partwise", "%s: root %r" % (what, root.tag))
    score_parts = root.findall("part-list/score-part")
    parts = root.findall("part")
    check(len(parts) == len(comp.tracks), "%s: %d parts for %d tracks" % (what, len(parts), len(comp.tracks)))
    ids = [p.get("id") for p in parts]
    check(all(ids), "%s: part without id" % what)
    check(len(set(ids)) == len(ids), "%s: part ids not unique %r" % (what, ids))
    check([sp.get("id") for sp in score_parts] == ids, "%s: part list does not match parts" % what)
    alltext = [el.text for el in root.iter()]
    if comp.title:
        check(comp.title in alltext, "%s: title %r not found unaltered" % (what, comp.title))
        check(root.findtext("movement-title") == comp.title or root.findtext("work/work-title") == comp.title,
              "%s: title element" % what)
    if comp.author:
        check(comp.author in [c.text for c in root.iter("creator")], "%s: author %r" % (what, comp.author))
    for n, (track, part, sp, tspecs) in enumerate(zip(comp.tracks, parts, score_parts, specs)):
        w = "%s part %d" % (what, n)
        check(sp.findtext("part-name") == track.name, "%s: part-name %r != %r" % (w, sp.findtext("part-name"), track.name))
        if track.instrument:
            check(
                track.instrument.name in [e.text for e in sp.iter("instrument-name")],
                "%s: instrument name %r" % (w, track.instrument.name),
            )
        measures = part.findall("measure")
        check(len(measures) == len(track.bars), "%s: %d measures for %d bars" % (w, len(measures), len(track.bars)))
        check(len(list(part)) == len(measures), "%s: non-measure children in part" % w)
        for m, (meas, bar, bspecs) in enumerate(zip(measures, track.bars, tspecs)):
            wm = "%s measure %d" % (w, m + 1)
            check(meas.get("number") == str(m + 1), "%s: number %r" % (wm, meas.get("number")))
            attrs = meas.find("attributes")
            check(attrs is not None, "%s: no attributes" % wm)
            check(int(attrs.findtext("time/beats")) == bar.meter[0], "%s: beats" % wm)
            check(int(attrs.findtext("time/beat-type")) == bar.meter[1], "%s: beat-type" % wm)
            sig, mode = SIGNATURES[bar.key.key]
            check(int(attrs.findtext("key/fifths")) == sig, "%s: fifths %r != %d" % (wm, attrs.findtext("key/fifths"), sig))
            check(attrs.findtext("key/mode").strip() == mode, "%s: mode" % wm)
            divisions = int(attrs.findtext("divisions"))
            check(divisions > 0, "%s: divisions" % wm)
            want = []
            for (notes, spec) in expected_entries(bar, bspecs):
                if not notes:
                    want.append((None, False, spec))
                for k, nt in enumerate(notes):
                    want.append((nt, k > 0, spec))
            got = meas.findall("note")
            check(len(got) == len(want), "%s: %d note elements, expected %d" % (wm, len(got), len(want)))
            for k, (el, (nt, inchord, spec)) in enumerate(zip(got, want)):
                wn = "%s note %d" % (wm, k)
                if nt is None:
                    check(el.find("rest") is not None and el.find("pitch") is None, "%s: should be a rest" % wn)
                else:
                    check(el.find("rest") is None and el.find("pitch") is not None, "%s: should be pitched" % wn)
                    check(el.findtext("pitch/step").strip() == nt[0][0], "%s: step" % wn)
                    alter = el.findtext("pitch/alter")
                    check(Fraction(alter.strip() if alter else 0) == alter_of(nt[0]), "%s: alter %r for %s" % (wn, alter, nt[0]))
                    check(int(el.findtext("pitch/octave")) == nt[1], "%s: octave" % wn)
                check((el.find("chord") is not None) == inchord, "%s: chord flag" % wn)
                check(len(el.findall("dot")) == spec[1], "%s: dots" % wn)
                dur = Fraction(el.findtext("duration").strip())
                check(dur / divisions == quarter_length(spec),
                      "%s: duration %s / divisions %s != %s quarters" % (wn, dur, divisions, quarter_length(spec)))
    return text


# --------------------------------------------------------------- constructions
def fill_bar(bar, rnd, pool=None, max_entries=12):
    """Place random entries until nothing more fits; return the specs."""
    specs = []
    tries = 0
    while tries < 30 and len(specs) < max_entries:
        tries += 1
        val, spec = rnd.choice(pool or VOCAB)
        content = random_content(rnd)
        if bar.place_notes(content, val):
            specs.append(spec)
    return specs


def random_note(rnd):
    return Note(rnd.choice(NAMES), rnd.randint(0, 8))


def random_content(rnd):
    r = rnd.random()
    if r < 0.15:
        return None
    if r < 0.2:
        return NoteContainer()
    if r < 0.5:
        return NoteContainer(random_note(rnd))
    k = rnd.randint(2, 5)
    return NoteContainer([random_note(rnd) for _ in range(k)])


METERS = [(4, 4), (3, 4), (6, 8), (2, 2), (5, 4), (7, 8), (12, 8), (9, 16), (2, 4), (16, 4), (4, 1), (3, 2)]
TITLES = [
    ("Untitled", "", ""),
    ("Suite <No. 1> & more", "J. S. Bäch", "Op. 5 > 4"),
    ("100% {braces} [x]", "A & B", "it's"),
    ("Étude — 音楽", "Łukasz Ñ", "über"),
    ("]]> <!-- c --> &amp; &#65;", "<b>bold</b>", "a < b > c"),
    ("tab\there", "x" * 300, "%s %d %(a)s"),
]


def main():
    rnd = random.Random(1919)

    # 1. every note name and octave, alone and in a container
    for name in NAMES:
        for octave in range(0, 9):
            note = Note(name, octave)
            for text in (LilyPond.from_Note(note), LilyPond.from_Note(note, True, True),
                         LilyPond.from_Note(note, standalone=True)):
                rd = LyReader(text)
                items = rd.block()
                rd.end()
                check(len(items) == 1 and items[0][0] == "entry" and items[0][1] == [(name, octave)],
                      "from_Note(%s-%d) -> %r" % (name, octave, text))
            bare = LilyPond.from_Note(note, standalone=False)
            rd = LyReader("{ %s }" % bare)
            items = rd.block()
            check(items[0][1] == [(name, octave)], "from_Note bare %r" % bare)
            nooct = LilyPond.from_Note(note, False, False)
            check(ly_pitch(nooct) == (name, 3), "from_Note without octaves %r" % nooct)

    # 2. every value of the vocabulary on containers of 0..5 notes
    for val, spec in VOCAB:
        for k in (None, 0, 1, 2, 3, 5):
            if k is None:
                nc = None
                notes = []
            else:
                nc = NoteContainer([random_note(rnd) for _ in range(k)])
                notes = [(n.name, int(n.octave)) for n in nc.notes]
            for text in (LilyPond.from_NoteContainer(nc, val), LilyPond.from_NoteContainer(nc, duration=val, standalone=True)):
                rd = LyReader(text)
                items = rd.block()
                rd.end()
                check(len(items) == 1 and items[0][1] == notes, "from_NoteContainer notes %r" % text)
                check(items[0][2] == spec[:2], "from_NoteContainer(%r) -> %r, expected %r" % (val, text, spec))
            text = LilyPond.from_NoteContainer(nc)
            rd = LyReader(text)
            items = rd.block()
            check(items[0][1] == notes and items[0][2] is None, "from_NoteContainer no duration %r" % text)

    # 3. every value alone in a bar, every key, with rests and chords: LilyPond and MusicXML
    n = 0
    for val, spec in VOCAB:
        key = KEYS[n % 30]
        n += 1
        bar = Bar(key, (32, 1))
        specs = []
        for content in (NoteContainer(random_note(rnd)), None,
                        NoteContainer([random_note(rnd) for _ in range(3)])):
            check(bar.place_notes(content, val), "could not place %r" % val)
            specs.append(spec)
        check_ly_bar(bar, specs, "vocab %r in %s" % (val, key))
        t = Track()
        t.add_bar(bar)
        c = Composition()
        c.add_track(t)
        check_xml(c, [[specs]], "vocab %r in %s" % (val, key))

    # 4. all 30 keys x meters, empty bars
    for i, key in enumerate(KEYS):
        meter = METERS[i % len(METERS)]
        bar = Bar(key, meter)
        check_ly_bar(bar, [], "empty bar %s %r" % (key, meter))
        t = Track()
        t.add_bar(bar)
        t.add_bar(Bar(key, meter))
        c = Composition()
        c.add_track(t)
        check_xml(c, [[[], []]], "empty bars %s" % key)
        check_ly_track(t, [[], []], "empty bars %s" % key)

    # 5. random tracks and compositions
    instruments = [None, Piano(), Instrument(), MidiInstrument()]
    for round_ in range(40):
        comp = Composition()
        title, author, subtitle = TITLES[round_ % len(TITLES)]
        comp.set_title(title, subtitle)
        comp.set_author(author, "someone@example.org")
        allspecs = []
        for tn in range(rnd.randint(1, 3)):
            ins = rnd.choice(instruments)
            if ins is not None:
                ins = type(ins)()
                ins.name = rnd.choice(["Piano", "Flûte & <Oboe>", "Tenor 'sax' \"x\"", "{%s}"])
                if isinstance(ins, MidiInstrument):
                    ins.instrument_nr = rnd.randint(0, 127)
            track = Track(ins)
            track.name = rnd.choice(["Untitled", "R&B <lead>", "Voix été", "a\"b'c", "100%"])
            tspecs = []
            key = rnd.choice(KEYS)
            meter = rnd.choice(METERS)
            for bn in range(rnd.randint(0, 6)):
                if rnd.random() < 0.4:
                    key = rnd.choice(KEYS)
                if rnd.random() < 0.3:
                    meter = rnd.choice(METERS)
                bar = Bar(key, meter)
                if rnd.random() < 0.12:
                    specs = []
                else:
                    pool = None
                    if rnd.random() < 0.3:
                        # runs of tuplets and plain values next to each other
                        pool = [v for v in VOCAB if v[1][0] in (4, 8, 16) and v[1][1] <= 1]
                    specs = fill_bar(bar, rnd, pool)
                tspecs.append(specs)
                track.add_bar(bar)
            allspecs.append(tspecs)
            comp.add_track(track)
        what = "random composition %d" % round_
        check_xml(comp, allspecs, what)
        check_ly_composition(comp, allspecs, what)
        for track, tspecs in zip(comp.tracks, allspecs):
            check_ly_track(track, tspecs, what)
            for bar, specs in zip(track.bars, tspecs):
                if rnd.random() < 0.3:
                    check_ly_bar(bar, specs, what)
        # a second export of the same objects gives the same music again
        check_xml(comp, allspecs, what + " (again)")
        check_ly_composition(comp, allspecs, what + " (again)")

    # 6. tuplet / plain alternation in one bar, named explicitly
    bar = Bar("C", (4, 4))
    seq = [(4, (4, 0, 1, 1)), (12, (8, 0, 3, 2)), (12, (8, 0, 3, 2)), (12, (8, 0, 3, 2)),
           (8, (8, 0, 1, 1)), (10, (8, 0, 5, 4)), (20, (16, 0, 5, 4)), (value.dots(8), (8, 1, 1, 1)),
           (14, (8, 0, 7, 4)), (12, (8, 0, 3, 2))]
    specs = []
    for v, s in seq:
        if bar.place_notes(rnd.choice(["C", "E", "G"]), v):
            specs.append(s)
    check(len(specs) >= 8, "alternation bar too short")
    check_ly_bar(bar, specs, "alternation")
    t = Track()
    t.add_bar(bar)
    t.add_bar(bar)  # the same bar used twice
    c = Composition()
    c.add_track(t)
    t2 = Track()
    t2.add_bar(bar)
    c.add_track(t2)
    check_xml(c, [[specs, specs], [specs]], "shared bar")
    check_ly_composition(c, [[specs, specs], [specs]], "shared bar")

    # 7. a long track
    track = Track()
    tspecs = []
    for i in range(300):
        bar = Bar(KEYS[i % 30], METERS[i % len(METERS)])
        tspecs.append(fill_bar(bar, rnd, max_entries=6))
        track.add_bar(bar)
    c = Composition()
    c.set_title("Long & <winding>")
    c.add_track(track)
    check_xml(c, [tspecs], "long")
    check_ly_composition(c, [tspecs], "long")

    # 8. the other MusicXML entry points are well-formed and carry the same music
    bar = Bar("f#", (6, 8))
    specs = fill_bar(bar, rnd)
    root = ET.fromstring(MusicXML.from_Bar(bar))
    check(len(root.findall("part/measure")) == 1, "from_Bar measures")
    check(len(root.findall("part/measure/note")) == sum(max(1, len(e[0])) for e in expected_entries(bar, specs)),
          "from_Bar notes")
    t = Track()
    t.add_bar(bar)
    root = ET.fromstring(MusicXML.from_Track(t))
    check(len(root.findall("part")) == 1 and len(root.findall("part-list/score-part")) == 1, "from_Track parts")


if __name__ == "__main__":
    try:
        main()
    except Failure as e:
        print("C19 FAILS: %s" % e)
        sys.exit(1)
    print("C19 holds on %d checks" % CASES[0])
    sys.exit(0)
