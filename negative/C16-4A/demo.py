import mingus, os; assert os.path.realpath(mingus.__file__).startswith(os.path.realpath(os.path.dirname(__file__)))
"""Direct check of property C16 (MIDI output is well-formed SMF denoting exactly
the music written) through the public API.  Exit 0 when it holds, 1 otherwise."""
import random
import shutil
import sys
import tempfile
from collections import Counter

from mingus.containers import Bar, Composition, Note, NoteContainer, Track
from mingus.containers.instrument import MidiInstrument
from mingus.core.keys import major_keys, minor_keys
from mingus.midi import midi_file_out
from mingus.midi.midi_file_out import MidiFile
from mingus.midi.midi_track import MidiTrack

TMP = tempfile.mkdtemp(prefix="c16demo")
CASES = [0]


class Bad(Exception):
    pass


def need(cond, msg):
    if not cond:
        raise Bad(msg)


# --------------------------------------------------------------------------
# independent SMF reader
# --------------------------------------------------------------------------
def read_vlq(buf, pos, end):
    val = 0
    for n in range(4):
        need(pos < end, "VLQ runs past the end of the chunk")
        b = buf[pos]
        pos += 1
        val = (val << 7) | (b & 0x7F)
        if not b & 0x80:
            if n > 0:
                need(buf[pos - n - 1] != 0x80, "VLQ has a redundant leading 0x80")
            return val, pos
    raise Bad("VLQ longer than four bytes")


def parse_smf(buf):
    need(buf[:4] == b"MThd", "no MThd")
    need(int.from_bytes(buf[4:8], "big") == 6, "header length is not 6")
    fmt = int.from_bytes(buf[8:10], "big")
    ntrk = int.from_bytes(buf[10:12], "big")
    div = int.from_bytes(buf[12:14], "big")
    need(fmt == 1, "format is %d" % fmt)
    need(div == 72, "division is %d" % div)
    pos = 14
    tracks = []
    while pos < len(buf):
        need(buf[pos:pos + 4] == b"MTrk", "chunk at %d is not MTrk" % pos)
        need(pos + 8 <= len(buf), "truncated chunk header")
        ln = int.from_bytes(buf[pos + 4:pos + 8], "big")
        start = pos + 8
        end = start + ln
        need(end <= len(buf), "chunk length runs past the file")
        tracks.append(parse_track(buf, start, end))
        pos = end
    need(len(tracks) == ntrk, "header declares %d tracks, %d follow" % (ntrk, len(tracks)))
    return tracks


def parse_track(buf, pos, end):
    events = []
    tick = 0
    running = None
    saw_eot = False
    while pos < end:
        need(not saw_eot, "events after end-of-track")
        delta, pos = read_vlq(buf, pos, end)
        tick += delta
        need(pos < end, "delta time without event")
        b = buf[pos]
        if b == 0xFF:
            need(pos + 2 <= end, "truncated meta")
            mtype = buf[pos + 1]
            need(mtype < 0x80, "meta type out of range")
            ln, p2 = read_vlq(buf, pos + 2, end)
            need(p2 + ln <= end, "meta data runs past chunk")
            data = bytes(buf[p2:p2 + ln])
            pos = p2 + ln
            running = None
            if mtype == 0x2F:
                need(ln == 0, "end-of-track with data")
                saw_eot = True
            events.append((tick, "meta", mtype, data))
        elif b in (0xF0, 0xF7):
            ln, p2 = read_vlq(buf, pos + 1, end)
            need(p2 + ln <= end, "sysex runs past chunk")
            pos = p2 + ln
            running = None
            events.append((tick, "sysex", b, None))
        else:
            if b & 0x80:
                need(b < 0xF0, "bad status byte %02x" % b)
                status = b
                running = b
                pos += 1
            else:
                need(running is not None, "data byte without running status")
                status = running
            kind = status >> 4
            n = 1 if kind in (0xC, 0xD) else 2
            need(pos + n <= end, "truncated channel event")
            data = tuple(buf[pos:pos + n])
            need(all(d < 0x80 for d in data), "data byte with high bit set")
            pos += n
            events.append((tick, "ch", kind, status & 0xF, data))
    need(saw_eot, "chunk does not end in end-of-track")
    need(pos == end, "chunk length mismatch")
    return events


# --------------------------------------------------------------------------
# expectation model
# --------------------------------------------------------------------------
class Expect(object):
    def __init__(self, bpm):
        self.notes = []  # (on_tick, off_tick, ch, pitch, vel)
        self.tempo = [(0, 60000000 // bpm)]
        self.timesig = []
        self.keysig = []
        self.names = []
        self.programs = []  # (channel, program) per play of the track with notes
        self.tick = 0
        self.pending = None  # instrument number waiting for the next note


def keysig_of(key):
    name = key.key if hasattr(key, "key") else key
    if name in minor_keys and name.islower():
        return minor_keys.index(name) - 7, 1
    return major_keys.index(name) - 7, 0


def model_bar(e, bar):
    num, den = bar.meter
    e.timesig.append((e.tick, num, den.bit_length() - 1))
    e.keysig.append((e.tick,) + keysig_of(bar.key))
    for beat, value, nc in bar:
        ticks = round(288 / value)
        if nc is not None and len(nc) > 0:
            if hasattr(nc, "bpm"):
                e.tempo.append((e.tick, 60000000 // nc.bpm))
            for n in nc:
                if e.pending is not None:
                    e.programs.append((n.channel, e.pending, e.tick))
                    e.pending = None
                e.notes.append((e.tick, e.tick + ticks, n.channel, int(n) + 12, n.velocity))
        e.tick += ticks


def model_track(e, track):
    e.names.append(track.name)
    if hasattr(track.instrument, "instrument_nr"):
        e.pending = track.instrument.instrument_nr
    for bar in track:
        model_bar(e, bar)


def model_container(e, notes):
    for n in notes:
        e.notes.append((e.tick, e.tick + 72, n.channel, int(n) + 12, n.velocity))
    e.tick += 72


def compare(events, e, what):
    ons = Counter()
    offs = Counter()
    tempo = []
    timesig = []
    keysig = []
    names = []
    active = Counter()
    progs = []
    banks = []
    first_on_index = None
    for i, ev in enumerate(events):
        if ev[1] == "meta":
            tick, _, mtype, data = ev
            if mtype == 0x51:
                need(len(data) == 3, "tempo length")
                tempo.append((tick, int.from_bytes(data, "big")))
            elif mtype == 0x58:
                need(len(data) == 4, "time signature length")
                timesig.append((tick, data[0], data[1]))
            elif mtype == 0x59:
                need(len(data) == 2, "key signature length")
                sf = data[0] - 256 if data[0] > 127 else data[0]
                need(data[1] in (0, 1), "key signature mode")
                keysig.append((tick, sf, data[1]))
            elif mtype == 0x03:
                names.append(data.decode("ascii"))
            elif mtype == 0x2F:
                need(i == len(events) - 1, "end-of-track is not last")
            else:
                raise Bad("unexpected meta %02x" % mtype)
        elif ev[1] == "ch":
            tick, _, kind, ch, data = ev
            if kind == 0x9:
                k = (ch, data[0])
                need(active[k] == 0, "%s: note %r overlaps itself" % (what, k))
                active[k] += 1
                ons[(tick, ch, data[0], data[1])] += 1
                if first_on_index is None:
                    first_on_index = i
            elif kind == 0x8:
                k = (ch, data[0])
                need(active[k] == 1, "%s: note-off without note-on %r" % (what, k))
                active[k] -= 1
                offs[(tick, ch, data[0], data[1])] += 1
            elif kind == 0xB:
                need(data[0] == 0, "unexpected controller %d" % data[0])
                banks.append((i, tick, ch))
            elif kind == 0xC:
                progs.append((i, tick, ch, data[0]))
            else:
                raise Bad("unexpected channel event kind %x" % kind)
        else:
            raise Bad("unexpected sysex")
    need(not +active, "%s: hanging notes %r" % (what, +active))
    exp_on = Counter((a, c, p, v) for a, b, c, p, v in e.notes)
    exp_off = Counter((b, c, p, v) for a, b, c, p, v in e.notes)
    need(ons == exp_on, "%s: note-ons differ: extra %r missing %r" % (what, ons - exp_on, exp_on - ons))
    need(offs == exp_off, "%s: note-offs differ: extra %r missing %r" % (what, offs - exp_off, exp_off - offs))
    need(sorted(tempo) == sorted(e.tempo), "%s: tempo %r != %r" % (what, tempo, e.tempo))
    need(sorted(timesig) == sorted(e.timesig), "%s: time signatures %r != %r" % (what, timesig, e.timesig))
    need(sorted(keysig) == sorted(e.keysig), "%s: key signatures %r != %r" % (what, keysig, e.keysig))
    need(names == e.names, "%s: names %r != %r" % (what, names, e.names))
    # one bank select + program change per play of a track with a MIDI
    # instrument, on the channel of the first note that follows, not after it
    need(len(progs) == len(e.programs), "%s: program changes %r, expected %r" % (what, progs, e.programs))
    need(len(banks) == len(e.programs), "%s: bank selects %r, expected %r" % (what, banks, e.programs))
    for (pi, ptick, pch, prog), (bi, btick, bch), (ch, nr, tick) in zip(progs, banks, e.programs):
        need((pch, prog) == (ch, nr), "%s: program change %r, expected %r" % (what, (pch, prog), (ch, nr)))
        need(bch == ch and bi < pi, "%s: bank select %r does not precede program change on channel %d" % (what, (bi, bch), ch))
        need(ptick <= tick and btick <= tick, "%s: instrument set after its first note" % what)
        later_on = [j for j, ev in enumerate(events) if ev[1] == "ch" and ev[2] == 0x9 and ev[0] >= tick]
        need(later_on and pi < later_on[0], "%s: program change comes after the first note-on" % what)


def check_file(path, expects, what):
    CASES[0] += 1
    with open(path, "rb") as f:
        buf = f.read()
    tracks = parse_smf(buf)
    need(len(tracks) == len(expects), "%s: %d tracks, expected %d" % (what, len(tracks), len(expects)))
    for i, (evs, e) in enumerate(zip(tracks, expects)):
        compare(evs, e, "%s track %d" % (what, i))
    return buf


# --------------------------------------------------------------------------
# generators
# --------------------------------------------------------------------------
ALL_KEYS = list(major_keys) + list(minor_keys)
METERS = [(4, 4), (3, 4), (6, 8), (2, 2), (5, 4), (7, 8), (12, 8), (2, 4), (9, 8), (1, 1), (3, 2), (5, 16), (4, 1)]
VALUES = [1, 2, 4, 8, 16, 32, 64, 128, 3, 6, 12, 24, 5, 7, 9, 10, 4 / 1.5, 8 / 1.5, 16 / 1.5, 32 / 1.5, 2 / 1.5, 4 / 1.75, 8 / 1.75, 20, 48, 96]


def rnd_note(rng, used, channel=None):
    while True:
        p = rng.randrange(0, 116)
        if p not in used:
            used.add(p)
            break
    n = Note().from_int(p)
    assert int(n) == p
    n.channel = rng.randrange(16) if channel is None else channel
    n.velocity = rng.choice([0, 1, 63, 64, 100, 126, 127, rng.randrange(128)])
    return n


def rnd_container(rng, size=None, channel=None):
    size = size or rng.choice([1, 1, 1, 2, 3, 4, 6])
    used = set()
    nc = NoteContainer()
    for _ in range(size):
        nc.add_note(rnd_note(rng, used, channel))
    assert len(nc) == size
    return nc


def rnd_bar(rng, key=None, meter=None, rest_mode=None, tempo_prob=0.0, channel=None):
    key = key or rng.choice(ALL_KEYS)
    meter = meter or rng.choice(METERS)
    bar = Bar(key, meter)
    rest_mode = rest_mode or rng.choice(["none", "lead", "trail", "mid", "all", "random", "random"])
    if rest_mode == "all":
        for _ in range(rng.randrange(1, 4)):
            bar.place_rest(rng.choice([1, 2, 4, 8]) if meter != (5, 16) else 16)
        return bar
    n_entries = rng.randrange(0, 9)
    entries = []
    for i in range(n_entries):
        v = rng.choice(VALUES)
        entries.append(v)
    for i, v in enumerate(entries):
        is_rest = False
        if rest_mode == "lead" and i == 0:
            is_rest = True
        elif rest_mode == "trail" and i == len(entries) - 1:
            is_rest = True
        elif rest_mode == "mid" and 0 < i < len(entries) - 1:
            is_rest = rng.random() < 0.5
        elif rest_mode == "random":
            is_rest = rng.random() < 0.35
        if is_rest:
            if rng.random() < 0.5:
                bar.place_rest(v)
            else:
                bar.place_notes(NoteContainer(), v)
        else:
            nc = rnd_container(rng, channel=channel)
            if rng.random() < tempo_prob:
                nc.bpm = rng.choice([30, 60, 90, 97, 120, 200, 333])
            bar.place_notes(nc, v)
    return bar


def rnd_track(rng, nbars=None, instrument=None, tempo_prob=0.0):
    t = Track()
    if instrument == "midi" or (instrument is None and rng.random() < 0.6):
        mi = MidiInstrument()
        mi.instrument_nr = rng.choice([0, 1, 13, 64, 127, rng.randrange(128)])
        t.instrument = mi
    if rng.random() < 0.8:
        t.name = rng.choice(["Lead", "", "a{b}%s %d", "line\none", "x" * 127, "y" * 128, "z" * 300, "Track Name Test", "100% {0}"])
    for _ in range(nbars if nbars is not None else rng.randrange(0, 5)):
        t.add_bar(rnd_bar(rng, tempo_prob=tempo_prob))
    return t


def path(name):
    return os.path.join(TMP, name)


# --------------------------------------------------------------------------
# checks
# --------------------------------------------------------------------------
def std_vlq(n):
    out = [n & 0x7F]
    n >>= 7
    while n:
        out.append((n & 0x7F) | 0x80)
        n >>= 7
    return bytes(reversed(out))


def check_vlq():
    t = MidiTrack()
    vals = set(range(0, 70000))
    for k in (7, 14, 21, 28):
        for d in range(-40, 41):
            v = (1 << k) + d
            if 0 <= v < (1 << 28):
                vals.add(v)
    for k in range(1, 28):
        for d in (-2, -1, 0, 1, 2):
            vals.add((1 << k) + d)
    rng = random.Random(5)
    for _ in range(30000):
        vals.add(rng.randrange(1 << 28))
        vals.add(rng.randrange(1 << rng.randrange(1, 29)))
    for i, v in enumerate(sorted(vals)):
        got = t.int_to_varbyte(v) if i % 3 else t.int_to_varbyte(value=v)
        need(isinstance(got, bytes) and got == std_vlq(v), "int_to_varbyte(%d) = %r, standard %r" % (v, got, std_vlq(v)))
    # many distinct values, then the early ones again (order reversed)
    for v in sorted(vals, reverse=True)[::7]:
        need(MidiTrack(90).int_to_varbyte(v) == std_vlq(v), "int_to_varbyte(%d) on second visit" % v)
    CASES[0] += 1


def check_notes(rng):
    i = 0
    for p in list(range(0, 116, 5)) + [115, 114, 0, 1]:
        for rep in (0, 1, 3):
            n = Note().from_int(p)
            n.channel = (p + rep) % 16
            n.velocity = (p * 7 + rep * 50) % 128
            bpm = rng.choice([120, 60, 97, 240, 7])
            f = path("n%d.mid" % i)
            i += 1
            if rep == 0 and p % 2:
                ok = midi_file_out.write_Note(f, n, bpm)
            else:
                ok = midi_file_out.write_Note(file=f, note=n, bpm=bpm, repeat=rep, verbose=False)
            need(ok is True, "write_Note returned %r" % (ok,))
            e = Expect(bpm)
            for _ in range(rep + 1):
                model_container(e, [n])
            check_file(f, [e], "write_Note(%r, ch%d, v%d, repeat=%d)" % (n, n.channel, n.velocity, rep))
    # channel / velocity extremes
    for ch in range(16):
        for vel in (0, 1, 127):
            n = Note("A", 4, velocity=vel, channel=ch)
            f = path("nx.mid")
            midi_file_out.write_Note(f, n, repeat=1)
            e = Expect(120)
            model_container(e, [n])
            model_container(e, [n])
            check_file(f, [e], "write_Note ch%d vel%d" % (ch, vel))


def check_containers(rng):
    for i in range(60):
        nc = rnd_container(rng, size=rng.choice([1, 2, 3, 5, 8]), channel=rng.choice([None, None, 3]))
        rep = rng.choice([0, 0, 1, 2, 5])
        bpm = rng.choice([120, 100, 33, 250])
        f = path("c%d.mid" % i)
        if i % 2:
            ok = midi_file_out.write_NoteContainer(f, nc, bpm, rep)
        else:
            ok = midi_file_out.write_NoteContainer(f, notecontainer=nc, repeat=rep, bpm=bpm)
        need(ok is True, "write_NoteContainer returned %r" % (ok,))
        e = Expect(bpm)
        for _ in range(rep + 1):
            model_container(e, nc)
        check_file(f, [e], "write_NoteContainer(%r, repeat=%d)" % (nc, rep))


def bar_expect(bar, bpm, rep):
    e = Expect(bpm)
    for _ in range(rep + 1):
        model_bar(e, bar)
    return e


def check_bars(rng):
    i = 0
    # all 30 keys
    for key in ALL_KEYS:
        bar = rnd_bar(rng, key=key)
        rep = rng.choice([0, 1, 2])
        f = path("b%d.mid" % i)
        i += 1
        need(midi_file_out.write_Bar(f, bar, 120, rep) is True, "write_Bar failed")
        check_file(f, [bar_expect(bar, 120, rep)], "write_Bar key %s rep %d %r" % (key, rep, bar))
    # meters x rest positions
    for meter in METERS:
        for mode in ("none", "lead", "trail", "mid", "all", "random"):
            bar = rnd_bar(rng, meter=meter, rest_mode=mode, tempo_prob=0.15)
            rep = rng.choice([0, 0, 1, 3])
            bpm = rng.choice([120, 80, 201])
            f = path("b%d.mid" % i)
            i += 1
            need(midi_file_out.write_Bar(f, bar=bar, bpm=bpm, repeat=rep) is True, "write_Bar failed")
            check_file(f, [bar_expect(bar, bpm, rep)], "write_Bar meter %r mode %s rep %d %r" % (meter, mode, rep, bar))
    # every value, alone / after a rest / before a rest, single note and chord
    for v in VALUES:
        for shape in range(4):
            bar = Bar("C", (4, 1))
            if shape == 1:
                bar.place_rest(v)
            bar.place_notes(rnd_container(rng, size=1 + shape % 2 * 2), v)
            if shape >= 2:
                bar.place_rest(v)
            bar.place_notes(rnd_container(rng), v)
            if shape == 3:
                bar.place_rest(v)
            f = path("bv.mid")
            need(midi_file_out.write_Bar(f, bar, repeat=shape) is True, "write_Bar failed")
            check_file(f, [bar_expect(bar, 120, shape)], "write_Bar value %r shape %d" % (v, shape))
    # same pitch repeated in consecutive entries (off before on at one tick)
    bar = Bar("Gb", (4, 4))
    for _ in range(4):
        bar.place_notes(NoteContainer([Note("C", 4), Note("E", 4)]), 4)
    f = path("bs.mid")
    midi_file_out.write_Bar(f, bar, repeat=2)
    check_file(f, [bar_expect(bar, 120, 2)], "write_Bar repeated pitches")
    # a very long bar
    bar = Bar("f#", (4, 1))
    for k in range(256):
        if k % 5 == 2:
            bar.place_rest(64)
        else:
            bar.place_notes(rnd_container(rng), 64)
    f = path("bl.mid")
    midi_file_out.write_Bar(f, bar, repeat=1)
    check_file(f, [bar_expect(bar, 120, 1)], "write_Bar long")


def check_tracks(rng):
    for i in range(80):
        t = rnd_track(rng, tempo_prob=0.05 if i % 4 == 0 else 0.0)
        rep = rng.choice([0, 0, 1, 2, 4])
        bpm = rng.choice([120, 72, 144])
        f = path("t%d.mid" % i)
        if i % 2:
            ok = midi_file_out.write_Track(f, t, bpm, rep)
        else:
            ok = midi_file_out.write_Track(f, track=t, repeat=rep, bpm=bpm, verbose=False)
        need(ok is True, "write_Track failed")
        e = Expect(bpm)
        for _ in range(rep + 1):
            model_track(e, t)
        check_file(f, [e], "write_Track #%d rep %d %r" % (i, rep, t))
    # a track made only of whole-bar rests, with an instrument
    t = rnd_track(rng, nbars=0, instrument="midi")
    for _ in range(3):
        t.add_bar(rnd_bar(rng, rest_mode="all"))
    f = path("tr.mid")
    midi_file_out.write_Track(f, t, repeat=1)
    e = Expect(120)
    model_track(e, t)
    model_track(e, t)
    check_file(f, [e], "write_Track rests only")
    # long track: many bars, rests spanning bar lines
    t = rnd_track(rng, nbars=0, instrument="midi")
    for k in range(150):
        t.add_bar(rnd_bar(rng, rest_mode=["lead", "trail", "all", "random"][k % 4]))
    f = path("tl.mid")
    midi_file_out.write_Track(f, t, repeat=1)
    e = Expect(120)
    model_track(e, t)
    model_track(e, t)
    check_file(f, [e], "write_Track long")


def check_compositions(rng):
    for i in range(80):
        c = Composition()
        ntr = 1 + i % 4
        tracks = [rnd_track(rng) for _ in range(ntr)]
        if ntr > 1 and i % 5 == 0:
            tracks[-1] = tracks[0]  # the same Track object twice
        if ntr > 2 and i % 7 == 0 and tracks[0].bars:
            tracks[1].add_bar(tracks[0].bars[0])  # shared Bar object
        for t in tracks:
            c.add_track(t)
        rep = rng.choice([0, 0, 1, 3])
        bpm = rng.choice([120, 55, 180])
        f = path("k%d.mid" % i)
        if i % 2:
            ok = midi_file_out.write_Composition(f, c, bpm, rep)
        else:
            ok = midi_file_out.write_Composition(file=f, composition=c, bpm=bpm, repeat=rep)
        need(ok is True, "write_Composition failed")
        es = []
        for t in tracks:
            e = Expect(bpm)
            for _ in range(rep + 1):
                model_track(e, t)
            es.append(e)
        check_file(f, es, "write_Composition #%d (%d tracks, rep %d)" % (i, ntr, rep))


def check_direct(rng):
    """MidiTrack / MidiFile used directly, objects used more than once."""
    for i in range(40):
        bpm = rng.choice([120, 99])
        mts = []
        es = []
        for k in range(1 + i % 3):
            mt = MidiTrack(bpm) if k % 2 else MidiTrack(start_bpm=bpm)
            e = Expect(bpm)
            tr = rnd_track(rng)
            mt.play_Track(tr)
            model_track(e, tr)
            for _ in range(i % 3):
                b = rnd_bar(rng)
                mt.play_Bar(b)
                model_bar(e, b)
            mts.append(mt)
            es.append(e)
        mf = MidiFile(mts) if i % 2 else MidiFile(tracks=mts)
        d1 = mf.get_midi_data()
        d2 = mf.get_midi_data()
        need(d1 == d2 and isinstance(d1, bytes), "get_midi_data not repeatable")
        f = path("d%d.mid" % i)
        need(mf.write_file(f) is True, "write_file failed")
        buf = check_file(f, es, "direct #%d" % i)
        need(buf == d1, "file differs from get_midi_data")
        for mt in mts:
            need(mt.get_midi_data() == mt.header() + mt.track_data + mt.end_of_track(), "track pieces")
        # keep writing to the same MidiTrack after having rendered it
        b = rnd_bar(rng)
        mts[0].play_Bar(b)
        model_bar(es[0], b)
        mf.write_file(f)
        check_file(f, es, "direct #%d continued" % i)
    # reset gives a fresh track
    mt = MidiTrack(100)
    mt.play_Bar(rnd_bar(rng, rest_mode="none"))
    mt.reset()
    need(mt.track_data == b"", "reset leaves data")


def main():
    rng = random.Random(1606)
    try:
        check_vlq()
        check_notes(rng)
        check_containers(rng)
        check_bars(rng)
        check_tracks(rng)
        check_compositions(rng)
        check_direct(rng)
    except Bad as exc:
        print("C16 VIOLATED: %s" % exc)
        return 1
    finally:
        shutil.rmtree(TMP, ignore_errors=True)
    print("C16 holds on %d cases" % CASES[0])
    return 0


if __name__ == "__main__":
    sys.exit(main())
