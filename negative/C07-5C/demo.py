import mingus, os; assert os.path.realpath(mingus.__file__).startswith(os.path.realpath(os.path.dirname(__file__)))
"""Direct check of property C07 (chord recognition inverts construction)
through the public API only.  Exit 0 when it holds, 1 with a message
otherwise."""
import random
import sys

from mingus.core import chords, intervals

ORDINALS = ["", ", first inversion", ", second inversion", ", third inversion",
            ", fourth inversion", ", fifth inversion", ", sixth inversion"]
LETTERS = "CDEFGAB"
ROOTS1 = [l + a for l in LETTERS for a in ("", "#", "b")]  # 21 roots
ROOTS2 = [l + a for l in LETTERS for a in ("##", "bb")]
SHORTHANDS = sorted(chords.chord_shorthand)

failures = []
checked = [0]


def fail(msg):
    failures.append(msg)
    if len(failures) >= 15:
        finish()


def finish():
    if failures:
        print("C07 FAILS (%d shown):" % len(failures))
        for f in failures:
            print("  " + f)
        sys.exit(1)
    print("C07 holds on %d checks" % checked[0])
    sys.exit(0)


def split_name(name):
    """root, suffix of a single (non poly) shorthand name"""
    i = 1
    while i < len(name) and name[i] in "#b":
        i += 1
    return name[:i], name[i:]


def both_forms(notes_list):
    """Call determine in both forms; neither may raise; same length."""
    try:
        short = chords.determine(list(notes_list), True)
        long_ = chords.determine(list(notes_list))
    except Exception as e:  # noqa
        fail("determine(%r) raised %r" % (notes_list, e))
        return None, None
    if not isinstance(short, list) or not isinstance(long_, list):
        fail("determine(%r) did not return lists" % (notes_list,))
        return None, None
    if len(short) != len(long_):
        fail("determine(%r): lengths differ %r / %r" % (notes_list, short, long_))
        return None, None
    return short, long_


def accepted(name, ctx):
    """Every shorthand name (and each half of a polychord) must be buildable."""
    parts = [name] + (name.split("|") if "|" in name else [])
    for p in parts:
        try:
            r = chords.from_shorthand(p)
        except Exception as e:  # noqa
            fail("%s: name %r not accepted by from_shorthand (%r)" % (ctx, p, e))
            return False
        if not isinstance(r, list) or not r:
            fail("%s: name %r built %r" % (ctx, p, r))
            return False
    return True


def same_order(short, long_, ctx):
    """Position i of the long form must talk about the same chord as
    position i of the shorthand form."""
    for s, l in zip(short, long_):
        if "|" in s:
            if l != s:
                fail("%s: polychord %r vs long %r" % (ctx, s, l))
            continue
        root, suffix = split_name(s)
        meaning = chords.chord_shorthand_meaning.get(suffix)
        if meaning is None or not l.startswith(root + meaning):
            fail("%s: long %r does not match short %r" % (ctx, l, s))


def check_built(root, sh):
    name = root + sh
    chord = chords.from_shorthand(name)
    if chords.from_shorthand(name) != chord:
        fail("from_shorthand(%r) is not repeatable" % name)
    n = len(chord)
    for k in range(n):
        rot = chord[k:] + chord[:k]
        backup = list(rot)
        ctx = "%s rot %d %r" % (name, k, rot)
        if n == 2:
            for flag in (False, True):
                got = chords.determine(list(rot), flag)
                if got != [intervals.determine(rot[0], rot[1])]:
                    fail("%s: two-note answer %r" % (ctx, got))
            checked[0] += 1
            continue
        short, long_ = both_forms(rot)
        if short is None:
            continue
        if rot != backup:
            fail("%s: argument was modified" % ctx)
        checked[0] += 1
        same_order(short, long_, ctx)
        hit = False
        for i, s in enumerate(short):
            if not accepted(s, ctx):
                continue
            if "|" in s:
                continue
            if chords.from_shorthand(s) == chord:
                r, suffix = split_name(s)
                want = r + chords.chord_shorthand_meaning[suffix] + ORDINALS[k]
                if long_[i] == want:
                    hit = True
        if not hit:
            fail("%s: not recognised: %r / %r" % (ctx, short, long_))
        # asking again gives the same answer (same process, many inputs)
        again = chords.determine(list(rot), True)
        if again != short:
            fail("%s: second call differs %r / %r" % (ctx, short, again))


def check_three(a, b, c):
    trio = [a, b, c]
    short, long_ = both_forms(trio)
    if short is None:
        return
    checked[0] += 1
    ctx = "three notes %r" % (trio,)
    same_order(short, long_, ctx)
    for s in short:
        if not accepted(s, ctx):
            continue
        built = chords.from_shorthand(s)
        for x in trio:
            if x not in built:
                fail("%s: %r builds %r which lacks %r" % (ctx, s, built, x))


def check_trivial():
    for flag in (False, True):
        if chords.determine([], flag) != []:
            fail("determine([]) != []")
        for r in ROOTS1 + ROOTS2:
            if chords.determine([r], flag) != [r]:
                fail("determine([%r]) != [%r]" % (r, r))
    rnd = random.Random(7)
    pairs = [(a, b) for a in ROOTS1 for b in ROOTS1]
    for a, b in pairs:
        want = [intervals.determine(a, b)]
        for flag in (False, True):
            got = chords.determine([a, b], flag)
            if got != want:
                fail("determine([%r, %r], %r) = %r, want %r" % (a, b, flag, got, want))
        checked[0] += 1
    for _ in range(60):
        a, b = rnd.choice(ROOTS1 + ROOTS2), rnd.choice(ROOTS1 + ROOTS2)
        if chords.determine([a, b]) != [intervals.determine(a, b)]:
            fail("determine([%r, %r]) trivial answer wrong" % (a, b))
    # a few spot values that are documented
    spots = {("C", "E"): "major third", ("C", "Eb"): "minor third",
             ("C", "G"): "perfect fifth", ("C", "F"): "perfect fourth",
             ("C", "E#"): "augmented third", ("C", "Ebb"): "diminished third",
             ("A", "Ab"): "minor unison", ("A", "A"): "major unison",
             ("Ab", "A"): "augmented unison", ("B", "C"): "minor second",
             ("F", "B"): "augmented fourth", ("B", "F"): "minor fifth"}
    for (a, b), want in spots.items():
        if chords.determine([a, b]) != [want]:
            fail("determine([%r, %r]) = %r, want [%r]" % (a, b, chords.determine([a, b]), want))


def check_samples():
    """4-7 note inputs: no raise, same length, names accepted."""
    rnd = random.Random(20260928)
    pool = ROOTS1 + ROOTS2
    for n in (4, 5, 6, 7):
        for _ in range(40 if n < 6 else 12):
            notes_list = [rnd.choice(pool) for _ in range(n)]
            short, long_ = both_forms(notes_list)
            if short is None:
                continue
            checked[0] += 1
            ctx = "sample %r" % (notes_list,)
            same_order(short, long_, ctx)
            for s in short:
                accepted(s, ctx)
    # samples that are close to real chords (drop / replace one note)
    for _ in range(60):
        base = chords.from_shorthand(rnd.choice(ROOTS1) + rnd.choice(SHORTHANDS))
        if len(base) < 4:
            continue
        base = list(base)
        rnd.shuffle(base)
        if rnd.random() < 0.5:
            base[rnd.randrange(len(base))] = rnd.choice(pool)
        short, long_ = both_forms(base)
        if short is None:
            continue
        checked[0] += 1
        ctx = "near chord %r" % (base,)
        same_order(short, long_, ctx)
        for s in short:
            accepted(s, ctx)


def main():
    quick = "--quick" in sys.argv
    rnd = random.Random(11)
    check_trivial()
    roots = ROOTS1 if not quick else rnd.sample(ROOTS1, 5)
    for root in roots:
        for sh in SHORTHANDS:
            check_built(root, sh)
    for root in ROOTS2:
        for sh in rnd.sample(SHORTHANDS, 8 if not quick else 3):
            check_built(root, sh)
    # alternative spellings of shorthand accepted by construction
    for name in ("Amin7", "A-7", "Amaj7", "Ami", "Ama7", "Bbmin", "F#maj"):
        chord = chords.from_shorthand(name)
        short = chords.determine(list(chord), True)
        if not any("|" not in s and chords.from_shorthand(s) == chord for s in short):
            fail("%s not recognised: %r" % (name, short))
        checked[0] += 1
    if quick:
        trios = [(rnd.choice(ROOTS1), rnd.choice(ROOTS1), rnd.choice(ROOTS1)) for _ in range(800)]
    else:
        trios = [(a, b, c) for a in ROOTS1 for b in ROOTS1 for c in ROOTS1]
    for t in trios:
        check_three(*t)
    check_samples()
    finish()


if __name__ == "__main__":
    main()
